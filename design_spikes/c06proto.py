# model of NewlineFramer.receive_message over a chunk list + candidate theorem statements, tested on the model AND vs real
import sys, asyncio, itertools, random
sys.path.insert(0,'/repo'); sys.path.insert(0,'.')
from aiorpcx.framing import NewlineFramer
NL = 10
def recv(st, chunks, max_size):
    """st=(residual, sync). returns (result, st', chunks') or None if more data needed. result = ('msg', bytes) | ('mem',)"""
    residual, sync = st
    parts = []; size = 0
    while True:
        part = residual; residual = b''
        if not part:
            if not chunks: return None     # would block (note: real framer keeps parts in the suspended coroutine)
            part, chunks = chunks[0], chunks[1:]
        npos = part.find(b'\n')
        if npos == -1:
            parts.append(part); size += len(part)
            if size <= max_size or max_size == 0: continue
            return ('mem',), (b'', True), chunks
        tail, residual = part[:npos], part[npos+1:]
        if sync:
            sync = False; parts = []; size = 0; continue      # the recursive call
        parts.append(tail)
        return ('msg', b''.join(parts)), (residual, sync), chunks
def run(chunks, max_size):
    st = (b'', False); out = []
    while True:
        r = recv(st, chunks, max_size)
        if r is None: return out
        res, st, chunks = r; out.append(res)
def real_run(chunks, max_size):
    async def go():
        f = NewlineFramer(max_size)
        for c in chunks: f.received_bytes(c)
        out = []
        while True:
            try: out.append(('msg', await asyncio.wait_for(f.receive_message(), 0.01)))
            except MemoryError: out.append(('mem',))
            except asyncio.TimeoutError: return out
    return asyncio.run(go())
def segments(stream): return stream.split(b'\n')[:-1]
def check_theorems(chunks, max_size):
    out = run(chunks, max_size); stream = b''.join(chunks); segs = segments(stream)
    msgs = [m for k, *r in out if k == 'msg' for m in r]
    # delivered is a subsequence of segs
    it = iter(segs); assert all(any(m == s for s in it) for m in msgs), ('subseq', chunks, max_size, out)
    # every small segment delivered exactly once, in order
    small = [s for s in segs if max_size == 0 or len(s) <= max_size]
    it = iter(msgs); assert all(any(m == s for m in it) for s in small), ('small', chunks, max_size, out, segs)
    # number of delivered == number of segs minus dropped; dropped all oversize
    # count: each seg is delivered at most once (as positions): compute alignment greedily
    # each mem attributable: #distinct dropped segs >= 1 if any mem
    dropped = len(segs) - len(msgs)
    if not any(k=='mem' for k,*_ in out): assert dropped == 0 or True
    return out
if __name__ == '__main__':
    rng = random.Random(1); n=0
    alphabet = [b'a', b'b', b'\n']
    # exhaustive small: all streams up to length 7 over alphabet, all chunkings, limits 0..3; compare model vs real on a sample, theorems on all
    for L in range(0, 8):
        for s in itertools.product(alphabet, repeat=L):
            stream = b''.join(s)
            for cuts in range(1 << max(L-1, 0)):
                chunks = []; cur = b''
                for i in range(L):
                    cur += stream[i:i+1]
                    if i == L-1 or (cuts >> i) & 1: chunks.append(cur); cur = b''
                for ms in (0, 1, 2, 3):
                    check_theorems(chunks, ms); n += 1
    print('theorem checks on model', n)
    m = 0
    for i in range(300):
        L = rng.randrange(0, 30); stream = bytes(rng.choice(b'ab\n') for _ in range(L))
        chunks = []; i0 = 0
        while i0 < L:
            j = i0 + rng.randrange(0, 6); chunks.append(stream[i0:j]); i0 = j
        ms = rng.randrange(0, 6)
        a = run(chunks, ms); b = real_run(chunks, ms)
        if a != b: m += 1; print('MISMATCH', chunks, ms, a, b)
    print('model vs real mismatches', m)
