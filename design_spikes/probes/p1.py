import sys, asyncio
sys.path.insert(0,'/repo')
from aiorpcx.util import *
from aiorpcx.jsonrpc import *
import aiorpcx.util as u
print('host nl', is_valid_hostname('example.com\n'))
print('host a=b', is_valid_hostname('a=b.com'), is_valid_hostname('a[b.com'), is_valid_hostname('a^b'))
print('host kelvin', is_valid_hostname('K.com'), is_valid_hostname('ſ.com'), is_valid_hostname('ı.com'))
print('arabic digits label', is_valid_hostname('١.com'))
for p in ['t,p','tcp\n','t','ab','a+','a-.','a/','a,','aK']:
    try: print(repr(p), validate_protocol(p))
    except Exception as e: print(repr(p), type(e).__name__)
for p in ['١٢', '²', '0', '65535', '65536', True, 1.0, b'1', '+1', ' 1', '1\n', '080']:
    try: print(repr(p), validate_port(p))
    except Exception as e: print(repr(p), type(e).__name__)
for s in ['[::1]:80', '[::1]', '1.2.3.4:5', 'a.b:5', '[a.b]:5', ':5', '::1:5']:
    try:
        a=NetAddress.from_string(s); print(s, repr(a), str(a), NetAddress.from_string(str(a))==a)
    except Exception as e: print(s, type(e).__name__, e)
try: print(validate_protocol(5))
except Exception as e: print(type(e).__name__)
try: print(classify_host(5))
except Exception as e: print(type(e).__name__)
try: print(classify_host('1.2.3.4\n'))
except Exception as e: print(type(e).__name__)
