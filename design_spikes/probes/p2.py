import sys, asyncio, json
sys.path.insert(0,'/repo')
from aiorpcx.jsonrpc import *
async def main():
    def trial(proto, msg, setup=None):
        c = JSONRPCConnection(proto)
        if setup: setup(c)
        try:
            r = c.receive_message(msg)
            print(proto.__name__, msg[:60], '->', r)
        except ProtocolError as e:
            print(proto.__name__, msg[:60], '-> ProtocolError', e.code, e.message[:50], e.error_message)
        except BaseException as e:
            print(proto.__name__, msg[:60], '-> ESCAPE', type(e).__name__, str(e)[:60])
    trial(JSONRPCv1, b'{"result":1,"error":null,"id":[]}')
    trial(JSONRPCv1, b'{"result":1,"error":null,"id":{}}')
    trial(JSONRPCv2, b'[{"jsonrpc":"2.0","result":1,"id":1},{"jsonrpc":"2.0","result":1,"id":"a"}]')
    trial(JSONRPCv2, b'[{"jsonrpc":"2.0","result":1,"id":1},{"jsonrpc":"2.0","result":1,"id":null}]')
    trial(JSONRPCv2, b'['*100000 + b']'*100000)
    trial(JSONRPCv2, b'{"jsonrpc":"2.0","method":"a","id":' + b'9'*5000 + b'}')
    trial(JSONRPCv2, b'[{"jsonrpc":"2.0","method":"a"},{"jsonrpc":"2.0","method":1,"id":5}]')
    trial(JSONRPCv2, b'[{"jsonrpc":"2.0","method":"a"}, 7]')
    trial(JSONRPCv2, b'[7]')
    trial(JSONRPCv2, b'{"jsonrpc":"2.0","method":"a","id":NaN}')
    trial(JSONRPCv2, b'\xff')
    trial(JSONRPCLoose, b'[{"result":1,"id":1,"method":"x"}]')
    # batch with malformed member
    def setup(c):
        b = Batch([Request('a',[]), Request('b',[])])
        m, f = c.send_batch(b); c._f = f
    c = JSONRPCConnection(JSONRPCv2); setup(c)
    try:
        print(c.receive_message(b'[{"jsonrpc":"2.0","result":1,"id":0},{"jsonrpc":"2.0","id":1}]'))
    except ProtocolError as e:
        print('batch malformed member -> ProtocolError', e.message, 'pending', c.pending_requests(), c._f.done())
    # bool id / float id
    c = JSONRPCConnection(JSONRPCv2)
    m, f0 = c.send_request(Request('a',[])); m, f1 = c.send_request(Request('a',[]))
    print(c.receive_message(b'{"jsonrpc":"2.0","result":"x","id":true}'), f0.done(), f1.done(), f1.result() if f1.done() else None)
    c = JSONRPCConnection(JSONRPCv2)
    print(JSONRPCv2.response_message({1:2}, 5))
    for bad in [{(1,2):3}, set(), float('nan'), 10**5000]:
        try: print(JSONRPCv2.response_message(bad, 5)[:50])
        except BaseException as e: print('encode', type(e).__name__, str(e)[:50])
    a=[]; a.append(a)
    try: print(JSONRPCv2.response_message(a, 5)[:50])
    except BaseException as e: print('encode', type(e).__name__, str(e)[:50])
asyncio.run(main())
