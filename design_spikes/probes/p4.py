import sys, asyncio, json
sys.path.insert(0,'/repo'); sys.path.insert(0,'.')
from vloop import *
import aiorpcx
from aiorpcx import *
from aiorpcx.rawsocket import RSTransport
from aiorpcx.session import SessionKind
import aiorpcx.session as S
loop = VLoop(); asyncio.set_event_loop(loop)
class T: 
    @staticmethod
    def time(): return loop.time()
S.time = T

class Srv(RPCSession):
    async def handle_request(self, request):
        m = request.method
        if m == 'set': return {1,2}
        if m == 'nan': return float('nan')
        if m == 'rad0': raise ReplyAndDisconnect()
        if m == 'sleep': await asyncio.sleep(request.args[0]); return 'slept'
        if m == 'big': return 'x'*request.args[0]
        return 'ok'

def mk(kind=SessionKind.SERVER, cls=Srv, hwm=None):
    p = RSTransport(cls, None, kind); t = FakeTransport(p, hwm); p.connection_made(t); return p, t

async def main():
    p, t = mk()
    p.data_received(b'{"jsonrpc":"2.0","method":"a","id":1}\n')
    await asyncio.sleep(0.1); print(t.written)
    p.data_received(b'{"jsonrpc":"2.0","method":"set","id":2}\n')
    await asyncio.sleep(0.1); print(t.written[1:], 'closing', t.closing, 'task done', p._process_messages_task.done(), p._process_messages_task.exception() if p._process_messages_task.done() else None)
    p.data_received(b'{"jsonrpc":"2.0","method":"a","id":3}\n')
    await asyncio.sleep(0.1); print('after:', t.written[1:], 'errors', p.session.errors)
    # RAD with no args
    p, t = mk()
    p.data_received(b'{"jsonrpc":"2.0","method":"rad0","id":2}\n')
    await asyncio.sleep(0.1); print('rad0', t.written, 'closing', t.closing, p._process_messages_task.done())
    # hostile bytes at session level
    for hostile in [b'['*100000+b']'*100000, b'{"jsonrpc":"2.0","method":"a","id":'+b'9'*5000+b'}']:
        p, t = mk()
        p.data_received(hostile + b'\n')
        await asyncio.sleep(0.1)
        p.data_received(b'{"jsonrpc":"2.0","method":"a","id":3}\n')
        await asyncio.sleep(0.1); print('hostile', hostile[:20], t.written, 'closing', t.closing, 'lost', t.lost, 'pm done', p._process_messages_task.done())
    # C15 multi writers
    p, t = mk(hwm=10)
    p.data_received(b'{"jsonrpc":"2.0","method":"a","id":1}\n')
    await asyncio.sleep(0.1); print('paused', t.paused, t.log)
    for i in range(2,5):
        p.data_received(b'{"jsonrpc":"2.0","method":"a","id":%d}\n' % i)
    await asyncio.sleep(0.1); print('while paused written', len(t.written))
    t.log.clear(); t.drain(); await asyncio.sleep(0.1); print('after drain', t.log)
    # stall
    t.log.clear(); await asyncio.sleep(25); print('after 25s', t.log, 'lost', t.lost)
    # MessageSession cost
    class MS(MessageSession): pass
    p, t = mk(cls=MS)
    await p.session.send_message((b'cmd', b'x'*1000))
    print('MS send_size', p.session.send_size, 'cost', p.session.cost, 'written', len(t.written[0]))
asyncio.get_event_loop().run_until_complete(main())
