import sys, asyncio, json, inspect
sys.path.insert(0,'/repo'); sys.path.insert(0,'.')
from vloop import *
from aiorpcx import *
from aiorpcx.framing import *
from aiorpcx.socks import *
from aiorpcx.util import signature_info
from functools import partial
loop = VLoop(); asyncio.set_event_loop(loop)
async def main():
    # C06
    f = NewlineFramer(max_size=5)
    for c in [b'abcdef', b'ghijklmnop', b'qrstuv', b'w\nok\nxx', b'\n']: f.received_bytes(c)
    out=[]
    for _ in range(6):
        try: out.append(await asyncio.wait_for(f.receive_message(), 1))
        except MemoryError: out.append('MEM')
        except asyncio.TimeoutError: out.append('TIMEOUT'); break
    print('C06', out)
    f = NewlineFramer(max_size=5)
    for c in [b'abcdefgh\nxy\n']: f.received_bytes(c)
    print('C06 big final chunk', await f.receive_message(), await f.receive_message())
    # C07
    bf = BitcoinFramer()
    for cmd in [b'ab\0', b'a\0b', b'', b'x'*12]:
        fr = bf.frame((cmd, b'payload')); bf.received_bytes(fr); print('C07', cmd, await bf.receive_message())
    try: bf.frame((b'x'*13, b''))
    except Exception as e: print('C07 long', type(e).__name__)
    # SOCKS4 NUL
    for u in ['a\0b', '\ud800', 'é']:
        try:
            s = SOCKS4(NetAddress('1.2.3.4', 80), SOCKSUserAuth(u, 'p')); print('SOCKS4', repr(u), s.next_message())
        except Exception as e: print('SOCKS4', repr(u), type(e).__name__)
    for u,p in [('', 'p'), ('u'*256, 'p'), ('u', ''), ('é'*128, 'p'), ('\ud800','p')]:
        try:
            s = SOCKS5(NetAddress('a.b', 80), SOCKSUserAuth(u, p)); print('SOCKS5 ok', len(u))
        except Exception as e: print('SOCKS5', len(u), type(e).__name__)
    # C19
    def f1(a, *, b): pass
    def f2(a, b=1, /): pass
    def f3(a, /, b, *, c=1, **kw): pass
    def f4(a, b): pass
    for fn, args in [(f1,[1]), (f1,{'a':1}), (f1,{'a':1,'b':2}), (f2,[1]), (f2,{'a':1}), (f3,[1,2]), (f3, {'b':1}), (partial(f4, a=1), {}), (partial(f4, a=1), [5]), (partial(f4,a=1), {'b':2}), (partial(f4, a=1), {'a':3,'b':2})]:
        try:
            inv = handler_invocation(fn, Request('m', args))
            try: inv(); print('C19', fn, args, 'accepted & bound')
            except TypeError as e: print('C19', getattr(fn,'__name__',fn), args, 'ACCEPTED BUT TypeError:', e)
        except RPCError as e: print('C19', getattr(fn,'__name__',fn), args, 'rejected', e.code)
    print(signature_info(f3), signature_info(partial(f4, a=1)), inspect.signature(partial(f4,a=1)))
asyncio.get_event_loop().run_until_complete(main())
