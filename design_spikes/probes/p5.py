import sys, asyncio, json
sys.path.insert(0,'/repo'); sys.path.insert(0,'.')
from vloop import *
from aiorpcx import *
from aiorpcx.rawsocket import RSTransport
from aiorpcx.session import SessionKind
import aiorpcx.session as S
loop = VLoop(); asyncio.set_event_loop(loop)
class T:
    @staticmethod
    def time(): return loop.time()
S.time = T
class Srv(RPCSession):
    started = 0
    async def handle_request(self, request):
        Srv.started += 1
        m = request.method
        if m == 'sleep': await asyncio.sleep(request.args[0]); return 'slept'
        if m == 'big': return 'x'*request.args[0]
        if m == 'err': raise RPCError(7, 'seven', cost=request.args[0] if request.args else 0.0)
        return 'ok'
def mk(kind=SessionKind.SERVER, cls=Srv, hwm=None):
    p = RSTransport(cls, None, kind); t = FakeTransport(p, hwm); p.connection_made(t); return p, t
async def main():
    # C02 batch oversize
    p, t = mk(); p.session.connection.max_response_size = 60
    p.data_received(b'[{"jsonrpc":"2.0","method":"big","params":[5],"id":1},{"jsonrpc":"2.0","method":"big","params":[100],"id":2},{"jsonrpc":"2.0","method":"big","params":[5],"id":3}]\n')
    await asyncio.sleep(0.1); print('batch oversize', t.written)
    p, t = mk(); p.session.connection.max_response_size = 60
    p.data_received(b'{"jsonrpc":"2.0","method":"big","params":[100],"id":2}\n')
    await asyncio.sleep(0.1); print('single oversize', t.written)
    # C14: hard-limit
    p, t = mk(); s = p.session
    s.bump_cost(20000); print('cost', s.cost, 'target', s._incoming_concurrency.max_concurrent, 'frac', s._cost_fraction)
    called = []
    s.on_disconnect_due_to_excessive_session_cost = lambda: called.append(1)
    Srv.started = 0
    p.data_received(b'{"jsonrpc":"2.0","method":"a","id":1}\n')
    await asyncio.sleep(0.1); print('over hard', t.written, 'hook', called, 'closing', t.closing, 'started', Srv.started, 'lost', t.lost, 'pm done', p._process_messages_task.done())
    # C14: waiting requests when target drops to 0 while holders present
    p, t = mk(); s = p.session; Srv.started = 0
    for i in range(25):
        p.data_received(b'{"jsonrpc":"2.0","method":"sleep","params":[1],"id":%d}\n' % i)
    await asyncio.sleep(0.1); print('started', Srv.started, 'unanswered', s.unanswered_request_count())
    s.bump_cost(20000)
    await asyncio.sleep(2); print('after: started', Srv.started, 'written', len(t.written), [json.loads(w).get('error',{}).get('code') for w in t.written[-6:]], 'closing', t.closing)
    await asyncio.sleep(40); print('after 40s: written', len(t.written), 'lost', t.lost, 'pm', p._process_messages_task.done())
    # C20: client request times out / lost
    p, t = mk(kind=SessionKind.CLIENT, cls=RPCSession); s = p.session
    async def req(i):
        try:
            r = await s.send_request('m', [i]); return ('ok', r, loop.time())
        except BaseException as e: return (type(e).__name__, loop.time())
    t0 = loop.time()
    tasks = [asyncio.ensure_future(req(i)) for i in range(60)]
    await asyncio.sleep(1); print('written', len(t.written), 'pending', len(s.connection.pending_requests()))
    await asyncio.sleep(100); print('outcomes', set((x.result()[0], round(x.result()[-1]-t0)) for x in tasks if x.done()), sum(x.done() for x in tasks), 'target', s._outgoing_concurrency.max_concurrent, 'pending', len(s.connection.pending_requests()))
asyncio.get_event_loop().run_until_complete(main())
