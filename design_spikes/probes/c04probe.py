import sys, json, random, asyncio
sys.path.insert(0,'/repo')
from aiorpcx.jsonrpc import *
from aiorpcx.jsonrpc import Response
rng = random.Random(11)
import re as _re
def rs():
    return _re.sub('[\ud800-\udbff](?=[\udc00-\udfff])', 'x', _rs())
def _rs():
    return ''.join(chr(rng.choice([rng.randrange(0,0x30), rng.randrange(0x20,0x7f), 0x7f, rng.randrange(0x80,0x800), rng.randrange(0xd7f0,0xe010), rng.randrange(0x10000,0x110000), 0x2028, 0x22, 0x5c, 10, 13])) for _ in range(rng.randrange(0,6)))
def rv(d):
    r = rng.random()
    if d == 0 or r < 0.5:
        return rng.choice([None, True, False, rng.randrange(-10**30, 10**30), rng.randrange(-5,5), rng.uniform(-1e10,1e10), 1e300, -0.0, rs()])
    if r < 0.75: return [rv(d-1) for _ in range(rng.randrange(0,4))]
    return {rs(): rv(d-1) for _ in range(rng.randrange(0,4))}
def rid(): return rng.choice([0, 1, -7, 10**25, 1.5, 0.0, '', 'abc', rs(), True, False])
def rargs(named_ok):
    if named_ok and rng.random() < 0.4: return {rs(): rv(2) for _ in range(rng.randrange(0,3))}
    return [rv(2) for _ in range(rng.randrange(0,3))]
def same_item(a, b):
    if type(a) is not type(b): return False
    if isinstance(a, (Request, Notification)): return a.method == b.method and a.args == b.args
    if isinstance(a, Response):
        ra, rb = a.result, b.result
        if isinstance(ra, Exception) or isinstance(rb, Exception): return type(ra) is type(rb) and ra.code == rb.code and ra.message == rb.message
        return ra == rb and type(ra) is type(rb)
    return False
bad = []; n = 0
def check(tag, cond, *info):
    global n; n += 1
    if not cond and len(bad) < 12: bad.append((tag,) + info)
    if not cond: bad.append(None) if len(bad) >= 12 else None
for i in range(6000):
    for P in (JSONRPCv1, JSONRPCv2, JSONRPCLoose):
        named = P is not JSONRPCv1
        # request
        req = Request(rs(), rargs(named)); rid_ = rid()
        msg = P.request_message(req, rid_)
        check('line', b'\n' not in msg and all(0x20 <= c <= 0x7e for c in msg), P.__name__, msg)
        payload = json.loads(msg)
        if P is JSONRPCv1: check('v1fmt', set(payload) == {'method','params','id'} and isinstance(payload['params'], list), msg)
        else: check('v2fmt', payload.get('jsonrpc') == '2.0', msg)
        try:
            item, got = P.message_to_item(msg)
            check('req-rt', same_item(item, req) and got == rid_ and type(got) is type(rid_), P.__name__, req, rid_, item, got)
            litem, lgot = JSONRPCLoose.message_to_item(msg)
            check('loose-req', same_item(litem, item) and lgot == got, P.__name__, msg)
            D = JSONRPCAutoDetect.detect_protocol(msg); ditem, dgot = D.message_to_item(msg)
            check('auto-req', same_item(ditem, item) and dgot == got, P.__name__, D.__name__, msg)
        except ProtocolError as e: check('req-rt-exc', False, P.__name__, req, rid_, e)
        # notification
        nt = Notification(rs(), rargs(named)); msg = P.notification_message(nt)
        try:
            item, got = P.message_to_item(msg); check('notif-rt', same_item(item, nt) and got is None, P.__name__, nt, item, got)
            D = JSONRPCAutoDetect.detect_protocol(msg); ditem, dgot = D.message_to_item(msg)
            check('auto-notif', same_item(ditem, item) and dgot is None, P.__name__, D.__name__, msg)
        except ProtocolError as e: check('notif-exc', False, P.__name__, nt, e)
        # result
        res = rv(3); rid_ = rid(); msg = P.response_message(res, rid_); payload = json.loads(msg)
        if P is JSONRPCv1: check('v1resp', 'result' in payload and 'error' in payload and (payload['result'] is None or payload['error'] is None), msg)
        else: check('v2resp', payload.get('jsonrpc') == '2.0' and (('result' in payload) != ('error' in payload)), msg)
        try:
            item, got = P.message_to_item(msg); check('res-rt', isinstance(item, Response) and item.result == res and got == rid_, P.__name__, res, item.result)
            litem, lgot = JSONRPCLoose.message_to_item(msg); check('loose-res', same_item(litem, item) and lgot == got, P.__name__, msg)
            D = JSONRPCAutoDetect.detect_protocol(msg); ditem, dgot = D.message_to_item(msg); check('auto-res', same_item(ditem, item) and dgot == got, P.__name__, D.__name__, msg)
        except ProtocolError as e: check('res-exc', False, P.__name__, res, rid_, e.message)
        # error
        err = RPCError(rng.randrange(-40000, 40000), rs()); msg = P.response_message(err, rid_)
        try:
            item, got = P.message_to_item(msg); check('err-rt', isinstance(item.result, RPCError) and item.result == err and got == rid_, P.__name__, err, item.result)
            litem, lgot = JSONRPCLoose.message_to_item(msg); check('loose-err', same_item(litem, item) and lgot == got, P.__name__, msg)
            D = JSONRPCAutoDetect.detect_protocol(msg); ditem, dgot = D.message_to_item(msg); check('auto-err', same_item(ditem, item) and dgot == got, P.__name__, D.__name__, msg)
        except ProtocolError as e: check('err-exc', False, P.__name__, err, rid_, e.message)
print('checks', n, 'failures', len([b for b in bad]))
seen = set()
for b in bad:
    if b and b[0] not in seen: seen.add(b[0]); print(repr(b)[:400])
