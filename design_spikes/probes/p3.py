import sys, asyncio
sys.path.insert(0,'/repo')
from aiorpcx.curio import *
from aiorpcx import curio

async def t_c12():
    async def body():
        async with timeout_after(10):
            try:
                async with timeout_after(0.01):
                    await sleep(1)
            except TaskTimeout:
                pass
            await sleep(5)
    t = asyncio.ensure_future(body())
    await sleep(0.05)
    t.cancel()
    try:
        await t
        print('C12: finished normally?!')
    except asyncio.CancelledError:
        print('C12: cancelled OK')
    except BaseException as e:
        print('C12: replaced by', type(e).__name__)

async def t_c12b():
    async def body():
        async with timeout_after(10):
            async with ignore_after(0.01):
                await sleep(1)
            await sleep(5)
    t = asyncio.ensure_future(body())
    await sleep(0.05)
    t.cancel()
    try:
        await t
    except asyncio.CancelledError:
        print('C12b: cancelled OK')
    except BaseException as e:
        print('C12b: replaced by', type(e).__name__)

async def t_c09a():
    late = []
    async def straggler():
        await sleep(0.2)
    async def member(g):
        try:
            await sleep(10)
        except asyncio.CancelledError:
            late.append(await g.spawn(straggler))
            raise
    async def failing():
        await sleep(0.01)
        raise KeyError
    g = TaskGroup()
    await g.spawn(member, g)
    await g.spawn(failing)
    await g.join()
    print('C09a: joined', g.joined, 'late task done?', [t.done() for t in late], 'pending', len(g._pending))

async def t_c09b():
    members = []
    async def slow():
        try:
            await sleep(10)
        except asyncio.CancelledError:
            await sleep(0.3)
            raise
    async def joiner(g):
        await g.join()
    g = TaskGroup()
    members.append(await g.spawn(slow))
    j = asyncio.ensure_future(joiner(g))
    await sleep(0.01)
    j.cancel()
    await sleep(0.05)
    j.cancel()
    try:
        await j
    except asyncio.CancelledError:
        pass
    print('C09b: join ended; members done?', [m.done() for m in members], 'joined', g.joined)

async def t_c09c():
    # single cancel while join is already cleaning up after a failed member
    members = []
    async def slow():
        try:
            await sleep(10)
        except asyncio.CancelledError:
            await sleep(0.3)
            raise
    async def failing():
        await sleep(0.01); raise KeyError
    g = TaskGroup()
    members.append(await g.spawn(slow))
    await g.spawn(failing)
    j = asyncio.ensure_future(g.join())
    await sleep(0.05)
    j.cancel()
    try:
        await j
    except asyncio.CancelledError:
        pass
    print('C09c: join ended; members done?', [m.done() for m in members], 'joined', g.joined)

async def main():
    await t_c12(); await t_c12b(); await t_c09a(); await t_c09b(); await t_c09c()
asyncio.run(main())
