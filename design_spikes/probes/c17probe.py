import sys, asyncio, random, itertools
sys.path.insert(0,'/repo')
from aiorpcx.socks import *
from aiorpcx.util import NetAddress
class FakeLoop:
    def __init__(s, stream, segs): s.stream = stream; s.pos = 0; s.segs = list(segs); s.sent = []; s.requested = []
    async def sock_sendall(s, sock, data): s.sent.append(data)
    async def sock_recv(s, sock, n):
        s.requested.append(n)
        k = s.segs.pop(0) if s.segs else n
        k = max(1, min(k, n))
        data = s.stream[s.pos:s.pos + k]; s.pos += len(data); return data
def run(proto, addr, auth, stream, segs):
    client = proto(addr, auth); p = SOCKSProxy(NetAddress('1.2.3.4', 1080), proto, auth); fl = FakeLoop(stream, segs)
    try:
        asyncio.run(p._handshake(client, None, fl)); out = 'ok'
    except SOCKSFailure: out = 'failure'
    except SOCKSProtocolError: out = 'protoerr'
    except BaseException as e: out = 'ESCAPE ' + type(e).__name__
    return out, fl.pos, fl.sent
def spec5(stream, auth):
    """independent spec: (outcome, bytes consumed)"""
    def need(n, pos): return len(stream) >= pos + n
    pos = 0
    if not need(2, pos): return 'protoerr', len(stream)
    v, m = stream[0], stream[1]; pos = 2
    if v != 5: return 'protoerr', pos
    if m not in ([0, 2] if auth else [0]): return 'failure', pos
    if m == 2:
        if not need(2, pos): return 'protoerr', len(stream)
        a, st = stream[pos], stream[pos+1]; pos += 2
        if a != 1: return 'protoerr', pos
        if st != 0: return 'failure', pos
    if not need(5, pos): return 'protoerr', len(stream)
    d = stream[pos:pos+5]; pos += 5
    if d[0] != 5 or d[2] != 0 or d[3] not in (1, 3, 4): return 'protoerr', pos
    if d[1] != 0: return 'failure', pos
    rest = {1: 3, 3: d[4], 4: 15}[d[3]] + 2
    if not need(rest, pos): return 'protoerr', len(stream)
    return 'ok', pos + rest
def spec4(stream):
    if len(stream) < 8: return 'protoerr', len(stream)
    if stream[0] != 0: return 'protoerr', 8
    return ('ok' if stream[1] == 90 else 'failure'), 8
rng = random.Random(2); bad = 0; n = 0
auth = SOCKSUserAuth('user', 'pass')
good5 = lambda au, atyp, alen=5: bytes([5, 2 if au else 0]) + (bytes([1, 0]) if au else b'') + bytes([5, 0, 0, atyp]) + ({1: bytes(4), 3: bytes([alen]) + bytes(alen), 4: bytes(16)}[atyp]) + bytes(2)
cases = []
for au in (None, auth):
    for atyp in (1, 3, 4):
        base = good5(au, atyp)
        for posn in range(len(base)):
            for val in range(256):
                cases.append((SOCKS5, au, base[:posn] + bytes([val]) + base[posn+1:]))
        for alen in range(256): cases.append((SOCKS5, au, good5(au, 3, alen)))
        for cut in range(len(base)): cases.append((SOCKS5, au, base[:cut]))
base4 = bytes([0, 90, 0, 0, 0, 0, 0, 0])
for posn in range(8):
    for val in range(256): cases.append((SOCKS4, None, base4[:posn] + bytes([val]) + base4[posn+1:]))
for proto, au, stream in cases:
    trailing = bytes(rng.randrange(256) for _ in range(rng.randrange(0, 5)))
    full = stream + trailing if rng.random() < 0.7 else stream
    addr = NetAddress('8.8.8.8', 53)
    exp = spec5(full, au) if proto is SOCKS5 else spec4(full)
    for segs in ([], [1] * 400, [rng.randrange(1, 5) for _ in range(400)]):
        out, consumed, sent = run(proto, addr, au, full, segs); n += 1
        if (out, consumed) != exp and not (exp[0] == 'protoerr' and out == 'protoerr'):
            bad += 1
            if bad < 6: print('MISMATCH', proto.__name__, bool(au), full.hex(), segs[:5], (out, consumed), exp)
print('runs', n, 'bad', bad)
