# Prototype of the big-step timeout model (to be transcribed to Gallina) + differential test vs real curio
import sys, asyncio, random
from fractions import Fraction as F
sys.path.insert(0,'/repo'); sys.path.insert(0,'.'); sys.path.insert(0, __import__('os').path.join(__import__('os').path.dirname(__import__('os').path.abspath(__file__)), 'probes'))
from vloop import VLoop
from aiorpcx.curio import *
INF = None
# programs: ('await', d) | ('seq', [p..]) | ('block', kind, abs, t, body, id) | ('try', body, classes, handler) | ('raise', name)
class St:
    def __init__(s, ext): s.now=F(0); s.deadlines=[]; s.timed_out=None; s.armed=None; s.ext=ext; s.log=[]
def arm(s, d): s.armed = d
def ev(p, s):
    k = p[0]
    if k == 'await':
        d = p[1]
        cands = [(s.now + d, 'done')]
        if s.armed is not None: cands.append((max(s.armed, s.now), 'timer'))
        if s.ext is not None and s.ext >= s.now: cands.append((s.ext, 'ext'))
        t, what = min(cands, key=lambda c: (c[0], {'timer':0,'ext':1,'done':2}[c[1]]))
        s.now = t
        if what == 'done': return ('ok',)
        if what == 'timer':
            s.timed_out = s.armed; s.armed = None; s.log.append(('interrupt', float(t))); return ('exc','CancelledError')
        s.ext = None; s.log.append(('extcancel', float(t))); return ('exc','CancelledError')
    if k == 'seq':
        for q in p[1]:
            r = ev(q, s)
            if r[0] != 'ok': return r
        return ('ok',)
    if k == 'raise': return ('exc', p[1])
    if k == 'try':
        r = ev(p[1], s)
        if r[0]=='exc' and r[1] in p[2]: return ev(p[3], s)
        return r
    if k == 'block':
        _, kind, ab, t, body, bid = p
        deadline = t if ab else s.now + t
        if s.deadlines:
            if deadline < min(s.deadlines): arm(s, deadline)
        else: arm(s, deadline)
        s.deadlines.append(deadline); s.timed_out = None
        r = ev(body, s)
        tod = s.timed_out; uncaught = tod not in s.deadlines
        s.armed = None; s.deadlines.pop()
        if s.deadlines: arm(s, min(s.deadlines))
        def fin(res, expired=False):
            s.log.append((bid, res[1] if res[0]=='exc' else 'normal', expired)); return res
        if r[0]=='ok' or r[1] not in ('CancelledError','TaskTimeout','TimeoutCancellationError'): return fin(r)
        if tod == deadline:
            if kind=='ignore': return fin(('ok',), True)
            return fin(('exc','TaskTimeout'), True)
        if tod is None: return fin(r)
        if uncaught: return fin(('exc','UncaughtTimeoutError'))
        if r[1]=='TimeoutCancellationError': return fin(r)
        return fin(('exc','TimeoutCancellationError'))
def model(p, ext):
    s = St(ext); r = ev(p, s)
    # follow-on: await 50 more
    if r[0]=='ok':
        r2 = ev(('await', F(50)), s)
        tail = 'tail-ok' if r2[0]=='ok' else 'tail-'+r2[1]
    else: tail = 'n/a'
    return (r[1] if r[0]=='exc' else 'ok'), tail, s.log, s.armed

EXC = {'KeyError':KeyError,'TaskTimeout':TaskTimeout,'TimeoutCancellationError':TimeoutCancellationError,'UncaughtTimeoutError':UncaughtTimeoutError,'CancelledError':asyncio.CancelledError}
async def real_ev(p, log, loop):
    k = p[0]
    if k=='await':
        try: await sleep(float(p[1]))
        except asyncio.CancelledError:
            raise
    elif k=='seq':
        for q in p[1]: await real_ev(q, log, loop)
    elif k=='raise': raise EXC[p[1]](1) if p[1]=='TaskTimeout' else EXC[p[1]]()
    elif k=='try':
        try: await real_ev(p[1], log, loop)
        except tuple(EXC[c] for c in p[2]) as e:
            if type(e).__name__ not in p[2]: raise   # exact-class semantics in DSL
            await real_ev(p[3], log, loop)
    elif k=='block':
        _, kind, ab, t, body, bid = p
        f = {('timeout',False):timeout_after,('timeout',True):timeout_at,('ignore',False):ignore_after,('ignore',True):ignore_at}[(kind,ab)]
        cm = f(float(t))
        try:
            async with cm: await real_ev(body, log, loop)
        except BaseException as e:
            log.append((bid, type(e).__name__, cm.expired)); raise
        else: log.append((bid, 'normal', cm.expired))
def real(p, ext):
    loop = VLoop(); asyncio.set_event_loop(loop)
    log=[]
    async def top():
        await real_ev(p, log, loop)
        try: await sleep(50)
        except asyncio.CancelledError: return 'tail-CancelledError'
        return 'tail-ok'
    async def main():
        t = loop.create_task(top())
        if ext is not None: loop.call_at(float(ext), t.cancel)
        try:
            tail = await t; out='ok'
        except BaseException as e: out=type(e).__name__; tail='n/a'
        left = [h for h in loop._scheduled if not h._cancelled and 'timeout_task' in repr(h)]
        return out, tail, log, len(left)
    r = loop.run_until_complete(main()); loop.close(); return r

def gen(rng, depth, ids):
    r = rng.random()
    if depth==0 or r<0.3: return ('await', F(rng.choice([1,3,5,7,9,11]),2))
    if r<0.5: return ('seq', [gen(rng, depth-1, ids) for _ in range(rng.randint(2,3))])
    if r<0.85:
        ids[0]+=1; bid=ids[0]
        ab = rng.random()<0.3
        t = F(rng.choice([0,1,2,3,4,6,-1] if ab else [0,1,2,3,4,6]))
        return ('block', rng.choice(['timeout','ignore']), ab, t, gen(rng, depth-1, ids), bid)
    if r<0.97: return ('try', gen(rng, depth-1, ids), rng.choice([['TaskTimeout'],['TaskTimeout','UncaughtTimeoutError'],['KeyError'],['TimeoutCancellationError']]), gen(rng, depth-1, ids))
    return ('raise', rng.choice(['KeyError']))
if __name__=='__main__':
    rng = random.Random(int(sys.argv[1]) if len(sys.argv)>1 else 1)
    n=int(sys.argv[2]) if len(sys.argv)>2 else 2000; bad=0; stats={}
    for i in range(n):
        p = gen(rng, 4, [0]); ext = F(rng.choice([1,5,9,13,21]),4) if rng.random()<0.4 else None
        m = model(p, ext); r = real(p, ext)
        mlog = [x for x in m[2] if x[0] not in ('interrupt','extcancel')]
        key=(m[0], ext is not None); stats[key]=stats.get(key,0)+1
        if (m[0],m[1],mlog,0 if m[3] is None else 1) != (r[0],r[1],r[2],r[3]):
            bad+=1
            if bad<=5: print('MISMATCH', p, ext, '\n  model', m[0],m[1],mlog,m[3], '\n  real ', r)
    print('cases', n, 'mismatches', bad, stats)
