# Prototype of the TaskGroup LTS (to be transcribed to Gallina) + trace acceptance against the real TaskGroup.
import sys, asyncio, random, itertools
sys.path.insert(0,'/repo'); sys.path.insert(0,'.')
from steploop import StepLoop
from aiorpcx.curio import TaskGroup
from asyncio import CancelledError

# ---------------------------------------------------------------- model
class M:
    def __init__(s, wait):
        s.wait = wait; s.tasks = {}; s.futs = {}; s.ready = []; s.nf = 0
        s.pending = []; s.daemons = []; s.done = []; s.joined = False; s.completed = None
        s.semv = 0; s.semw = []; s.ev = {}; s.nk = 0; s.J = None; s.spawn_counter = 0; s.errors = []
    # futures
    def newfut(s): s.nf += 1; s.futs[s.nf] = {'st': 'pending', 'cbs': []}; return s.nf
    def fut_done(s, f): return s.futs[f]['st'] != 'pending'
    def fut_finish(s, f, st):
        F = s.futs[f]; F['st'] = st
        for t in F['cbs']: s.ready.append(('wakeup', t, f))
        F['cbs'] = []
    def fut_cancel(s, f):
        if s.fut_done(f): return False
        s.fut_finish(f, 'cancelled'); return True
    # tasks
    def newtask(s, tid, kind, **kw):
        s.tasks[tid] = dict(kind=kind, done=None, waiter=None, must=False, cbs=[], pc='start', **kw)
        s.ready.append(('step', tid))
    def suspend(s, tid, f, pc):
        T = s.tasks[tid]; T['pc'] = pc; T['waiter'] = f; s.futs[f]['cbs'].append(tid)
        if T['must']:
            if s.fut_cancel(f): T['must'] = False
    def finish(s, tid, outcome):
        T = s.tasks[tid]
        if outcome[0] == 'ret' and T['must']:      # cancel requested during the final step (CPython: StopIteration branch only)
            T['must'] = False; outcome = ('canc',)
        T['done'] = outcome; T['pc'] = 'end'
        for cb in T['cbs']: s.ready.append(cb)
        T['cbs'] = []
    def add_done_cb(s, tid, cb):
        if s.tasks[tid]['done'] is not None: s.ready.append(cb)
        else: s.tasks[tid]['cbs'].append(cb)
    def cancel(s, tid):
        T = s.tasks[tid]
        if T['done'] is not None: return False
        if T['waiter'] is not None and s.fut_cancel(T['waiter']): return True
        T['must'] = True; return True
    # semaphore (3.12)
    def sem_locked(s): return s.semv == 0 or any(s.futs[f]['st'] != 'cancelled' for f in s.semw)
    def sem_wake(s):
        for f in s.semw:
            if not s.fut_done(f): s.semv -= 1; s.fut_finish(f, 'result'); return
    def sem_release(s): s.semv += 1; s.sem_wake()
    # group
    def add_task(s, tid):
        if s.joined: return 'RuntimeError'
        T = s.tasks[tid]
        if T['done'] is not None: s.on_done(tid)      # (non-daemon branch adds to tasks first; daemons: discard)
        elif T['daemon']: s.daemons.append(tid)
        else: s.pending.append(tid); T['cbs'].append(('ondone', tid))
        return None
    def on_done(s, tid):
        if s.tasks[tid]['daemon']:
            if tid in s.daemons: s.daemons.remove(tid)
        else:
            if tid in s.pending: s.pending.remove(tid)
            s.done.append(tid); s.sem_release()
    # member coroutine
    def member_step(s, tid, how):   # how: 'start' | ('result', instr) | 'cancelled'
        T = s.tasks[tid]; sc = T['script']
        if T['pc'] == 'start':
            if how == 'cancelled': return s.finish(tid, ('canc',))       # cancelled before first step: coro.throw at start
            if s.fut_done(T['go']):      # awaiting an already completed future does not suspend
                instr = T['instr']
                return s.finish(tid, ('ret', instr[1]) if instr[0] == 'ret' else ('exc',))
            return s.suspend(tid, T['go'], 'wait_go')
        if T['pc'] == 'wait_go':
            if how == 'cancelled':
                r = sc['react']
                if r == 'reraise': return s.finish(tid, ('canc',))
                if r == 'slow':
                    if s.fut_done(T['go2']): return s.finish(tid, ('canc',))
                    return s.suspend(tid, T['go2'], 'wait_go2')
                if r == 'spawn':
                    s.spawn_counter += 1; new = 1000 + s.spawn_counter
                    f1 = s.newfut(); f2 = s.newfut()
                    s.newtask(new, 'member', daemon=False, script={'react': 'reraise'}, go=f1, go2=f2)
                    err = s.add_task(new)
                    if err: return s.finish(tid, ('exc',))       # RuntimeError propagates out of the handler
                    return s.finish(tid, ('canc',))
                if r == 'swallow': return s.finish(tid, ('ret', 5))
            instr = T['instr']
            return s.finish(tid, ('ret', instr[1]) if instr[0] == 'ret' else ('exc',))
        if T['pc'] == 'wait_go2':
            return s.finish(tid, ('canc',))     # either go2 fired (re-raise) or cancelled again
    # joiner coroutine
    def is_bad(s, t): return s.tasks[t]['done'][0] in ('exc', 'canc')
    def j_loop(s):
        if s.done or s.pending:
            if not s.sem_locked(): s.semv -= 1
            else:
                f = s.newfut(); s.semw.append(f); return s.suspend(s.J, f, ('wait_sem', f))
        return s.j_after_acquire()
    def j_after_acquire(s):
        if not s.done: return s.j_finally(None)
        t = s.done.pop(0)
        if s.completed is None:
            d = s.tasks[t]['done']
            if not (s.wait == 'object' and d[0] == 'ret' and d[1] is None): s.completed = t
        if s.is_bad(t) or s.wait == 'any' or (s.wait == 'object' and s.completed is not None): return s.j_finally(None)
        return s.j_loop()
    def cancel_tasks(s, tids, pc_after):
        for t in tids: s.cancel(t)
        if tids:
            s.nk += 1; k = s.nk; s.ev[k] = {'unf': list(tids), 'set': False, 'w': []}
            for t in tids: s.add_done_cb(t, ('pop', k, t))
            f = s.newfut(); s.ev[k]['w'].append(f)
            s.suspend(s.J, f, (pc_after, k, f)); return True
        return False
    def j_finally(s, exc):
        s.jexc = exc
        order = s.cancel_order([t for t in s.pending + s.daemons])
        if s.cancel_tasks(order, 'wait_all'): return
        return s.j_end()
    def j_end(s):
        s.joined = True
        s.finish(s.J, ('canc',) if s.jexc == 'cancelled' else ('ret', None))
    def joiner_step(s, how):
        T = s.tasks[s.J]; pc = T['pc']
        if pc == 'start':
            if how == 'cancelled': return s.finish(s.J, ('canc',))
            if T['mode'] == 'aexit_exc':
                order = s.cancel_order(list(s.pending))
                if s.cancel_tasks(order, 'wait_cr'): return
                return s.join_entry()
            return s.join_entry()
        if pc[0] == 'wait_cr':
            _, k, f = pc; s.ev[k]['w'].remove(f)
            if how == 'cancelled': return s.finish(s.J, ('canc',))
            return s.join_entry()
        if pc[0] == 'wait_sem':
            f = pc[1]; s.semw.remove(f)
            if how == 'cancelled':
                if s.futs[f]['st'] != 'cancelled': s.semv += 1; s.sem_wake()
                return s.j_finally('cancelled')
            if s.semv > 0: s.sem_wake()
            return s.j_after_acquire()
        if pc[0] == 'wait_all':
            _, k, f = pc; s.ev[k]['w'].remove(f)
            if how == 'cancelled': return s.finish(s.J, ('canc',))     # escapes the finally: joined stays False
            return s.j_end()
    def join_entry(s):
        if s.wait is None: return s.j_finally(None)
        return s.j_loop()
    # one loop handle
    def tick(s):
        if not s.ready: return None
        h = s.ready.pop(0)
        if h[0] in ('step', 'wakeup'):
            tid = h[1]; T = s.tasks[tid]
            if h[0] == 'wakeup': how = 'cancelled' if s.futs[h[2]]['st'] == 'cancelled' else ('result',)
            else: how = 'start'
            if T['must']: T['must'] = False; how = 'cancelled'
            T['waiter'] = None
            if T['kind'] == 'member': s.member_step(tid, how)
            else: s.joiner_step(how)
        elif h[0] == 'ondone': s.on_done(h[1])
        elif h[0] == 'pop':
            E = s.ev[h[1]]; E['unf'].remove(h[2])
            if not E['unf']:
                E['set'] = True
                for f in E['w']:
                    if not s.fut_done(f): s.fut_finish(f, 'result')
        return h
    def snapshot(s):
        return dict(pending=sorted(s.pending), daemons=sorted(s.daemons), done=list(s.done), joined=s.joined,
                    completed=s.completed, semv=s.semv,
                    tasks={t: (T['done'][0] if T['done'] else None) for t, T in s.tasks.items()},
                    ready=[(('pop', h[2]) if h[0] == 'pop' else (h[0] if h[0] != 'wakeup' else 'step', h[1])) for h in s.ready])

# ---------------------------------------------------------------- real side
class PT(asyncio.tasks._PyTask):
    cancel_log = None
    def cancel(self, msg=None):
        if PT.cancel_log is not None: PT.cancel_log.append(self)
        return super().cancel(msg)

class Real:
    def __init__(s, wait):
        s.loop = StepLoop(); asyncio.set_event_loop(s.loop)
        s.loop.set_task_factory(lambda loop, coro: PT(coro, loop=loop))
        s.g = TaskGroup(wait={'all': all, 'any': any, 'object': object, None: None}[wait])
        s.ids = {}; s.go = {}; s.go2 = {}; s.J = None; s.spawn_counter = 0
    def tid(s, task): return s.ids.get(task)
    async def member(s, tid, script):
        try:
            instr = await s.go[tid]
        except CancelledError:
            r = script['react']
            if r == 'reraise': raise
            if r == 'slow':
                await s.go2[tid]; raise
            if r == 'spawn':
                s.spawn_counter += 1; new = 1000 + s.spawn_counter
                s.mk_member(new, {'react': 'reraise'}, False, via_group=True)
                raise
            if r == 'swallow': return 5
        if instr[0] == 'ret': return instr[1]
        raise KeyError
    def mk_member(s, tid, script, daemon, via_group=True):
        s.go[tid] = s.loop.create_future(); s.go2[tid] = s.loop.create_future()
        coro = s.g.spawn(s.member(tid, script), daemon=daemon)
        # g.spawn never suspends: drive it synchronously; but the task must be registered before _add_task raises
        orig = s.loop.create_task
        def ct(c, **kw):
            t = orig(c, **kw); s.ids[t] = tid; return t
        s.loop.create_task = ct
        try:
            asyncio.events._set_running_loop(s.loop)
            try: coro.send(None)
            except StopIteration: pass
            finally: asyncio.events._set_running_loop(None)
        finally: s.loop.create_task = orig
    def start_join(s, mode):
        async def j():
            if mode == 'join': await s.g.join()
            elif mode == 'aexit':
                async with s.g: pass
            else:
                try:
                    async with s.g: raise KeyError
                except KeyError: pass
        s.J = s.loop.create_task(j()); s.ids[s.J] = 0
    def classify(s, h):
        cb = h._callback; name = getattr(cb, '__qualname__', repr(cb))
        if getattr(cb, '__self__', None) in s.ids and ('__step' in name or '__wakeup' in name): return ('step', s.ids[cb.__self__])
        if name == 'TaskGroup._on_done': return ('ondone', s.ids[h._args[0]])
        if 'pop_task' in name: return ('pop', s.ids[h._args[0]])
        return ('other', name)
    def snapshot(s):
        g = s.g
        return dict(pending=sorted(s.ids[t] for t in g._pending), daemons=sorted(s.ids[t] for t in g.daemons if not t.done() or True),
                    done=[s.ids[t] for t in g._done], joined=g.joined, completed=s.ids.get(g.completed), semv=g._semaphore._value,
                    tasks={tid: (None if not t.done() else 'canc' if t.cancelled() else 'exc' if t.exception() else 'ret') for t, tid in s.ids.items()},
                    ready=[s.classify(h) for h in s.loop._ready if not h._cancelled])

def norm_ready(r): return [x[:2] for x in r]

def run_case(rng, verbose=False):
    wait = rng.choice(['all', 'any', 'object', None])
    n = rng.randint(1, 4); nd = rng.randint(0, 2)
    R = Real(wait); Mo = M(wait)
    trace = []
    def both_member(tid, script, daemon):
        R.mk_member(tid, script, daemon)
        f1 = Mo.newfut(); f2 = Mo.newfut()
        Mo.newtask(tid, 'member', daemon=daemon, script=script, go=f1, go2=f2); Mo.add_task(tid)
    for i in range(1, n + nd + 1):
        both_member(i, {'react': rng.choice(['reraise', 'reraise', 'slow', 'spawn', 'swallow'])}, i > n)
    mode = rng.choice(['join', 'join', 'aexit', 'aexit_exc'])
    started = False; steps = 0; cancels_left = rng.choice([0, 0, 1, 2])
    order_holder = []; viol_at_end = [None]
    Mo.cancel_order = lambda tids: [t for t in order_holder if t in tids] + [t for t in tids if t not in order_holder]
    def compare(label):
        a, b = Mo.snapshot(), R.snapshot()
        b['daemons'] = sorted(b['daemons'])
        a['ready'] = norm_ready(a['ready']); b['ready'] = norm_ready(b['ready'])
        # model keeps finished daemons out? real never prunes daemons: compare as sets of all daemons ever added & not discarded
        if a != b:
            return f'{label}: model {a}\n      real  {b}'
    while steps < 400:
        steps += 1
        acts = []
        if not started: acts += [('start',)] * 3
        live = [t for t, T in Mo.tasks.items() if T['kind'] == 'member' and T['done'] is None]
        for t in live:
            T = Mo.tasks[t]
            if T['pc'] in ('start', 'wait_go') and not Mo.fut_done(T['go']): acts.append(('finish', t, rng.choice([('ret', None), ('ret', 1), ('exc',)])))
            if T['pc'] == 'wait_go2' and not Mo.fut_done(T['go2']): acts.append(('finish2', t))
        if Mo.ready: acts += [('tick',)] * 4
        if started and cancels_left and Mo.tasks[0]['done'] is None: acts.append(('cancelJ',))
        if live and rng.random() < 0.1: acts.append(('cancelM', rng.choice(live)))
        if not acts: break
        a = rng.choice(acts); trace.append(a)
        if a[0] == 'start':
            started = True; R.start_join(mode); Mo.J = 0; Mo.newtask(0, 'joiner', daemon=False, mode=mode)
        elif a[0] == 'finish':
            R.go[a[1]].set_result(a[2]); Mo.tasks[a[1]]['instr'] = a[2]; Mo.fut_finish(Mo.tasks[a[1]]['go'], 'result')
        elif a[0] == 'finish2':
            R.go2[a[1]].set_result(None); Mo.fut_finish(Mo.tasks[a[1]]['go2'], 'result')
        elif a[0] == 'cancelJ':
            cancels_left -= 1; R.J.cancel(); Mo.cancel(0)
        elif a[0] == 'cancelM':
            t = [k for k, v in R.ids.items() if v == a[1]][0]; t.cancel(); Mo.cancel(a[1])
        elif a[0] == 'tick':
            PT.cancel_log = []
            h = R.loop.tick()
            order_holder[:] = [R.ids[t] for t in PT.cancel_log if t in R.ids]; PT.cancel_log = None
            # members spawned during this tick get ids already via mk_member
            mh = Mo.tick()
            rc = R.classify(h)
            if mh is None or (('pop', mh[2]) if mh[0]=='pop' else (mh[0] if mh[0] != 'wakeup' else 'step', mh[1])) != rc[:2]:
                return trace, f'tick handle differs: model {mh} real {rc}'
        d = compare(a)
        if d: return trace, d
        if started and R.J.done() and viol_at_end[0] is None:
            undone = [tid for t, tid in R.ids.items() if tid != 0 and not t.done()]
            viol_at_end[0] = ('C09', mode, wait, undone, len(trace)) if undone else False
    # C09 oracle on the real implementation
    return trace, None, (viol_at_end[0] or None)

if __name__ == '__main__':
    seed = int(sys.argv[1]) if len(sys.argv) > 1 else 1; n = int(sys.argv[2]) if len(sys.argv) > 2 else 300
    rng = random.Random(seed); bad = 0; viols = []; labels = 0
    for i in range(n):
        r = run_case(rng)
        labels += len(r[0])
        if r[1]:
            bad += 1
            if bad <= 3: print('MISMATCH case', i, r[1], '\n trace', r[0])
        elif r[2]: viols.append(r[2])
    print('cases', n, 'labels', labels, 'mismatches', bad, 'C09 violations on real', len(viols), viols[:3])
