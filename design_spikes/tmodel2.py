import sys, random
from fractions import Fraction as F
from tmodel import *
rng = random.Random(7); n=4000; bad=0; c12=0; c12ex=None; delivered=0
for i in range(n):
    p = gen(rng, 4, [0]); ext = F(rng.choice([1,5,9,13,21,29]),4) if rng.random()<0.6 else None
    m = model(p, ext); r = real(p, ext)
    mlog = [x for x in m[2] if x[0] not in ('interrupt','extcancel')]
    if (m[0],m[1],mlog,0 if m[3] is None else 1) != (r[0],r[1],r[2],r[3]): bad+=1
    if any(x[0]=='extcancel' for x in m[2]):
        delivered+=1
        # C12 oracle on real: delivered external cancel during the main program => top-level CancelledError
        in_main = r[1]=='n/a' or True
        if r[0] not in ('CancelledError',) and not (r[0]=='ok' and r[1]=='tail-CancelledError'):
            c12+=1
            if c12ex is None or len(str(p))<len(str(c12ex[0])): c12ex=(p,ext,r[0])
print('cases',n,'mismatches',bad,'ext delivered',delivered,'C12 violations on real',c12,'smallest',c12ex)
