import sys, asyncio, json, collections
sys.path.insert(0,'/repo'); sys.path.insert(0,'.'); sys.path.insert(0, __import__('os').path.join(__import__('os').path.dirname(__import__('os').path.abspath(__file__)), 'probes'))
from steploop import StepLoop
from vloop import FakeTransport
import aiorpcx
from aiorpcx import *
from aiorpcx.rawsocket import RSTransport
from aiorpcx.unixsocket import USTransport
from aiorpcx.session import SessionKind
import aiorpcx.session as S

def scenario(fault, k, tcls=RSTransport, graceful=True, verbose=False):
    loop = StepLoop(); asyncio.set_event_loop(loop)
    class T:
        @staticmethod
        def time(): return loop.time()
    S.time = T
    hooks = []
    handlers = {}
    class Srv(RPCSession):
        async def connection_lost(self):
            hooks.append(loop.time()); await super().connection_lost()
        async def handle_request(self, request):
            me = asyncio.current_task(); handlers[me] = request.method
            if request.method == 'slow': await asyncio.sleep(5); return 'slept'
            if request.method == 'stubborn':
                try: await asyncio.sleep(5)
                except asyncio.CancelledError:
                    await asyncio.sleep(1); raise
            if request.method == 'closeme': await self.close(); return 'closed'
            return 'ok'
    class FT(FakeTransport):
        def close(self):
            if graceful: return super().close()
            self.closing = True; self.log.append(('close-ignored',))
    p = tcls(Srv, None, SessionKind.SERVER)
    t = FT(p, None)
    asyncio.events._set_running_loop(loop)
    try: p.connection_made(t)
    finally: asyncio.events._set_running_loop(None)
    s = p.session
    outcomes = {}
    async def caller(name, coro):
        try: r = await coro; outcomes[name] = ('ok', r, loop.time())
        except BaseException as e: outcomes[name] = (type(e).__name__, loop.time()); 
    async def batch():
        async with s.send_batch() as b:
            b.add_request('x'); b.add_request('y')
        return b.results
    def feed(data):
        asyncio.events._set_running_loop(loop)
        try: p.data_received(data)
        finally: asyncio.events._set_running_loop(None)
    tasks = []
    script = [
        lambda: feed(b'{"jsonrpc":"2.0","method":"slow","id":1}\n{"jsonrpc":"2.0","method":"stubborn","id":2}\n'),
        lambda: tasks.append(loop.create_task(caller('r1', s.send_request('a')))),
        lambda: tasks.append(loop.create_task(caller('b1', batch()))),
        lambda: feed(b'{"jsonrpc":"2.0","method":"fast","id":3}\n'),
        lambda: p.pause_writing(),
        lambda: tasks.append(loop.create_task(caller('r2', s.send_request('b')))),
        lambda: feed(b'{"jsonrpc":"2.0","method":"fast","id":4}\n'),
    ]
    closers = []
    def do_fault():
        nonlocal fault
        if fault == 'drop': loop.call_soon(t._lost)  if False else t._lost()
        elif fault == 'close': closers.append(loop.create_task(caller('close', s.close(force_after=30))))
        elif fault == 'close2':
            closers.append(loop.create_task(caller('closeA', s.close(force_after=30)))); closers.append(loop.create_task(caller('closeB', s.close(force_after=30))))
        elif fault == 'abort': closers.append(loop.create_task(caller('abort', s.abort())))
        elif fault == 'handler_close': feed(b'{"jsonrpc":"2.0","method":"closeme","id":9}\n')
    n = 0; si = 0; faulted = False
    while True:
        if n == k and not faulted:
            asyncio.events._set_running_loop(loop)
            try: do_fault()
            finally: asyncio.events._set_running_loop(None)
            faulted = True
        if si < len(script) and n % 3 == 0:
            script[si](); si += 1
        h = loop.tick(); n += 1
        if h is None and si >= len(script): break
        if loop.time() > 300 or n > 5000: break
    if not faulted: return None
    left = [x for x in asyncio.all_tasks(loop) if not x.done()]
    res = dict(fault=fault, k=k, hooks=len(hooks), outcomes=dict(outcomes), left=len(left), lost=t.lost,
               closers_done=all(c.done() for c in closers), pm_done=p._process_messages_task.done(),
               handlers={m: (tk.done(), tk.cancelled() if tk.done() else None) for tk, m in handlers.items()},
               time=loop.time(), ticks=n, pending_callers=[nm for nm in ('r1','b1','r2') if nm not in outcomes and any(True for _ in [0])],
               exc=[str(e.get('exception'))[:80] for e in loop.exc])
    return res

if __name__ == '__main__':
    import itertools
    bad = collections.Counter(); examples = {}
    total = 0
    for tcls in (RSTransport, USTransport):
      for graceful in (True, False):
        for fault in ('drop', 'close', 'close2', 'abort', 'handler_close'):
            for k in range(0, 60):
                r = scenario(fault, k, tcls, graceful)
                if r is None: break
                total += 1
                issues = []
                if r['hooks'] != 1: issues.append(f"hooks={r['hooks']}")
                if r['left']: issues.append(f"left={r['left']}")
                if not r['closers_done']: issues.append('closer-hung')
                if not r['pm_done']: issues.append('pm-running')
                if r['exc']: issues.append('loop-exc:' + r['exc'][0])
                late = [nm for nm, o in r['outcomes'].items() if nm in ('r1','b1','r2') and o[0] not in ('CancelledError',)]
                if late: issues.append('caller-not-cancelled:' + ','.join(f"{nm}={r['outcomes'][nm][0]}@{r['outcomes'][nm][-1]}" for nm in late))
                for i in issues:
                    key = (tcls.__name__, graceful, fault, i.split(':')[0])
                    bad[key] += 1; examples.setdefault(key, (k, i, r['time']))
    print('scenarios', total)
    for key, c in sorted(bad.items(), key=str): print(key, c, examples[key])
