import json, random, sys
def esc(s):
    out = ['"']
    for ch in s:
        c = ord(ch)
        if ch == '"': out.append('\\"')
        elif ch == '\\': out.append('\\\\')
        elif ch == '\n': out.append('\\n')
        elif ch == '\r': out.append('\\r')
        elif ch == '\t': out.append('\\t')
        elif ch == '\b': out.append('\\b')
        elif ch == '\f': out.append('\\f')
        elif 0x20 <= c <= 0x7e: out.append(ch)
        elif c < 0x10000: out.append('\\u%04x' % c)
        else:
            c -= 0x10000; out.append('\\u%04x\\u%04x' % (0xd800 | (c >> 10), 0xdc00 | (c & 0x3ff)))
    out.append('"'); return ''.join(out)
def pr(v):
    if v is None: return 'null'
    if v is True: return 'true'
    if v is False: return 'false'
    if isinstance(v, int): return str(v)
    if isinstance(v, float): return repr(v)
    if isinstance(v, str): return esc(v)
    if isinstance(v, (list, tuple)): return '[' + ','.join(pr(x) for x in v) + ']'
    if isinstance(v, dict): return '{' + ','.join(esc(k) + ':' + pr(x) for k, x in v.items()) + '}'
rng = random.Random(3)
def rs():
    return ''.join(chr(rng.choice([rng.randrange(0,0x30), rng.randrange(0x20,0x7f), 0x7f, rng.randrange(0x80,0x800), rng.randrange(0xd7f0,0xe010), rng.randrange(0x10000,0x110000), 0x2028, 0x22, 0x5c])) for _ in range(rng.randrange(0,8)))
def rv(d):
    r = rng.random()
    if d == 0 or r < 0.5:
        return rng.choice([None, True, False, rng.randrange(-10**30, 10**30), rng.randrange(-5,5), rng.uniform(-1e10,1e10), 1e300, 5e-324, -0.0, 1.0, rs()])
    if r < 0.75: return [rv(d-1) for _ in range(rng.randrange(0,4))]
    return {rs(): rv(d-1) for _ in range(rng.randrange(0,4))}
bad = 0
for i in range(20000):
    v = rv(3)
    a = json.dumps(v, separators=(',', ':')); b = pr(v)
    if a != b:
        bad += 1
        if bad < 4: print(repr(a), repr(b))
    assert a.encode() and '\n' not in a and all(0x20 <= ord(c) <= 0x7e for c in a)
    back = json.loads(a)
print('mismatch', bad)
