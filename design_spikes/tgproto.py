# smoke test: real TaskGroup on StepLoop
import sys, asyncio
sys.path.insert(0,'/repo'); sys.path.insert(0,'.')
from steploop import StepLoop
from aiorpcx.curio import TaskGroup, sleep
loop = StepLoop(); asyncio.set_event_loop(loop)
log=[]
loop.trace = lambda h: log.append(repr(h)[:120])
async def m(n):
    await sleep(n); return n
async def main():
    g = TaskGroup(wait=any)
    await g.spawn(m, 1); await g.spawn(m, 2)
    await g.join()
    return g.completed.result(), g.joined
t = loop.create_task(main())
n = loop.drain()
print(n, t.result(), loop.time())
for l in log: print(l)
