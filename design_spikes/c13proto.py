import sys, asyncio, random
sys.path.insert(0,'/repo'); sys.path.insert(0,'.')
from steploop import StepLoop
from aiorpcx.session import Concurrency, ExcessiveSessionCostError
# model: labels Enter w | Tick | Exit w | CancelW w | SetTarget n ; workers: 'new' -> 'waiting'(fut) | 'holding' | 'refused' | 'cancelled' | 'exited'
class M:
    def __init__(s, target):
        s.target = target; s.semv_ = target; s.value = target; s.waiters = []  # list of [w, state] state in pending|woken|cancelled
        s.st = {}; s.ready = []; s.maxt = target; s.lost = 0
    def locked(s): return s.value == 0 or any(x[1] != 'cancelled' for x in s.waiters)
    def wake(s):
        for x in s.waiters:
            if x[1] == 'pending': s.value -= 1; x[1] = 'woken'; s.ready.append(('wake', x[0])); return
    def release(s): s.value += 1; s.wake()
    def retarget(s, w):
        if s.target <= 0: s.st[w] = 'refused'; s.lost += 1; return
        while s.semv_ < s.target: s.semv_ += 1; s.release()
        s.st[w] = 'holding'
    def step_start(s, w):            # first step of the worker task: async with c
        if not s.locked(): s.value -= 1; s.retarget(w)
        else: s.waiters.append([w, 'pending']); s.st[w] = 'waiting'
    def tick(s):
        h = s.ready.pop(0)
        if h[0] == 'start': s.step_start(h[1])
        elif h[0] == 'wake':
            w = h[1]; x = [x for x in s.waiters if x[0] == w][0]; s.waiters.remove(x)
            if x[1] == 'cancelled': s.st[w] = 'cancelled'
            elif s.st[w] == 'cancel_pending':       # cancel arrived after hand-over: must_cancel
                s.value += 1; s.wake(); s.st[w] = 'cancelled'
            else:
                if s.value > 0: s.wake()
                s.retarget(w)
        elif h[0] == 'exit':
            w = h[1]
            if s.semv_ > s.target: s.semv_ -= 1
            else: s.release()
            s.st[w] = 'exited'
        return h
    def cancel(s, w):
        x = [x for x in s.waiters if x[0] == w][0]
        if x[1] == 'pending': x[1] = 'cancelled'; s.ready.append(('wake', w))
        elif x[1] == 'woken': s.st[w] = 'cancel_pending'
    def holders(s): return sorted(w for w, v in s.st.items() if v == 'holding')
    def inv(s):
        handed = sum(1 for x in s.waiters if x[1] == 'woken')
        return len([w for w, v in s.st.items() if v in ('holding', 'exiting')]) + s.value + handed + s.lost == s.semv_
def run(rng):
    loop = StepLoop(); asyncio.set_event_loop(loop)
    t0 = rng.randrange(1, 4); c = Concurrency(t0); m = M(t0)
    state = {}; gates = {}; tasks = {}
    async def worker(w):
        try:
            async with c:
                state[w] = 'holding'
                await gates[w]
            state[w] = 'exited'
        except ExcessiveSessionCostError: state[w] = 'refused'
        except asyncio.CancelledError: state[w] = 'cancelled'; raise
    nw = 0; labels = 0
    for step in range(rng.randrange(5, 120)):
        acts = ['enter'] * 3 + ['settarget']
        if m.ready: acts += ['tick'] * 6
        hold = [w for w in m.holders() if not gates[w].done()]
        if hold: acts += ['exit'] * 3
        wt = [x[0] for x in m.waiters if x[1] in ('pending', 'woken') and m.st[x[0]] == 'waiting']
        if wt: acts += ['cancel']
        a = rng.choice(acts); labels += 1
        if a == 'enter':
            nw += 1; gates[nw] = loop.create_future(); tasks[nw] = loop.create_task(worker(nw)); m.st[nw] = 'new'; m.ready.append(('start', nw))
        elif a == 'tick': loop.tick(); m.tick()
        elif a == 'exit':
            w = rng.choice(hold); gates[w].set_result(None); m.ready.append(('exit', w)); m.st[w] = 'exiting'
        elif a == 'cancel':
            w = rng.choice(wt); tasks[w].cancel(); m.cancel(w)
        elif a == 'settarget':
            n = rng.choice([1, 1, 2, 3, 5, 0]) if rng.random() < 0.3 else rng.randrange(1, 6)
            c.set_target(n); m.target = n; m.maxt = max(m.maxt, n)
        real = (c._sem_value, c._semaphore._value, sorted(w for w, v in state.items() if v == 'holding' and not gates[w].done() or (v == 'holding' and m.st.get(w) == 'exiting' and False)))
        mod = (m.semv_, m.value, [w for w in m.holders()])
        realh = sorted(w for w, v in state.items() if v == 'holding' and m.st.get(w) != 'exiting')
        if (c._sem_value, c._semaphore._value, realh) != mod: return ('MISMATCH', a, (c._sem_value, c._semaphore._value, realh), mod), labels
        if m.target >= 1 and m.lost == 0:
            if not m.inv(): return ('INV conservation fails', a, mod), labels
            if len([w for w, v in m.st.items() if v in ('holding','exiting')]) > m.maxt: return ('INV bound fails',), labels
    return None, labels
if __name__ == '__main__':
    rng = random.Random(5); bad = 0; L = 0
    for i in range(1500):
        r, l = run(rng); L += l
        if r:
            bad += 1
            if bad < 4: print(i, r)
    print('runs 1500 labels', L, 'problems', bad)
