import sys, inspect, itertools
sys.path.insert(0,'/repo')
from aiorpcx.util import signature_info
from aiorpcx.jsonrpc import handler_invocation, Request, RPCError
PO, PK, VP, KO, VK = 'po', 'pk', 'vp', 'ko', 'vk'
def wf(sig):
    kinds = [k for k, d in sig]
    order = {PO:0, PK:1, VP:2, KO:3, VK:4}
    if [order[k] for k in kinds] != sorted(order[k] for k in kinds): return False
    if kinds.count(VP) > 1 or kinds.count(VK) > 1: return False
    # defaults: among positional params (po, pk) non-default cannot follow default
    seen = False
    for k, d in sig:
        if k in (PO, PK):
            if d: seen = True
            elif seen: return False
    for k, d in sig:
        if k in (VP, VK) and d: return False
    return True
def mk(sig):
    parts = []; names = []
    for i, (k, d) in enumerate(sig):
        n = f'p{i}'; names.append(n)
    src = []
    kinds = [k for k, d in sig]
    for i, (k, d) in enumerate(sig):
        n = names[i]; s = n + ('=0' if d else '')
        if k == VP: s = '*' + n
        if k == VK: s = '**' + n
        if k == KO and VP not in kinds and (i == 0 or sig[i-1][0] not in (KO,)): src.append('*')
        src.append(s)
        if k == PO and (i+1 == len(sig) or sig[i+1][0] != PO): src.append('/')
    code = f"def f({', '.join(src)}): return 1"
    ns = {}; exec(code, ns); return ns['f'], names, code
# spec: py_bind
def py_bind_pos(sig, n):
    npos = sum(1 for k, d in sig if k in (PO, PK)); req = sum(1 for k, d in sig if k in (PO, PK) and not d)
    hasvp = any(k == VP for k, d in sig)
    if n < req: return False
    if n > npos and not hasvp: return False
    return not any(k == KO and not d for k, d in sig)
def py_bind_names(sig, names, given):
    hasvk = any(k == VK for k, d in sig)
    for (k, d), n in zip(sig, names):
        if k == PO and not d: return False            # required positional-only cannot be given by name
        if k in (PK, KO) and not d and n not in given: return False
    for g in given:
        ok = any(n == g and k in (PK, KO) for (k, d), n in zip(sig, names))
        if not ok and not hasvk: return False
    return True
def model_accept_pos(sig, n):       # transcription of signature_info + handler_invocation (positional)
    min_args = sum(1 for k, d in sig if k in (PO, PK) and not d)
    max_args = None if any(k == VP for k, d in sig) else sum(1 for k, d in sig if k in (PO, PK))
    return not (n < min_args or (max_args is not None and n > max_args))
def model_accept_names(sig, names, given):
    if any(k == PO for k, d in sig): return False
    required = [n for (k, d), n in zip(sig, names) if k == PK and not d]
    if any(k == VK for k, d in sig): other = any
    else: other = [n for (k, d), n in zip(sig, names) if (k == PK and d) or k == KO]
    if set(required) - set(given): return False
    if other is not any and (set(given) - set(required) - set(other)): return False
    return True
tot = 0; spec_bad = 0; model_bad = 0; sound_viol = 0; exact_viol = 0; ex = None
for L in range(0, 5):
    for sig in itertools.product([(k, d) for k in (PO, PK, VP, KO, VK) for d in (False, True)], repeat=L):
        if not wf(sig): continue
        f, names, code = mk(sig); S = inspect.signature(f)
        for n in range(0, L + 3):
            tot += 1
            try: f(*([1] * n)); real = True
            except TypeError: real = False
            if real != py_bind_pos(sig, n): spec_bad += 1; print('SPEC pos', code, n, real)
            try: handler_invocation(f, Request('m', [1] * n)); acc = True
            except RPCError: acc = False
            if acc != model_accept_pos(sig, n): model_bad += 1
            if acc and not real:
                sound_viol += 1; ex = ex or (code, n)
            if real and not acc: exact_viol += 1
        cand = names + ['zz']
        for r in range(0, len(cand) + 1):
            for given in itertools.combinations(cand, r):
                tot += 1
                try: f(**{g: 1 for g in given}); real = True
                except TypeError: real = False
                if real != py_bind_names(sig, names, given): spec_bad += 1; print('SPEC names', code, given, real)
                try: handler_invocation(f, Request('m', {g: 1 for g in given})); acc = True
                except RPCError: acc = False
                if acc != model_accept_names(sig, names, given): model_bad += 1; print('MODEL names', code, given, acc)
                if acc and not real: sound_viol += 1
                if real and not acc and not any(k == PO for k, d in sig): exact_viol += 1; print('EXACT', code, given)
print('calls', tot, 'spec mismatches vs inspect', spec_bad, 'model mismatches vs impl', model_bad, 'soundness violations', sound_viol, 'e.g.', ex, 'exactness violations', exact_viol)
