From Coq Require Import List ZArith Bool Lia.
Import ListNotations.
Local Open Scope Z_scope.

(* exceptions that matter *)
Inductive exn := ECancelled | ETaskTimeout | ETimeoutCancellation | EUncaught | EUser.
Definition exn_eqb (a b : exn) : bool :=
  match a, b with ECancelled, ECancelled | ETaskTimeout, ETaskTimeout | ETimeoutCancellation, ETimeoutCancellation
  | EUncaught, EUncaught | EUser, EUser => true | _, _ => false end.
Inductive res := Ok | Exc (e : exn).

Inductive kind := KTimeout | KIgnore.
Inductive prog :=
| Await (d : Z)                          (* d > 0 *)
| Seq (p q : prog)
| Block (k : kind) (abs : bool) (t : Z) (body : prog)
| Try (body : prog) (catch : list exn) (handler : prog)
| Raise (e : exn)
| Skip.

Record st := { now : Z; deadlines : list Z; timed_out : option Z; armed : option Z; ext : option Z }.

Definition minl (l : list Z) : option Z :=
  match l with [] => None | x :: r => Some (fold_left Z.min r x) end.

Definition set_now s t := {| now := t; deadlines := deadlines s; timed_out := timed_out s; armed := armed s; ext := ext s |}.

(* curio.py:333-343 _set_task_deadline *)
Definition set_deadline (s : st) (d : Z) : st :=
  let a := match minl (deadlines s) with
           | Some m => if d <? m then Some d else armed s
           | None => Some d end in
  {| now := now s; deadlines := deadlines s ++ [d]; timed_out := None; armed := a; ext := ext s |}.

(* curio.py:346-354 _unset_task_deadline : returns (timed_out, uncaught, state) *)
Definition opt_in (o : option Z) (l : list Z) : bool :=
  match o with None => false | Some x => existsb (Z.eqb x) l end.
Definition unset_deadline (s : st) : option Z * bool * st :=
  let tod := timed_out s in
  let uncaught := negb (opt_in tod (deadlines s)) in
  let ds := removelast (deadlines s) in
  (tod, uncaught, {| now := now s; deadlines := ds; timed_out := timed_out s; armed := minl ds; ext := ext s |}).

(* curio.py:380-396 TimeoutAfter.__aexit__ *)
Definition is_cancelish (e : exn) : bool :=
  match e with ECancelled | ETaskTimeout | ETimeoutCancellation => true | _ => false end.
Definition aexit (k : kind) (deadline : Z) (r : res) (s : st) : res * st :=
  let '(tod, uncaught, s') := unset_deadline s in
  match r with
  | Ok => (Ok, s')
  | Exc e =>
      if negb (is_cancelish e) then (r, s') else
      match tod with
      | Some d =>
          if d =? deadline then (match k with KIgnore => Ok | KTimeout => Exc ETaskTimeout end, s')
          else if uncaught then (Exc EUncaught, s')
          else if exn_eqb e ETimeoutCancellation then (r, s')
          else (Exc ETimeoutCancellation, s')
      | None => (r, s')
      end
  end.

(* one suspension of the task *)
Definition await (d : Z) (s : st) : res * st :=
  let t_done := now s + d in
  let t_timer := match armed s with Some a => Some (Z.max a (now s)) | None => None end in
  let t_ext := match ext s with Some e => if now s <=? e then Some e else None | None => None end in
  let timer_first := match t_timer with
                     | Some a => (a <=? t_done) && match t_ext with Some e => a <=? e | None => true end
                     | None => false end in
  let ext_first := match t_ext with Some e => e <=? t_done | None => false end in
  if timer_first then
    match t_timer with Some a =>
      (Exc ECancelled, {| now := a; deadlines := deadlines s; timed_out := armed s; armed := None; ext := ext s |})
    | None => (Ok, s) end
  else if ext_first then
    match t_ext with Some e =>
      (Exc ECancelled, {| now := e; deadlines := deadlines s; timed_out := timed_out s; armed := armed s; ext := None |})
    | None => (Ok, s) end
  else (Ok, set_now s t_done).

Fixpoint eval (p : prog) (s : st) : res * st :=
  match p with
  | Await d => await d s
  | Skip => (Ok, s)
  | Raise e => (Exc e, s)
  | Seq p q => match eval p s with (Ok, s') => eval q s' | r => r end
  | Try b c h => match eval b s with
                 | (Exc e, s') => if existsb (exn_eqb e) c then eval h s' else (Exc e, s')
                 | r => r end
  | Block k ab t body =>
      let deadline := if ab then t else now s + t in
      let s1 := set_deadline s deadline in
      let '(r, s2) := eval body s1 in
      aexit k deadline r s2
  end.

Definition init (e : option Z) : st := {| now := 0; deadlines := []; timed_out := None; armed := None; ext := e |}.

(* F10: outer timeout 40, inner timeout 1 caught, later external cancel at 10 (unit = 1/4 s) *)
Definition f10 := Block KTimeout false 40 (Seq (Try (Block KTimeout false 1 (Await 8)) [ETaskTimeout] Skip) (Await 20)).
Eval vm_compute in fst (eval f10 (init (Some 10))).

(* ---- invariants ---- *)
Definition Inv (s : st) : Prop := armed s = None \/ armed s = minl (deadlines s).

Lemma removelast_app1 {A} (l : list A) x : removelast (l ++ [x]) = l.
Proof. apply removelast_last. Qed.

Lemma minl_snoc l d : minl (l ++ [d]) = match minl l with Some m => Some (Z.min m d) | None => Some d end.
Proof.
  destruct l as [|x r]; cbn; auto. rewrite fold_left_app. cbn. reflexivity.
Qed.

Lemma await_stack d s : deadlines (snd (await d s)) = deadlines s.
Proof. unfold await. repeat (match goal with |- context [if ?b then _ else _] => destruct b | |- context [match ?x with _ => _ end] => destruct x end; cbn; auto). Qed.

Lemma await_inv d s : Inv s -> Inv (snd (await d s)).
Proof. unfold await, Inv. intros H. repeat (match goal with |- context [if ?b then _ else _] => destruct b | |- context [match ?x with _ => _ end] => destruct x end; cbn; auto). Qed.

Ltac crush := unfold aexit, unset_deadline; cbn;
  repeat (match goal with
   | |- context [if ?b then _ else _] => destruct b
   | |- context [match ?x with _ => _ end] => destruct x end; cbn); auto.
Lemma aexit_stack k dl r s : deadlines (snd (aexit k dl r s)) = removelast (deadlines s).
Proof. crush. Qed.

Theorem eval_stack : forall p s, deadlines (snd (eval p s)) = deadlines s.
Proof.
  induction p; intros s; cbn [eval].
  - apply await_stack.
  - specialize (IHp1 s). destruct (eval p1 s) as [[|e] s']; cbn in *; auto. rewrite IHp2; auto.
  - specialize (IHp (set_deadline s (if abs then t else now s + t))).
    destruct (eval p _) as [r s2]. cbn [snd] in IHp.
    rewrite aexit_stack, IHp. cbn. apply removelast_last.
  - specialize (IHp1 s). destruct (eval p1 s) as [[|e] s']; cbn in *; auto.
    destruct (existsb _ _); cbn; auto. rewrite IHp2; auto.
  - reflexivity.
  - reflexivity.
Qed.

Lemma aexit_armed k dl r s : armed (snd (aexit k dl r s)) = minl (removelast (deadlines s)).
Proof. crush. Qed.

Theorem eval_inv : forall p s, Inv s -> Inv (snd (eval p s)).
Proof.
  induction p; intros s H; cbn [eval].
  - apply await_inv; auto.
  - specialize (IHp1 s H). destruct (eval p1 s) as [[|e] s']; cbn in *; auto.
  - pose proof (eval_stack p (set_deadline s (if abs then t else now s + t))) as Hs.
    destruct (eval p _) as [r s2]. unfold Inv. right. rewrite aexit_armed, aexit_stack. cbn [snd] in Hs. rewrite Hs. reflexivity.
  - specialize (IHp1 s H). destruct (eval p1 s) as [[|e] s']; cbn in *; auto.
    destruct (existsb _ _); cbn; auto.
  - auto.
  - auto.
Qed.

(* C11 "nothing left armed": a complete program run from the initial state leaves no timer armed *)
Theorem nothing_left_armed : forall p e, armed (snd (eval p (init e))) = None.
Proof.
  intros p e. pose proof (eval_inv p (init e)) as H. pose proof (eval_stack p (init e)) as Hs.
  destruct H as [H|H]; [left; reflexivity | exact H |]. rewrite H, Hs. reflexivity.
Qed.
Print Assumptions nothing_left_armed.

(* C12 refuted on the faithful model: witness *)
Definition catches_cancel := false.
Theorem C12_refuted : exists p e, fst (eval p (init (Some e))) = Exc EUncaught.
Proof. exists f10, 10. vm_compute. reflexivity. Qed.
