#!/bin/bash
# run every registered check once on the current tree (tier = $1, default quick); prints one line per check
cd /verif
tier=${1:-quick}
for id in C01 C02 C03 C04 C05 C06 C07 C08 C09 C10 C11 C12 C13 C14 C15 C16 C17 C18 C19 C20; do
  t0=$(date +%s)
  out=$(timeout 14000 bin/check $id $tier 2>&1); rc=$?
  echo "$id rc=$rc $(( $(date +%s) - t0 ))s $(echo "$out" | grep -c '^VIOLATION') violations $(echo "$out" | grep -c '^KNOWN-FINDING') known"
done
