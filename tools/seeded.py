#!/usr/bin/env python3
"""Seeded-change bookkeeping (DESIGN.md section 10).
  tools/seeded.py verify <worktree> <prop> <n>   confirm a candidate produced by a sub-agent in its scratch worktree
                                                 (tests still pass, demo exits 1 with the patch and 0 without) and
                                                 copy it to /verif/seeded/<prop>-<n>/
  tools/seeded.py run <id> [tier]                apply /verif/seeded/<id>/patch.diff to /repo, run the property's check,
                                                 undo the patch, record the outcome in /verif/seeded/<id>/result.json
  tools/seeded.py runall [tier]
Nothing here is ever committed to /repo."""
import json, os, shutil, subprocess, sys, time

ROOT = '/verif'
PY = '/venv/bin/python'
TESTS = [PY, '-m', 'pytest', '-ra', '-q', '-p', 'no:cacheprovider', '--timeout=900', '--continue-on-collection-errors']


def sh(cmd, cwd=None, env=None, timeout=3000):
    p = subprocess.run(cmd, cwd=cwd, env=env, capture_output=True, text=True, timeout=timeout)
    return p.returncode, p.stdout + p.stderr


def tests_ok(tree):
    rc, out = sh(TESTS, cwd=tree, timeout=1200)
    last = out.strip().splitlines()[-1] if out.strip() else ''
    return '568 passed' in last, last


def demo(tree, path):
    env = dict(os.environ, PYTHONPATH=tree, PYTHONHASHSEED='0')
    rc, out = sh([PY, path], cwd=tree, env=env, timeout=900)
    return rc, out[-1500:]


def verify(wt, prop, n):
    src = os.path.join(wt, '_seed', str(n))
    patch = os.path.join(src, 'patch.diff')
    assert sh(['git', 'status', '--porcelain', '--', 'aiorpcx'], cwd=wt)[1].strip() == '', 'worktree not clean'
    rc, out = sh(['git', 'apply', '--check', patch], cwd=wt)
    assert rc == 0, 'patch does not apply: ' + out
    rc0, out0 = demo(wt, os.path.join(src, 'demo.py'))
    sh(['git', 'apply', patch], cwd=wt)
    try:
        ok, last = tests_ok(wt)
        rc1, out1 = demo(wt, os.path.join(src, 'demo.py'))
        rcc, outc = sh([PY, '-c', 'import aiorpcx'], cwd=wt, env=dict(os.environ, PYTHONPATH=wt))
    finally:
        sh(['git', 'checkout', '--', 'aiorpcx'], cwd=wt)
    res = {'tests_pass': ok, 'tests_last_line': last, 'demo_exit_clean': rc0, 'demo_exit_patched': rc1, 'imports': rcc == 0}
    good = ok and rc0 == 0 and rc1 == 1 and rcc == 0
    print(json.dumps(res), 'CONFIRMED' if good else 'REJECTED')
    if not good:
        print(out1[-600:])
        return 1
    dst = os.path.join(ROOT, 'seeded', f'{prop}-{n}')
    os.makedirs(dst, exist_ok=True)
    for f in ('patch.diff', 'demo.py'):
        shutil.copy(os.path.join(src, f), os.path.join(dst, f))
    meta = json.load(open(os.path.join(src, 'meta.json')))
    meta.update({'property': prop, 'confirmed': res, 'demo_output_patched_tail': out1[-800:]})
    json.dump(meta, open(os.path.join(dst, 'meta.json'), 'w'), indent=1)
    return 0


def run(sid, tier='quick', props=None):
    d = os.path.join(ROOT, 'seeded', sid)
    meta = json.load(open(os.path.join(d, 'meta.json')))
    props = props or [meta['property']]
    assert sh(['git', 'status', '--porcelain'], cwd='/repo')[1].strip() == '', '/repo not clean'
    rc, out = sh(['git', 'apply', os.path.join(d, 'patch.diff')], cwd='/repo')
    assert rc == 0, out
    results = {}
    try:
        for prop in props:
            t0 = time.time()
            rc, out = sh([os.path.join(ROOT, 'bin/check'), prop, tier], cwd=ROOT, timeout=6000)
            lines = [l for l in out.splitlines() if l.startswith(('VIOLATION', 'KNOWN-FINDING'))]
            viol = [l for l in lines if l.startswith('VIOLATION')]
            detail = []
            for l in viol[:3]:
                rp = l.split('replay=')[1].split()[0]
                try:
                    r = json.load(open(rp))
                    detail.append({'kind': r.get('kind'), 'clause': str(r.get('clause'))[:300]})
                except Exception as e:
                    detail.append({'unreadable': str(e)})
            results[prop] = {'exit': rc, 'violations': len(viol), 'no_failing_input': sum('no-failing-input-found' in l for l in viol),
                             'first': detail, 'wall_s': round(time.time() - t0, 1)}
    finally:
        sh(['git', 'checkout', '--', '.'], cwd='/repo')
        assert sh(['git', 'status', '--porcelain'], cwd='/repo')[1].strip() == ''
        # the evidence files and replays written against the patched tree are not evidence about /repo
        sh(['git', 'checkout', '--', 'evidence'], cwd=ROOT)
        # the generated facts must describe the restored tree again (developer builds use them)
        sh([PY, os.path.join(ROOT, 'tools/gen_facts.py')], cwd=ROOT, env=dict(os.environ, PYTHONPATH='/repo', PYTHONHASHSEED='0'))
        for prop in props:
            shutil.rmtree(os.path.join(ROOT, 'replays', prop), ignore_errors=True)
    caught = any(r['exit'] == 1 and r['violations'] for r in results.values())
    json.dump({'tier': tier, 'caught': caught, 'checks': results}, open(os.path.join(d, 'result.json'), 'w'), indent=1)
    print(sid, 'CAUGHT' if caught else 'MISSED', json.dumps(results)[:700])
    return caught


if __name__ == '__main__':
    cmd = sys.argv[1]
    if cmd == 'verify':
        sys.exit(verify(sys.argv[2], sys.argv[3], sys.argv[4]))
    if cmd == 'run':
        run(sys.argv[2], sys.argv[3] if len(sys.argv) > 3 else 'quick', sys.argv[4].split(',') if len(sys.argv) > 4 else None)
    if cmd == 'runall':
        for sid in sorted(os.listdir(os.path.join(ROOT, 'seeded'))):
            if os.path.exists(os.path.join(ROOT, 'seeded', sid, 'patch.diff')):
                run(sid, sys.argv[2] if len(sys.argv) > 2 else 'quick')
