#!/usr/bin/env python3
"""Writes /verif/MANIFEST.json from the table below (kept here so the manifest is always
schema-valid and the not_applicable list is always the complement of the claimed checks)."""
import json, os

ALL = ['C%02d' % i for i in range(1, 21)]

TB = ("Trusted: Coq 8.16.1 kernel + vm_compute (no native_compute, no extraction); the translator "
      "tools/gen_facts.py; the correspondence harness (generators, drivers of the real code, Coq literal "
      "printer, Python oracle); CPython 3.12.1 and its stdlib. The Coq model is a hand transcription tied "
      "to /repo by the correspondence run on every check; theorems are about the model. ")

CLAIMED = {
    'C06': dict(
        text=("Proof: for every limit and EVERY chunk list the framer model's results are explained by the "
              "concatenated stream (Expl): delivered = a masked selection of the newline-terminated segments "
              "(whole, in order, once), deselected only if over the limit and signalled by MemoryError; "
              "chunking independence when nothing is oversize; frame round trip; overshoot < final chunk. "
              "8 theorems, closed under the global context. Model tied to framing.py by correspondence "
              "(exhaustive chunkings of short streams + random long streams, reader interleavings)."),
        note=TB + "asyncio.Queue FIFO order is trusted (interleaving independence).",
        technique="Coq proof by invariant over chunk lists (snoc-inductive specification Expl) + vm_compute correspondence against the real NewlineFramer",
        ref='6/C06'),
    'C07': dict(
        text=("Proof: for every 4-byte checksum function, magic and limits: the chunked reader equals the parser of the "
              "concatenated stream (chunking independence); frame layout; round trip of every admissible (command, payload) "
              "and of whole message sequences under any chunking with anything following; a payload is delivered only if the "
              "stream holds magic, 12-byte command, LE length, its checksum and the payload; a checksum error consumes exactly "
              "header + declared payload (stays in sync); magic/size errors consume only the header; the limits "
              "characterisation incl. the block exception; session error policy. The round trip for commands ending in NUL is "
              "refuted in Coq (C07_roundtrip_refuted) and reported as known finding F17. Correspondence: real BitcoinFramer vs "
              "model instantiated with an executable SHA-256, byte-exact, bit flips in every field, boundary lengths."
              " BitcoinFramer's reading path (_receive_header, receive_message) and writing path (pad_command, _build_header, frame) are TRANSLATED from the Python source on every run and shown equal to the model's receive_message / pad_command / frame for every checksum function, parameter set and queue state."),
        note=TB + "hashlib.sha256 trusted as the checksum oracle; MessageSession policy is proved on the model, its tie to session.py is by the C07 session scenarios.",
        technique="Coq proof (refinement of the chunked reader to a stream parser, list induction) + vm_compute correspondence against the real BitcoinFramer",
        ref='6/C07'),
    'C16': dict(
        text=("Proof: independent server-side parsers of SOCKS4/4a requests, RFC 1928 greeting/CONNECT and RFC 1929 read back "
              "from the client's bytes exactly the intended version, command, port (network order), address type/address, "
              "user id, offered methods ([0], or [0,2] iff credentials); the list of messages sent as a function of the "
              "proxy's replies (credentials only if method 2 was selected); the constructors' rejections characterised "
              "(iff); a constructed SOCKS4/4a client has a NUL-free user id (after the fix of F16). Literals and tables are "
              "re-extracted from the running code on every check. Correspondence byte-exact against the real clients. "
              "The request builders SOCKS4._start (inherited by SOCKS4a), SOCKS5._destination_bytes and SOCKS5._authentication are "
              "TRANSLATED from the Python source on every run; an interpreter of byte expressions runs them and theorems show every run "
              "equal to the model's builders for all destinations, ports and credentials (C16_*_from_source; "
              "C16_socks4a_source_request_parses composes this with the server-side parser)."),
        note=TB + "Host names are assumed NUL-free (guaranteed by NetAddress validation, C18); lone surrogates in credentials are outside the domain (note N2).",
        technique="Coq proof (parser round trips over symbolic byte lists) + behavioural fact extraction + vm_compute correspondence",
        ref='6/C16'),
    'C17': dict(
        text=("Proof: the handshake driven through a socket that returns 1..count bytes per sock_recv equals the socket-free "
              "exact-read reference for EVERY segmentation (hence outcome, messages sent and bytes left are segmentation "
              "independent); it always terminates; its outcome equals an independent RFC reading of the reply stream "
              "(rfc4/rfc5): success iff well-formed grant, refusal -> SOCKSFailure, malformed/truncated -> SOCKSProtocolError, "
              "and on success exactly the reply bytes (8, or 2[+2]+4+addr+2 for every address length 0..255) were consumed. "
              "All byte values by case analysis, not enumeration. Correspondence: real _handshake over a fake socket, every "
              "value of every decision byte, EOF at every offset, all address lengths, three segmentations. "
              "The state methods SOCKS4._first_response, SOCKS5._first_response / _auth_response / _connect_response / _connect_response_rest are "
              "TRANSLATED from the Python source on every run; an interpreter runs one call on the bytes _read delivered and theorems show that each "
              "method reads exactly need(st) bytes and ends exactly as decide(c, st, d) - the functions the handshake theorems are stated over (C17_*_from_source)."),
        note=TB + "sock_recv is assumed to return between 1 and count bytes or b'' at EOF.",
        technique="Coq proof (refinement of the socket loop to exact reads, symbolic case analysis of the reply state machine) + vm_compute correspondence",
        ref='6/C17'),
    'C19': dict(
        text=("Proof: for every signature (list of parameters of the five kinds, with/without defaults) and every call by "
              "position count or by name set: exactness (every call Python's binding rule admits is accepted, except named "
              "calls to handlers with positional-only parameters), soundness for signatures without a required keyword-only "
              "parameter, the error codes (-32602 / -32601). Full soundness is refuted in Coq (C19_sound_refuted = known "
              "finding F13). The binding rule itself (py_bind) is validated against the ACTUAL Python call on every case. "
              "Correspondence exhaustive over all well-formed signatures up to 3 (quick) / 4 (thorough) parameters x all call "
              "shapes (named calls also with null / falsy values), for plain functions, bound methods and partials. jsonrpc.handler_invocation "
              "itself is TRANSLATED from the Python source on every run into a list of decisions; an interpreter runs it and a theorem "
              "shows that for every signature and call it gives what the model's handler_invocation gives (C19_invocation_from_source)."),
        note=TB + "inspect.signature is trusted for methods/partials; py_bind covers positional-only and named-only calls (the only shapes JSON-RPC produces).",
        technique="Coq proof (list lemmas over filter/existsb) + exhaustive vm_compute correspondence incl. the real call as binding oracle",
        ref='6/C19'),
    'C13': dict(
        text=("Proof: the four methods of the Concurrency class (_retarget_semaphore, __aenter__, __aexit__, set_target) are TRANSLATED "
              "from the Python source on every run into a tiny imperative language; an interpreter runs them on the model's state and "
              "theorems show that they do exactly what the primitives of the hand-written limiter model do (the loop of "
              "_retarget_semaphore = release_n, by induction). On that model (limiter on its own): for EVERY label sequence (start / resume of a queued waiter / exit / cancel of a "
              "queued waiter / set_target n>=1) of the LTS of Concurrency over CPython 3.12's Semaphore: conservation "
              "(holders + free + handed-over permits = _sem_value, value >= 0), bound (holders <= largest target ever in force), "
              "lowering (holders <= target + excess; excess never grows without set_target; each exit while there is excess "
              "retires exactly one), raising (an admission brings the permits up to the target), FIFO hand-over to the first "
              "pending waiter, an exit at or below the limit serves the head of the queue, globally nobody overtakes a waiting "
              "worker (whoever holds, was admitted or was handed a permit entered before every worker still queued - for every "
              "sequence with distinct workers, any cancellations and limit changes), every queued worker is served after at most "
              "excess + position + 1 exits of holders (no step but set_target delays it, every exit brings it one step nearer), target <= 0 refuses entry. "
              "Tie: trace acceptance against the real object, one event-loop handle per label, every field compared after "
              "every label. Session level (model/Throttle.v): the request-processing coroutines _throttled_request / _throttled_message "
              "as lists of suspension points REGENERATED FROM THE SOURCE on every run (enter / leave the limiter's block, "
              "cost sleep, handler, other awaits), interpreted against the limiter LTS; for EVERY well-bracketed shape and every "
              "sequence of arrivals, first steps, resumptions, wake-ups, cancellations of queued and of running requests and limit "
              "changes: every running handler holds a permit (so handlers in flight <= largest limit in force and <= target + "
              "excess), no permit is held by a request that is gone, and requests ask for their permit in arrival order; the "
              "generated shapes are shown to be of that kind by computation. Tie: every session workload (RPCSession and "
              "MessageSession, cost-driven delays, processing timeouts) is replayed as a label trace and accepted by the model "
              "with snapshots (sem value, free permits, holders, running handlers, queue length, ended requests, order of asking). "
              "The unanswered-request count: every arrived request is accounted for exactly once (not started / suspended / ended), "
              "so received-and-unfinished = arrived - ended (theorem), compared with unanswered_request_count() in every snapshot."),
        note=TB + "asyncio.Semaphore semantics (locked/acquire/release/_wake_up_next, hand-over at wake-up) are modelled from CPython 3.12.1 and validated by the traces; the order in which resumed tasks run is left to the adversary (the theorems hold for every order).",
        technique="Coq proof (LTS invariants by induction over label lists; coroutine shape produced by an AST translator and interpreted by the model) + per-handle trace acceptance against the real Concurrency on a single-step event loop + trace acceptance of real session workloads",
        ref='6/C13'),
    'C11': dict(
        text=("Proof (partial): TimeoutAfter.__aexit__, _set_task_deadline and _unset_task_deadline are TRANSLATED from the Python source on every run "
              "(decision list / statement lists); an "
              "interpreter runs it and a theorem shows that for every exception in flight, kind of block, recorded timeout and "
              "'uncaught' flag __aexit__ decides as the model's aexit does, and that the two bookkeeping functions equal the model's "
              "set_deadline / unset_deadline for every state. On the model: "
              "for the big-step one-task semantics of nested timeout/ignore blocks (literal transcription of "
              "_set/_unset_task_deadline and __aexit__), for ALL programs and states: the deadline stack is restored by every "
              "fragment, the armed timer is always the minimum of the active deadlines, a block exit re-arms for the minimum "
              "of the REMAINING deadlines, after a whole program nothing is armed and follow-on code cannot be cancelled by "
              "an exited block; an un-interrupted block is transparent; an interruption happens exactly at max(min deadline, "
              "now), never earlier, and does happen when the suspension outlasts it; two-level nesting with symbolic "
              "deadlines: outer-first (inner sees TimeoutCancellationError, no expiry; outer reports), inner-first (TaskTimeout; "
              "un-handled -> UncaughtTimeoutError outside; ignore form ends quietly), body-first (nothing reported); and for ANY body "
              "(any nesting below) the level of reporting: UncaughtTimeoutError leaves a block only when a TaskTimeout or that very "
              "error left its body, TaskTimeout only when it left the body or the block itself expired, an ignore block ends quietly "
              "only when its body did or it expired itself. "
              "Correspondence: random programs compiled to real coroutines on a virtual-time loop, per-block comparison. "
              "Known finding F21: the program DSL has no finally clause; for cleanup code that keeps awaiting after a timeout fired "
              "four clauses fail on the implementation and in the translated primitives alike (C11_F21_*_refuted, witnesses by "
              "vm_compute; the same four programs run on aiorpcx.curio on every run and must give exactly the recorded outcomes)."),
        note=TB + "Partial: equal timer instants (asyncio heap order) are excluded and detected at run time; the event loop and Task.cancel semantics are those of CPython 3.12.1 as modelled by the three wake-up sources of `await`.",
        technique="Coq proof (structural induction over programs, symbolic execution with lia for the nesting theorems) + vm_compute correspondence against aiorpcx.curio on a virtual clock",
        ref='6/C11'),
    'C12': dict(
        text=("Proof (partial): for every program that does not itself catch CancelledError/TimeoutCancellationError, every "
              "history of inner timeouts that expired and were caught or ignored, and every cancel instant: if the external "
              "cancel was delivered, the outcome at top level is CancelledError (never TaskTimeout, TimeoutCancellationError "
              "or UncaughtTimeoutError) and no timer stays armed - by induction over programs with the invariant 'the timeout "
              "record is stale or a timer is due'. The property was FALSE on the original tree (F10, witness C12_f10): "
              "repaired by a fix: commit; the theorem is about the repaired __aexit__. Correspondence search is driven from "
              "the model's witness and its mutations. Task-group joins under cancellation are covered by C09/C10's check."),
        note=TB + "Partial: one task, no task groups inside the blocks in this model; cancel instants coinciding with deadlines excluded (odd/even instants).",
        technique="Coq proof (induction over programs with a stale-or-due invariant) + witness-driven vm_compute correspondence",
        ref='6/C12'),
    'C14': dict(
        text=("Proof: the arithmetic of data_received, _send_message, _bump_errors, bump_cost, recalc_concurrency and the cost sleep "
              "is TRANSLATED from the Python source on every run, expression by expression, into a small expression language; "
              "theorems show that every expression was understood and that, evaluated over exact rationals, they are the formulas "
              "the model is built from (for every configuration, state and argument). On that model, "
              "over exact rationals, for ALL configurations and all histories of traffic, errors with extra cost, bumps of "
              "either sign, explicit re-evaluations and time advances: cost >= 0; each charge moves the cost by exactly the "
              "stated amount (clamped) and the re-evaluation is lazy (exactly when the drift exceeds the extracted threshold) "
              "and decays the cost by elapsed x rate; the permitted concurrency is a non-increasing function of the evaluated "
              "cost, = initial at/below soft, = 0 at/above hard; fraction and target always stem from the same evaluation, so "
              "an admitted request sleeps fraction x cost_sleep in [0, cost_sleep]; after an evaluation at/above hard admission "
              "is refused; a client (hard <= soft) is never throttled. All constants re-read from the running code. "
              "Correspondence: label-by-label against a real SessionBase with a patched clock (floats vs exact within 1e-6; "
              "both branches accepted within 1e-7 of the laziness threshold / next to a ceil boundary). The -101 reply, hook "
              "and close at session level are exercised by the session scenarios (C03/C05 harness), not proved here."),
        note=TB + "Float rounding is not modelled (IEEE rounding monotone); time.time() is patched by the harness.",
        technique="Coq proof over Q (lra, Qround monotonicity lemmas, invariants over label lists) + label-by-label correspondence against SessionBase",
        ref='6/C14'),
    'C20': dict(
        text=("Proof (partial): the arithmetic of _recalc_concurrency (cap, floor, both branches of `if avg != 0`, the rounding) is "
              "TRANSLATED from the Python source on every run and shown to be the model's clamp / round_half_up. "
              "The recalibration function over exact rationals: for every current limit 1..250 and EVERY "
              "response-time average and target response time the new limit lies between two functions of the current limit "
              "alone (monotonicity of rounding), and a kernel-evaluated table over the finite domain 1..250 lifts to: new limit "
              "in 1..250, rise <= ceil(max(3,10%)), fall <= ceil(max(1,20%)); hence every limit of every recalibration history "
              "from 50 is in range. Awaiting requests <= largest limit in force and one retired permit per completion are the "
              "limiter theorems of C13 instantiated for the outgoing limiter; that the requests awaiting their response ARE holders "
              "of that limiter is a theorem about the shape of _send_concurrent regenerated from the source (the wait happens only "
              "inside the limiter's block, entered first and once; model/Throttle.v). A wait under timeout_after(T) ends by T with the "
              "response, TaskTimeout or the cancellation, for every peer delay and cancel instant (timeout model of C11). "
              "Correspondence: the real _recalc_concurrency for every current limit x response-time histories; oracle: "
              "virtual-time workloads (up to 120 callers, singles and batches, peer answering late/never/partly/garbage, "
              "connection loss) - every call ends by written + timeout, in-flight <= largest limit."),
        note=TB + "Partial: that the future is resolved/cancelled by the connection is C01/C08; asyncio's timers are trusted; float rounding next to a .5 boundary accepted within 1e-9.",
        technique="Coq proof (Q arithmetic + finite table by vm_compute lifted with forallb_forall; corollaries of the limiter and timeout theorems) + exhaustive-in-current-limit correspondence + virtual-time workload oracle",
        ref='6/C20'),
    'C01': dict(
        text=("Proof: on the model of JSONRPCConnection, for every history of send_request / send_batch / receive_message(any "
              "bytes) / cancel and every protocol class: ids outstanding together are pairwise distinct and below the counter "
              "(invariant); a response resolves exactly the entry its id names (Python's 1 == 1.0 == True identification), "
              "removes it and leaves the others; unknown, replayed, string/null and unhashable ids are ProtocolErrors with the "
              "table untouched; any message changes the table by at most one removed key; no awaitable is completed twice along "
              "any history; a batch completes with one value per request in member order for EVERY permutation of the response "
              "members (insertion sort + uniqueness of strictly sorted permutations); cancel releases everything. "
              "Correspondence: operation traces against the real connection for v1/v2/Loose/AutoDetect with an independently "
              "encoded response stream; outcome, completed future + values, len(pending) after every operation."
              " JSONRPCConnection's receive_message (dispatcher), _receive_response, _receive_response_batch, send_request and send_batch are TRANSLATED from the Python source on every run; interpreters run them and theorems show them equal to the model for every connection state and byte string (C01_receive_message_dispatch_from_source ...); a late response to an abandoned request is consumed quietly (C01_abandoned_response_consumed)."),
        note=TB + "That the caller's `await future` returns what was put into the future is asyncio's; the session-level path (send_request through RPCSession) is exercised by the C20/C08 scenarios, not proved.",
        technique="Coq proof (invariants by induction over operation lists; Permutation/StronglySorted argument for batch order) + vm_compute trace correspondence against JSONRPCConnection",
        ref='6/C01'),
    'C02': dict(
        text=("Proof: a single request's reply carries its id - the result, or -32600 when over a positive max_response_size; the "
              "closure of a request batch expects exactly one part per invalid member (pre-filled) plus one per request member; "
              "each supplied result appends one entry under its own id; for every order of supply all calls but the last return "
              "nothing and the last returns the one batch response (error entries first, then the entries in supply order). "
              "The clause 'one error entry per invalid member' is REFUTED in Coq for batches without any request member but "
              "with a notification (C02_refuted = known finding F9). Correspondence: real connection, batch compositions with "
              "all member kinds and id types, results supplied in random orders with sizes around max_response_size."
              " The reply side (item_send_result - the closure of _receive_request_batch with its size arithmetic - and _send_result) is TRANSLATED from the Python source on every run and shown equal to the model's batch_send_result / send_result."),
        note=TB + "Error message texts of library-generated replies are not modelled: replies are compared through (id, result | error code) signatures.",
        technique="Coq proof (induction over the supply list) + refutation witness by vm_compute + trace correspondence",
        ref='6/C02'),
    'C04': dict(
        text=("Proof: payload level, all three protocol classes: what encoder e writes, decoder d (same version or "
              "Loose) reads back as the equal item with the same id - requests, notifications (incl. [] vs {} params), results, "
              "errors, whole batches; format predicates of 2.0 and 1.0 (1.0: no named params, no batches); the loose decoder "
              "agrees with both strict encoders; auto-detection always settles on a decoder compatible with the encoder; every "
              "encoded message is printable ASCII, hence newline-free (induction over JSON values, all Unicode incl. lone "
              "surrogates and astral characters); text level: the parser is a left inverse of the printer, "
              "json.loads(json.dumps v) = v, for every value within the decoder's nesting / digit limits with distinct object keys, "
              "no high surrogate directly followed by a low one, and float tokens satisfying the float oracle (repr(x) is read back "
              "as itself: proved for the shapes float.__repr__ produces, assumed in general) - composed with UTF-8 decoding into "
              "message_to_item (encode_payload p) = payload_to_item p, i.e. the round trips hold down to the bytes on the wire. "
              "Correspondence: real *_message classmethods byte-exact vs Json.print; "
              "message_to_item and detect_protocol on member-set x value-type payloads, batches and a malformed stream."
              " The decoding side is TRANSLATED from the Python source on every run: _message_id / _validate_message / _request_args / response_value of the three protocol classes, _best_effort_error, _process_request / _process_response / message_to_item and detect_protocol; a Python-over-JSON interpreter runs them and theorems show every run equal to the model's function (C04_*_from_source)."),
        note=TB + "Floats are opaque repr tokens; strings avoid a high surrogate directly followed by a low one (json merges them, note N4).",
        technique="Coq proof (symbolic evaluation of the classifiers on built payloads; nested induction for the printer; parser/printer round trip by induction over strings, digits and nested values with explicit fuel) + byte-exact vm_compute correspondence in both directions",
        ref='6/C04'),
    'C05': dict(
        text=("Proof: for EVERY byte string, connection state and protocol class receive_message yields items, a completed "
              "awaitable or a ProtocolError - never another exception (total case analysis of the model, with the decoder-"
              "failure behaviour read from the table measured on the running code: all four kinds are parse errors after the "
              "fixes of F5-F7); a ProtocolError without reply arises only for response-like input; error replies are "
              "well-formed; the serving loop survives every message sequence. Correspondence: malformed stream in every "
              "connection state; session level: streams into a serving RPCSession followed by a probe request."
              " receive_message as the source has it (translated on every run) is the model's receive_message (C05_receive_message_from_source), so the totality theorem speaks about the code as written today."),
        note=TB + "The JSON nesting limit depends on the interpreter stack depth at the call; inputs within ~100 levels of the limit are not generated.",
        technique="Coq proof (totality by case analysis + measured decoder-failure table) + correspondence on a malformed-input stream + session probe oracle",
        ref='6/C05'),
    'C03': dict(
        text=("Proof (partial): on the model of the tail of _throttled_request, for every handler outcome (value, non-encodable "
              "value, RPCError with code/message/cost, ProtocolError, other exception, overrun, ReplyAndDisconnect of a value / "
              "an error / a non-encodable value, refusal): exactly one reply under the request's id carrying the value, the "
              "handler's own code and message, -32603, -102 or -101, nothing for a notification; for every assignment of "
              "outcomes to any number of requests/notifications and every completion order the session stays alive, the wire "
              "holds exactly the replies in completion order, every failed request adds 1 error and base + specific cost. The "
              "except ladder itself (clauses in source order, what each does with the exception, disconnect / hook) is REGENERATED "
              "from the source of _throttled_request on every run together with an issubclass table probed on the running classes, "
              "and a theorem shows that the first clause catching each outcome's exception is the one the model implements. The "
              "property was FALSE on the original tree for non-encodable results (F8, message loop died with the transport "
              "open): repaired by a fix: commit. Correspondence: real serving RPCSession in virtual time, up to 12 concurrent "
              "requests / notifications / batch members with scripted behaviours and completion orders, then a probe request."),
        note=TB + "Partial: the handler's own code is represented by its outcome; handlers swallowing cancellation and the limiter/timeouts around the handler are C13/C11.",
        technique="Coq proof (total case analysis + fold invariant over completion orders) + virtual-time session correspondence and oracle",
        ref='6/C03'),
    'C18': dict(
        text=("Proof (partial): the three regular expressions are regenerated from util.py on every run (AST, character classes "
              "expanded under the pattern's flags by the real engine over all 0x110000 code points, anchor kind, call style); a "
              "VERIFIED bisimulation checker (check_bisim_sound, regex derivatives vs a deterministic automaton, one "
              "representative per class interval) proves that what re.match accepts equals the specification automaton, and each "
              "automaton is proved equal to the English definition; hence is_valid_hostname = the host-name definition and "
              "validate_protocol = the protocol definition for ALL strings; ports: only 1..65535 is ever returned, ints exactly, "
              "every port printed in decimal is read back (kernel-evaluated table of all 65535 values); _split_address on "
              "host:port and [anything]:port (closing bracket from the right). On the original tree the proofs did NOT go "
              "through: Coq computed the distinguishing strings U+0130, '0\\n', 'A,' which replayed on the real code (F1-F3), "
              "and the round trip failed for a scope id with ']' (F4); all four repaired by fix: commits. Partial: "
              "ipaddress.ip_address and the NetAddress/Service composition are tied by the correspondence only."),
        note=TB + "The re engine is trusted both as the translator's oracle for character classes and as the implementation; str.isdigit / int() tables are measured.",
        technique="Coq proof: verified regex-vs-automaton bisimulation check re-run against regexes regenerated from the source + automaton-meaning inductions + finite tables by vm_compute; vm_compute correspondence; exhaustive one-character sweep",
        ref='6/C18'),
    'C15': dict(
        text=("Proof (partial): on the LTS of the send gate (write / pause_writing / resume_writing / connection_lost / send "
              "deadline over asyncio.Event), for EVERY label sequence: nothing is written while the transport reports its buffer "
              "full (also not by writers released together when the first refills the buffer); reading is paused exactly while "
              "the gate is closed; each message reaches the transport at most once and only from a completed write; a resume "
              "releases every blocked writer; a writer blocked for max_send_delay aborts the connection and gets TaskTimeout; "
              "connection loss releases all blocked writers, which then write nothing. Whether a woken writer re-checks the "
              "gate, and that a framed message of any size (0 bytes to 1 MiB) is handed to the socket in one write call, is probed "
              "on the running RSTransport and USTransport on every run. pause_writing, resume_writing, connection_lost and write() of both "
              "transport classes are TRANSLATED from the Python source on every run into statement lists; with asyncio.Event's meaning "
              "written down once, theorems show that the model's labels are exactly the runs of those statements and that the model run "
              "over ANY label sequence is the run of the source's statements (C15_model_from_source). The property was FALSE on the original "
              "tree (F14): repaired by a fix: commit. Correspondence: scenarios on a real session over both transport classes "
              "and a fake asyncio transport with a high-water mark (wire order, blind writes, time-outs, reading flag)."),
        note=TB + "Partial: asyncio's Event waiter order and the real transports' buffering are trusted; timer ties (a stall ending exactly when another event is due) are avoided by the generator.",
        technique="Coq proof (LTS invariants by induction over label lists; counting argument for at-most-once) + behavioural probe fact + vm_compute scenario correspondence",
        ref='6/C15'),
    'C09': dict(
        text=("Proof (partial): on an LTS of TaskGroup with one joining task (join / async with / body raised), abstract "
              "members that finish whenever the environment lets them (arbitrarily slow reaction to cancellation, any outcome, "
              "spawning further members at any time), every wait policy and the joining task cancelled at any instant, for EVERY "
              "label sequence: whenever the join has finished (joined set - returning or re-raising the CancelledError that "
              "interrupted its wait for the next member) every task ever placed in the group has finished; a joining task that "
              "ends without CancelledError has completed the join; once joined, additions are refused and the set of members "
              "never changes again; every unfinished member is always tracked in _pending or daemons. Two model facts (the "
              "finally clause re-cancels members added during cancellation; a joined group refuses tasks) are probed on the "
              "running class on every run. On the original tree the invariant failed for a member spawned while the others were "
              "being cancelled (F11, repaired by a fix: commit). REFUTED part, proved as C09_refuted_*: the joining task "
              "cancelled while join's finally / cancel_remaining waits ends at once with members running (known finding F12). "
              "Correspondence: the real TaskGroup driven one loop handle at a time; after every handle the group state and the "
              "ready queue are compared with the model; the oracle is evaluated at the label at which the joining task ends."),
        note=TB + "Partial: one joining task, no concurrent next_done consumer; asyncio's callback scheduling order, Task.cancel and Semaphore hand-over are modelled facts tied by the per-handle correspondence only.",
        technique="Coq proof (reachable-state invariant by induction over label lists; generic preservation lemma for the joining coroutine; refutation witnesses by vm_compute) + behavioural probe facts + per-handle vm_compute trace correspondence on a single-step event loop",
        ref='6/C09'),
    'C10': dict(
        text=("Proof (partial): TaskGroup._on_done and _add_task are TRANSLATED from the Python source on every run and shown to do what "
              "the model's on_done / add_task do. On the TaskGroup LTS of C09, for EVERY label sequence (members spawned running and tasks added "
              "when already finished - constructor, add_task - in any interleaving): the members consumed by join, queued in _done "
              "and those whose _on_done callback is still queued never repeat and are exactly the finished non-daemon members "
              "(exactly once); for sequences in which members are spawned running, the "
              "members consumed by join, then those queued in _done, then those whose _on_done callback is still in the ready "
              "queue are - without repetition - exactly the non-daemon members in the order in which they finished (exactly once, "
              "completion order); completed is the first consumed member that counts (object policy: that did not return None); "
              "a finished member's outcome is never rewritten, the policy is fixed, and only the joining task consumes or sets "
              "completed; the semaphore of next_done counts the queue of finished members; join leaves its loop - other than by "
              "a cancellation - only under the none policy, after a member that stops it (failed / cancelled; any; object and a "
              "member counts) or when nothing is pending and nothing is queued, and it never goes on consuming after a member "
              "that stops it. NOT proved, decided by the correspondence and the oracle on real runs only: that the members "
              "still running are then cancelled (follows for the end state from C09), that join raises no member exception, "
              "and the result/exception properties. "
              "Correspondence: as C09 plus the cancellation requests after every handle; oracle computed from the real run alone."),
        note=TB + "Partial: next_done called by the application is in the model only where it does not have to wait and before the joining task has run (label LAppNext; what it takes does not count for completed); calls between join's iterations and the retain option (the tasks attribute) are not in the model; the tasks attribute is checked on the real runs by the oracle (retain on and off).",
        technique="Coq proof (order / exactly-once / first-finisher invariants by induction over label lists, generic preservation lemma for the joining coroutine) + per-handle vm_compute trace correspondence + policy oracle on the real runs",
        ref='6/C10'),
    'C08': dict(
        text=("Proof (partial): on the life-cycle LTS of a session (link lost, message loop ended with its connection-lost hook "
              "cancelling the pending requests, the TaskGroup of process_messages cancelling the loop and every handler, handlers "
              "finishing, the group block left = _closed_event set, close() calls from the application / concurrently / "
              "repeatedly / inside a handler returning, the force_after deadline forcing an abort), for EVERY event sequence the "
              "LTS allows: the hook runs at most once and exactly when the loop has ended; after it no caller registered before "
              "is left waiting; _closed_event set implies loop ended, hook ran, every handler finished; an application's close() "
              "returns only then; a waiting close() can always be forced at its deadline; PROGRESS: once the link is lost, while "
              "anything is left an internal step is enabled (assuming only that a handler whose cancellation was requested "
              "finishes), every internal step decreases a measure, so every maximal internal run is finite and ends with nothing "
              "left. Partial: that the real objects follow the LTS is the projected trace acceptance after every loop handle, "
              "with faults (drop, close, concurrent close, abort, close in a handler, repeated close, abort then close) injected at "
              "chosen points of scripted conversations over RPCSession and MessageSession, RSTransport and USTransport, graceful "
              "close completing or never completing; the oracle (hook count, no task left, close() returned, callers released "
              "no later than the hook) is computed from the real run alone."),
        note=TB + "Partial: the LTS is coarser than a loop handle (the TaskGroup and the timeout block inside close() appear through what C09 and C11 prove of them); the fake asyncio transport's close/abort semantics are trusted; SSL and real sockets are not modelled.",
        technique="Coq proof (LTS invariant by induction over event lists; progress + well-founded measure for the internal steps) + projected per-handle vm_compute trace acceptance with fault injection on a single-step loop",
        ref='6/C08'),
}

REASONS = {}
DEFAULT_REASON = ("not claimed yet: the Rocq model/theorems and correspondence for this property are not built "
                  "in the committed state (planned, see DESIGN.md section 6/9); the technique does apply")


def main():
    checks = []
    for pid in ALL:
        if pid not in CLAIMED:
            continue
        c = CLAIMED[pid]
        checks.append({
            'property_id': pid,
            'quick_cmd': f'bin/check {pid} quick',
            'thorough_cmd': f'bin/check {pid} thorough',
            'evidence_file': f'/verif/evidence/{pid}.json',
            'replay_cmd_template': f'bin/check {pid} quick --replay {{path}}',
            'engine': 'rocq-proof+correspondence',
            'level_claimed': {'category': 'proof', 'text': c['text'], 'design_ref': c['ref']},
            'level_note': c['note'],
            'technique': c['technique'],
        })
    m = {
        'version': 1,
        'setup_cmd': 'bin/setup',
        'hooks': {
            'guard': 'AIORPCX_VERIF',
            'enable': ('no instrumentation inside /repo: the harness imports aiorpcx from /repo '
                       '(PYTHONPATH=/repo) and drives it from outside (own event loop, fake transports)'),
            'baseline_off_cmd': ('cd /repo && /venv/bin/python -m pytest -ra -q -p no:cacheprovider '
                                 '--timeout=900 --continue-on-collection-errors'),
            'source_commits': [],
            'add_only': True,
        },
        'engines': [{
            'name': 'rocq-proof+correspondence',
            'path': '/verif/bin/check',
            'serves_properties': sorted(CLAIMED),
            'kind_free_text': ('Coq 8.16.1 development under /verif/coq (models, proofs, property theorems), '
                               'facts regenerated from /repo by tools/gen_facts.py on every run, '
                               'correspondence: real code vs model evaluated by vm_compute on generated cases, '
                               'Python property oracle as counter-example search'),
        }],
        'checks': checks,
        'notes': 'See DESIGN.md. known_findings.json lists recorded defects; seeded/ holds validated breaking changes.',
        'not_applicable': [{'property_id': p, 'reason': REASONS.get(p, DEFAULT_REASON)}
                           for p in ALL if p not in CLAIMED],
    }
    with open('/verif/MANIFEST.json', 'w') as f:
        json.dump(m, f, indent=1)
    try:
        import jsonschema
        jsonschema.validate(m, json.load(open('/root/.vp/MANIFEST.schema.json')))
        print('MANIFEST.json valid;', len(checks), 'checks')
    except ImportError:
        print('MANIFEST.json written (jsonschema not available)')


if __name__ == '__main__':
    main()
