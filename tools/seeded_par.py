#!/usr/bin/env python3
"""Runs `tools/seeded.py run <id> <tier>` for many seeded changes at once (developer tool, not a registered check).
Each worker slot gets its own copy of /repo's HEAD tree and of /verif under a scratch directory and runs inside a
private mount namespace (unshare -m) in which those copies are bind-mounted over /repo and /verif - so the checks
run exactly as registered (hard-coded /repo, /verif paths) while the real /repo and /verif are never touched.
Only seeded/<id>/result.json is copied back.

  tools/seeded_par.py [-j N] [--tier quick] [--scratch DIR] [id ...]       (default: every seed, 6 slots)
"""
import json, os, shutil, subprocess, sys, threading, queue

ROOT = '/verif'


def sh(cmd, **kw):
    return subprocess.run(cmd, capture_output=True, text=True, **kw)


def main():
    args = sys.argv[1:]
    jobs, tier, scratch, ids = 6, 'quick', '/tmp/par', []
    while args:
        a = args.pop(0)
        if a == '-j':
            jobs = int(args.pop(0))
        elif a == '--tier':
            tier = args.pop(0)
        elif a == '--scratch':
            scratch = args.pop(0)
        else:
            ids.append(a)
    if not ids:
        ids = sorted(d for d in os.listdir(os.path.join(ROOT, 'seeded')) if os.path.exists(os.path.join(ROOT, 'seeded', d, 'patch.diff')))
    assert sh(['git', 'status', '--porcelain'], cwd='/repo').stdout.strip() == '', '/repo not clean'
    q = queue.Queue()
    for i in ids:
        q.put(i)
    lock = threading.Lock()
    missed = []

    def worker(k):
        base = os.path.join(scratch, str(k))
        shutil.rmtree(base, ignore_errors=True)
        os.makedirs(base)
        r = sh(['git', 'clone', '-q', '/repo', os.path.join(base, 'repo')])
        assert r.returncode == 0, r.stderr
        # (coq/corr holds transient case files of checks that may be running at this moment)
        r = sh(['rsync', '-a', '--exclude', 'coq/corr/*', ROOT + '/', os.path.join(base, 'verif') + '/'])
        assert r.returncode in (0, 24), r.stderr
        while True:
            try:
                sid = q.get_nowait()
            except queue.Empty:
                break
            script = (f'mount --bind {base}/repo /repo && mount --bind {base}/verif /verif && cd /verif && '
                      f'timeout 7000 python3 tools/seeded.py run {sid} {tier}')
            r = sh(['unshare', '-m', 'bash', '-c', script])
            line = (r.stdout.strip().splitlines() or [''])[-1]
            res = os.path.join(base, 'verif', 'seeded', sid, 'result.json')
            ok = r.returncode == 0 and os.path.exists(res)
            if ok:
                shutil.copy(res, os.path.join(ROOT, 'seeded', sid, 'result.json'))
            with lock:
                if not ok:
                    print(sid, 'ERROR', (r.stderr or r.stdout)[-400:], flush=True)
                    missed.append(sid)
                else:
                    print(line[:400], flush=True)
                    if ' MISSED ' in line:
                        missed.append(sid)
        shutil.rmtree(base, ignore_errors=True)

    ts = [threading.Thread(target=worker, args=(k,)) for k in range(jobs)]
    for t in ts:
        t.start()
    for t in ts:
        t.join()
    print('done:', len(ids), 'seeds;', 'not caught / error:', missed or 'none', flush=True)
    return 1 if missed else 0


if __name__ == '__main__':
    sys.exit(main())
