(* Executable model of aiorpcx.framing.ByteQueue / BinaryFramer / BitcoinFramer
   (framing.py:119-267).  No proofs here.

   The checksum is a parameter [cks] (Python: double_sha256(payload)[:4]); the correspondence
   instantiates it with Sha256.sha256d_4.  magic / limits are parameters too; their current
   values are in gen/Gen_framing.v. *)
From AV Require Import Base.

Record params := {
  p_magic : bytes;        (* self._magic, 4 bytes *)
  p_max_payload : N;      (* max_payload_size *)
  p_max_block : N;        (* self._max_block_size *)
  p_block_cmd : bytes;    (* b'block' *)
}.

(* ---- ByteQueue.receive (framing.py:135-147) over (buffer, queued chunks) ---- *)
Fixpoint bq_receive (n : N) (buf : bytes) (chunks : list bytes)
  : option (bytes * bytes * list bytes) :=
  if (n <=? N.of_nat (length buf))%N
  then Some (firstn (N.to_nat n) buf, skipn (N.to_nat n) buf, chunks)
  else match chunks with
       | [] => None                                   (* would block *)
       | c :: cs => bq_receive n (buf ++ c) cs
       end.

(* command.rstrip(b'\0')  (framing.py:262) *)
Fixpoint rstrip0 (l : bytes) : bytes :=
  match l with
  | [] => []
  | b :: r => match rstrip0 r with
              | [] => if N.eqb b 0 then [] else [b]
              | r' => b :: r'
              end
  end.

(* pad_command (framing.py:234-241): None = ValueError (too long, or ending with a NUL byte, which
   the zero padding could not represent) *)
Definition ends_nul (c : bytes) : bool := match rev c with b :: _ => N.eqb b 0 | [] => false end.
Definition pad_command (c : bytes) : option bytes :=
  if length c <=? 12 then (if ends_nul c then None else Some (c ++ repeat 0%N (12 - length c))) else None.

Section Framer.
Variable cks : bytes -> bytes.
Variable P : params.

(* framing.py:159-164, 249-255 *)
Definition frame (c p : bytes) : option bytes :=
  match pad_command c with
  | Some c12 => Some (p_magic P ++ c12 ++ le_bytes 4 (N.of_nat (length p)) ++ cks p ++ p)
  | None => None
  end.

Inductive result :=
| Delivered (c p : bytes)
| BadMagic
| Oversized
| BadChecksum
| Starved.                (* receive would block: not enough bytes yet *)

(* framing.py:263-266 *)
Definition oversized (cmd : bytes) (len : N) : bool :=
  (p_max_payload P <? len)%N &&
  (negb (bytes_eqb cmd (p_block_cmd P)) || (p_max_block P <? len)%N).

(* receive_message (framing.py:166-172) + _receive_header (257-267).
   Returns the result and the queue state afterwards. *)
Definition receive_message (buf : bytes) (chunks : list bytes)
  : result * bytes * list bytes :=
  match bq_receive 24%N buf chunks with
  | None => (Starved, buf, chunks)
  | Some (h, buf1, ch1) =>
      let magic := firstn 4 h in
      let cmd := rstrip0 (firstn 12 (skipn 4 h)) in
      let len := le_value (firstn 4 (skipn 16 h)) in
      let sum := firstn 4 (skipn 20 h) in
      if negb (bytes_eqb magic (p_magic P)) then (BadMagic, buf1, ch1)
      else if oversized cmd len then (Oversized, buf1, ch1)
      else match bq_receive len buf1 ch1 with
           | None => (Starved, buf, chunks)
           | Some (payload, buf2, ch2) =>
               if bytes_eqb (cks payload) sum then (Delivered cmd payload, buf2, ch2)
               else (BadChecksum, buf2, ch2)
           end
  end.

(* The same on the concatenated stream, without queue or chunks: the reference the chunked
   version is proved equal to (proof/BitcoinProofs.v), i.e. chunking independence. *)
Definition parse_one (s : bytes) : result * bytes :=
  if (N.of_nat (length s) <? 24)%N then (Starved, s) else
  let h := firstn 24 s in
  let s1 := skipn 24 s in
  let magic := firstn 4 h in
  let cmd := rstrip0 (firstn 12 (skipn 4 h)) in
  let len := le_value (firstn 4 (skipn 16 h)) in
  let sum := firstn 4 (skipn 20 h) in
  if negb (bytes_eqb magic (p_magic P)) then (BadMagic, s1)
  else if oversized cmd len then (Oversized, s1)
  else if (N.of_nat (length s1) <? len)%N then (Starved, s)
  else let payload := firstn (N.to_nat len) s1 in
       let s2 := skipn (N.to_nat len) s1 in
       if bytes_eqb (cks payload) sum then (Delivered cmd payload, s2) else (BadChecksum, s2).

(* a reader calling receive_message again and again until it blocks; a magic/size error
   does not stop the framer itself (the session closes the connection - see [session]) *)
Fixpoint run (fuel : nat) (buf : bytes) (chunks : list bytes) : list result :=
  match fuel with
  | O => []
  | S f => match receive_message buf chunks with
           | (Starved, _, _) => []
           | (r, b, c) => r :: run f b c
           end
  end.

End Framer.

(* ---- MessageSession._process_messages_loop error policy (session.py:283-316) ---- *)
Record sess := { errors : nat; closes : nat; recv_count : nat }.
Definition session_step (s : sess) (r : result) : sess :=
  match r with
  | BadMagic | Oversized => {| errors := S (errors s); closes := S (closes s); recv_count := recv_count s |}
  | BadChecksum => {| errors := S (errors s); closes := closes s; recv_count := recv_count s |}
  | Delivered _ _ => {| errors := errors s; closes := closes s; recv_count := S (recv_count s) |}
  | Starved => s
  end.
Definition session (rs : list result) : sess :=
  fold_left session_step rs {| errors := 0; closes := 0; recv_count := 0 |}.

(* ---- helpers for the correspondence files ---- *)
Definition result_eqb (a b : result) : bool :=
  match a, b with
  | Delivered c p, Delivered c' p' => bytes_eqb c c' && bytes_eqb p p'
  | BadMagic, BadMagic | Oversized, Oversized | BadChecksum, BadChecksum | Starved, Starved => true
  | _, _ => false
  end.

Inductive c07case :=
| CFrame (P : params) (c p : bytes) (obs : option bytes)          (* frame(): bytes or ValueError *)
| CRun (P : params) (chunks : list bytes) (obs : list result).    (* perpetual reader *)

Definition c07_ok (cks : bytes -> bytes) (c : c07case) : bool :=
  match c with
  | CFrame P c p obs => option_eqb bytes_eqb (frame cks P c p) obs
  | CRun P chunks obs => list_eqb result_eqb (run cks P (S (S (length obs))) [] chunks) obs
  end.
