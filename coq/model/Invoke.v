(* Executable model of aiorpcx.util.signature_info (util.py:272-301) and
   aiorpcx.jsonrpc.handler_invocation (jsonrpc.py:751-797), and the specification of
   Python's own argument binding (language reference 6.3.4 "Calls") for calls that pass
   either only positional or only named arguments.  No proofs here. *)
From AV Require Import Base.

Inductive pkind := PO | PK | VP | KO | VK.
(* positional-only, positional-or-keyword, *args, keyword-only, **kwargs *)
Record param := { pk : pkind; has_default : bool; pname : N }.
Definition sig := list param.

Definition is_kind (k : pkind) (p : param) : bool :=
  match k, pk p with
  | PO, PO | PK, PK | VP, VP | KO, KO | VK, VK => true
  | _, _ => false
  end.
Definition is_positional (p : param) : bool := is_kind PO p || is_kind PK p.
Definition count (f : param -> bool) (s : sig) : nat := length (filter f s).
Definition has (k : pkind) (s : sig) : bool := existsb (is_kind k) s.
Definition mem (x : N) (l : list N) : bool := existsb (N.eqb x) l.

(* ---- signature_info ---- *)
Inductive other := NoNames | AnyName | Names (l : list N).
Record info := { min_args : nat; max_args : option nat; required_names : list N; other_names : other;
                 required_kwonly : list N }.

Definition signature_info (s : sig) : info :=
  {| min_args := count (fun p => is_positional p && negb (has_default p)) s;
     max_args := if has VP s then None else Some (count is_positional s);
     required_names := map pname (filter (fun p => (is_kind PK p || is_kind KO p) && negb (has_default p)) s);
     other_names :=
       if has PO s then NoNames
       else if has VK s then AnyName
       else Names (map pname (filter (fun p => (is_kind PK p || is_kind KO p) && has_default p) s));
     required_kwonly := map pname (filter (fun p => is_kind KO p && negb (has_default p)) s) |}.

(* ---- handler_invocation: Some code = RPCError(code), None = an invocation is returned ---- *)
Inductive call := ByPos (n : nat) | ByName (given : list N).

Definition INVALID_ARGS : Z := (-32602)%Z.
Definition METHOD_NOT_FOUND : Z := (-32601)%Z.

Definition accept (i : info) (c : call) : bool :=
  match c with
  | ByPos n =>
      negb (n <? min_args i) &&
      match max_args i with None => true | Some m => negb (m <? n) end &&
      match required_kwonly i with [] => true | _ => false end     (* they can only be passed by name *)
  | ByName given =>
      match other_names i with
      | NoNames => false
      | o => forallb (fun r => mem r given) (required_names i) &&
             match o with
             | Names l => forallb (fun g => mem g (required_names i) || mem g l) given
             | _ => true
             end
      end
  end.

Definition handler_invocation (handler : option sig) (c : call) : option Z :=
  match handler with
  | None => Some METHOD_NOT_FOUND
  | Some s => if accept (signature_info s) c then None else Some INVALID_ARGS
  end.

(* ---- specification: can Python bind the call? ---- *)
Definition no_required_kwonly (s : sig) : bool :=
  forallb (fun p => negb (is_kind KO p) || has_default p) s.

Definition py_bind (s : sig) (c : call) : bool :=
  match c with
  | ByPos n =>
      (count (fun p => is_positional p && negb (has_default p)) s <=? n) &&
      ((n <=? count is_positional s) || has VP s) &&
      no_required_kwonly s
  | ByName given =>
      forallb (fun p => match pk p with
                        | PO => has_default p
                        | PK | KO => has_default p || mem (pname p) given
                        | _ => true
                        end) s &&
      forallb (fun g => has VK s ||
                        existsb (fun p => N.eqb (pname p) g && (is_kind PK p || is_kind KO p)) s) given
  end.

(* ---- correspondence ---- *)
(* (signature as inspect.signature reports it, call, did handler_invocation return an
    invocation?, did the actual Python call bind?) *)
Definition c19_ok (x : option sig * call * option Z * bool) : bool :=
  let '(h, c, obs_code, obs_bind) := x in
  option_eqb Z.eqb (handler_invocation h c) obs_code &&
  match h with Some s => Bool.eqb (py_bind s c) obs_bind | None => true end.
