(* Executable model of the session cost accounting, aiorpcx.session.SessionBase
   (session.py:98-230): bump_cost, recalc_concurrency, _bump_errors, the byte charges of
   data_received / _send_message, and the admission step of _throttled_request.
   Cost and time are exact rationals; the constants come from gen/Gen_session.v.  No proofs. *)
From Coq Require Import QArith Qround Qminmax.
From AV Require Import Base Gen_session.
Local Open Scope Q_scope.

Record config := {
  bw : Q;                (* bw_cost_per_byte *)
  soft : Q;              (* cost_soft_limit *)
  hard : Q;              (* cost_hard_limit (0 for client sessions) *)
  decay : Q;             (* cost_decay_per_sec *)
  cost_sleep : Q;
  error_base : Q;        (* error_base_cost *)
  initial : Z;           (* initial_concurrent *)
}.

Record cstate := {
  cost : Q; cost_last : Q; cost_time : Q; fraction : Q;
  ctarget : Z;           (* _incoming_concurrency._target *)
  errors : Z; now : Q;
}.

Definition init (c : config) (t0 : Q) : cstate :=
  {| cost := 0; cost_last := 0; cost_time := t0; fraction := 0; ctarget := initial c;
     errors := 0; now := t0 |}.

Definition qmax (a b : Q) : Q := if Qle_bool a b then b else a.
Definition qmin (a b : Q) : Q := if Qle_bool a b then a else b.
Definition qabs (a : Q) : Q := if Qle_bool 0 a then a else - a.

(* the target as a function of the evaluated cost  (session.py:193-198) *)
Definition fraction_of (c : config) (x : Q) : Q := qmax 0 ((x - soft c) / (hard c - soft c)).
Definition target_of (c : config) (x : Q) : Z :=
  Z.max 0 (Qceiling ((1 - fraction_of c x) * inject_Z (initial c))).

(* recalc_concurrency  (session.py:175-198); [extra] = self.extra_cost() *)
Definition recalc (c : config) (extra : Q) (s : cstate) : cstate :=
  let cost' := Qred (qmax 0 (cost s - (now s - cost_time s) * decay c)) in
  if Qle_bool (hard c - soft c) 0 then
    {| cost := cost'; cost_last := cost'; cost_time := now s; fraction := fraction s;
       ctarget := ctarget s; errors := errors s; now := now s |}
  else
    let x := cost' + extra in
    {| cost := cost'; cost_last := cost'; cost_time := now s; fraction := Qred (fraction_of c x);
       ctarget := target_of c x; errors := errors s; now := now s |}.

(* bump_cost  (session.py:163-167) *)
Definition bump (c : config) (extra : Q) (delta : Q) (s : cstate) : cstate :=
  let cost' := Qred (qmax 0 (cost s + delta)) in
  let s1 := {| cost := cost'; cost_last := cost_last s; cost_time := cost_time s;
               fraction := fraction s; ctarget := ctarget s; errors := errors s; now := now s |} in
  if Qle_bool (qabs (cost' - cost_last s)) recalc_threshold then s1 else recalc c extra s1.

Inductive clabel :=
| Recv (n : Z)               (* data_received of n bytes *)
| Send (n : Z)               (* _send_message of a message of n bytes *)
| Error (c : Q)              (* _bump_errors(exception with .cost = c) *)
| Bump (d : Q)               (* bump_cost(d), either sign *)
| Recalc                     (* explicit recalc_concurrency() *)
| Advance (dt : Q).          (* time passes *)

(* [extra] is the value extra_cost() returns during this label *)
Definition cstep (c : config) (s : cstate) (l : clabel * Q) : cstate :=
  let '(lab, extra) := l in
  match lab with
  | Recv n | Send n => bump c extra (inject_Z n * bw c) s
  | Error e =>
      let s1 := {| cost := cost s; cost_last := cost_last s; cost_time := cost_time s;
                   fraction := fraction s; ctarget := ctarget s; errors := (errors s + 1)%Z;
                   now := now s |} in
      bump c extra (error_base c + e) s1
  | Bump d => bump c extra d s
  | Recalc => recalc c extra s
  | Advance dt =>
      {| cost := cost s; cost_last := cost_last s; cost_time := cost_time s; fraction := fraction s;
         ctarget := ctarget s; errors := errors s; now := Qred (now s + dt) |}
  end.

Definition crun (c : config) (t0 : Q) (ls : list (clabel * Q)) : cstate :=
  fold_left (cstep c) ls (init c t0).

(* admission of a request (session.py:440-447 + Concurrency._retarget_semaphore):
   None = refused with EXCESSIVE_RESOURCE_USAGE, hook, close; Some d = runs after sleeping d *)
Definition admission (c : config) (s : cstate) : option Q :=
  if (ctarget s <=? 0)%Z then None else Some (fraction s * cost_sleep c).

(* ---- correspondence: observed floats are compared up to a relative tolerance ---- *)
Definition close_to (a b : Q) : bool :=
  Qle_bool (qabs (a - b)) ((1 # 1000000) * (1 + qabs b)).
Definition eps : Q := 1 # 1000000000.
Definition target_close (c : config) (x : Q) (obs : Z) : bool :=
  (obs =? target_of c x)%Z || (obs =? target_of c (x - eps * (1 + qabs x)))%Z
  || (obs =? target_of c (x + eps * (1 + qabs x)))%Z.
Record csnap := { o_cost : Q; o_last : Q; o_frac : Q; o_target : Z; o_errors : Z }.
Definition csnap_ok (c : config) (s : cstate) (o : csnap) : bool :=
  close_to (o_cost o) (cost s) && close_to (o_last o) (cost_last s) && close_to (o_frac o) (fraction s) &&
  (errors s =? o_errors o)%Z.
(* the target is compared through the evaluated cost at the last recalculation, which the
   harness reports (cost_last + the extra cost in force then) *)
(* The implementation computes in floats.  When the drift |cost - cost_last| is within 1e-7 of
   the threshold the float comparison may decide the laziness test the other way; the trace
   check then also accepts the other branch ([cstep_alt]) and continues from it. *)
Definition bump_alt (c : config) (extra : Q) (delta : Q) (s : cstate) : cstate * bool :=
  let cost' := Qred (qmax 0 (cost s + delta)) in
  let s1 := {| cost := cost'; cost_last := cost_last s; cost_time := cost_time s;
               fraction := fraction s; ctarget := ctarget s; errors := errors s; now := now s |} in
  let near := Qle_bool (qabs (qabs (cost' - cost_last s) - recalc_threshold)) (1 # 10000000) in
  (if Qle_bool (qabs (cost' - cost_last s)) recalc_threshold then recalc c extra s1 else s1, near).
Definition cstep_alt (c : config) (s : cstate) (l : clabel * Q) : cstate * bool :=
  let '(lab, extra) := l in
  match lab with
  | Recv n | Send n => bump_alt c extra (inject_Z n * bw c) s
  | Error e =>
      bump_alt c extra (error_base c + e)
        {| cost := cost s; cost_last := cost_last s; cost_time := cost_time s;
           fraction := fraction s; ctarget := ctarget s; errors := (errors s + 1)%Z; now := now s |}
  | Bump d => bump_alt c extra d s
  | _ => (cstep c s l, false)
  end.

Definition step_matches (c : config) (s' : cstate) (e : Q) (o : csnap) : bool :=
  csnap_ok c s' o &&
  ((ctarget s' =? o_target o)%Z ||
   (* float rounding at a ceil boundary: accept the neighbouring integer *)
   target_close c (cost_last s' + e) (o_target o)).
Definition with_target (s' : cstate) (t : Z) : cstate :=
  {| cost := cost s'; cost_last := cost_last s'; cost_time := cost_time s'; fraction := fraction s';
     ctarget := t; errors := errors s'; now := now s' |}.

Fixpoint ctrace_ok (c : config) (s : cstate) (tr : list (clabel * Q * csnap)) : bool :=
  match tr with
  | [] => true
  | (l, e, o) :: r =>
      let s' := cstep c s (l, e) in
      if step_matches c s' e o then ctrace_ok c (with_target s' (o_target o)) r
      else let '(s2, near) := cstep_alt c s (l, e) in
           near && step_matches c s2 e o && ctrace_ok c (with_target s2 (o_target o)) r
  end.
Definition c14_ok (x : config * Q * list (clabel * Q * csnap)) : bool :=
  let '(c, t0, tr) := x in ctrace_ok c (init c t0) tr.

(* debugging aid for replay files: index of the first label after which the snapshot differs *)
Fixpoint ctrace_firstbad (c : config) (s : cstate) (tr : list (clabel * Q * csnap)) (i : nat) : option (nat * cstate) :=
  match tr with
  | [] => None
  | (l, e, o) :: r =>
      let s' := cstep c s (l, e) in
      if step_matches c s' e o then ctrace_firstbad c (with_target s' (o_target o)) r (S i)
      else let '(s2, near) := cstep_alt c s (l, e) in
           if near && step_matches c s2 e o then ctrace_firstbad c (with_target s2 (o_target o)) r (S i)
           else Some (i, s')
  end.

(* ---------- the arithmetic as regenerated from the source ---------- *)
(* gen/Gen_session.v carries, expression by expression, the arithmetic of data_received, _send_message,
   _bump_errors, bump_cost, recalc_concurrency and the cost sleep of _throttled_request, translated from
   the Python source on every run ([aexp]).  [aeval] gives them their meaning over exact rationals;
   proof/CostProofs.v shows that they are the formulas the model above is built from. *)
Fixpoint aeval (env : avar -> Q) (e : aexp) : Q :=
  match e with
  | AVar v => env v
  | AConst q => q
  | AAdd a b => aeval env a + aeval env b
  | ASub a b => aeval env a - aeval env b
  | AMul a b => aeval env a * aeval env b
  | ADiv a b => aeval env a / aeval env b
  | AMax a b => qmax (aeval env a) (aeval env b)
  | AMin a b => qmin (aeval env a) (aeval env b)
  | AAbs a => qabs (aeval env a)
  | ACeil a => inject_Z (Qceiling (aeval env a))
  | AInt a => inject_Z (Qfloor (aeval env a))          (* int() of a non-negative number *)
  | AUnknown => 0
  end.
Fixpoint aknown (e : aexp) : bool :=
  match e with
  | AUnknown => false
  | AVar _ | AConst _ => true
  | AAdd a b | ASub a b | AMul a b | ADiv a b | AMax a b | AMin a b => aknown a && aknown b
  | AAbs a | ACeil a | AInt a => aknown a
  end.
(* the variables, given a configuration, a state and what the statement at hand is applied to *)
Definition aenv (c : config) (s : cstate) (delta len exc extra evalcost : Q) (v : avar) : Q :=
  match v with
  | VBw => bw c | VCost => cost s | VCostLast => cost_last s | VCostSleep => cost_sleep c | VCostTime => cost_time s
  | VDecay => decay c | VDelta => delta | VErrBase => error_base c | VEvalCost => evalcost | VExcCost => exc
  | VExtra => extra | VFraction => fraction s | VHard => hard c | VInitial => inject_Z (initial c) | VLen => len
  | VNow => now s | VSoft => soft c | VSoftRange => hard c - soft c
  | VAvg | VCap | VCurrent | VFloor | VTarget | VTrt => 0        (* variables of the recalibration: model/Recalc.v *)
  end.
