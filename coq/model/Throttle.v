(* Executable model of the request-processing coroutines of a session running against the
   session's incoming limiter: RPCSession._throttled_request and MessageSession._throttled_message
   (session.py), on top of model/Limiter.v.  No proofs here.

   The SHAPE of the coroutine - the order of its suspension points: entering / leaving the
   `async with self._incoming_concurrency` block, the cost-proportional sleep, the call of the
   handler, any other await - is not written here: it is regenerated from the source on every run
   (gen/Gen_session.v, throttled_request_ops / throttled_message_ops), and the model below interprets
   whatever list of operations it is given.

   A request is a task executing that list.  Labels (one atomic thing between two await points):
     TArrive w     the session spawns the task of request w (tasks run their first step in creation order)
     TFirst        the oldest task that has not run yet runs up to its first suspension point
     TResume w     a request suspended in a sleep / in its handler / in another await goes on
                   (leaving the handler if it was inside it)
     TWake w       a request queued at the limiter resumes (its future was resolved or cancelled)
     TCancelW w    a request queued at the limiter is cancelled (processing timeout, session closing)
     TAbort w      a suspended request that is not queued is cancelled: the exception leaves the blocks
     TSetTarget n  the limit changes
   Labels that are not enabled are no-ops. *)
From AV Require Import Base Limiter Gen_session.
Local Open Scope Z_scope.

Record treq := { t_in_handler : bool; t_rest : list throttle_op }.

Record tstate := {
  lim : lstate;                 (* the limiter *)
  ready : list N;               (* tasks created whose first step has not run, in creation order *)
  reqs : list (N * treq);       (* suspended requests and what remains of their coroutine *)
  waiting : list N;             (* those of them that are queued at the limiter *)
  running : list N;             (* handlers started and not finished *)
  arrived : list N;             (* ghost: arrival order *)
  asked : list N;               (* ghost: order in which requests asked the limiter for a permit *)
  started : list N;             (* ghost: order in which handlers started *)
  ended : list N;               (* ghost: requests whose task has finished *)
}.

Definition tinit (t : Z) : tstate :=
  {| lim := init t; ready := []; reqs := []; waiting := []; running := []; arrived := []; asked := [];
     started := []; ended := [] |}.

Definition set_lim (st : tstate) (l : lstate) : tstate :=
  {| lim := l; ready := ready st; reqs := reqs st; waiting := waiting st; running := running st;
     arrived := arrived st; asked := asked st; started := started st; ended := ended st |}.
Definition set_ready (st : tstate) (r : list N) (a : list N) : tstate :=
  {| lim := lim st; ready := r; reqs := reqs st; waiting := waiting st; running := running st;
     arrived := a; asked := asked st; started := started st; ended := ended st |}.
Definition set_reqs (st : tstate) (r : list (N * treq)) (w : list N) : tstate :=
  {| lim := lim st; ready := ready st; reqs := r; waiting := w; running := running st;
     arrived := arrived st; asked := asked st; started := started st; ended := ended st |}.
Definition set_running (st : tstate) (r : list N) (s : list N) : tstate :=
  {| lim := lim st; ready := ready st; reqs := reqs st; waiting := waiting st; running := r;
     arrived := arrived st; asked := asked st; started := s; ended := ended st |}.
Definition set_asked (st : tstate) (a : list N) : tstate :=
  {| lim := lim st; ready := ready st; reqs := reqs st; waiting := waiting st; running := running st;
     arrived := arrived st; asked := a; started := started st; ended := ended st |}.
Definition set_ended (st : tstate) (e : list N) : tstate :=
  {| lim := lim st; ready := ready st; reqs := reqs st; waiting := waiting st; running := running st;
     arrived := arrived st; asked := asked st; started := started st; ended := e |}.

Fixpoint lookup_req (w : N) (l : list (N * treq)) : option treq :=
  match l with
  | [] => None
  | (x, q) :: r => if N.eqb x w then Some q else lookup_req w r
  end.
Definition remove_req (w : N) (l : list (N * treq)) : list (N * treq) :=
  filter (fun x => negb (N.eqb (fst x) w)) l.

Definition suspend (st : tstate) (w : N) (q : treq) (queued : bool) : tstate :=
  set_reqs st (reqs st ++ [(w, q)]) (if queued then waiting st ++ [w] else waiting st).

(* the task of request w executes [ops] up to its next suspension point *)
Fixpoint exec (ops : list throttle_op) (w : N) (st : tstate) : tstate :=
  match ops with
  | [] => set_ended st (ended st ++ [w])
  | TAcquire :: rest =>
      let st1 := set_asked (set_lim st (step (lim st) (Start w))) (asked st ++ [w]) in
      if memN w (holders (lim st1)) then exec rest w st1                       (* a permit was free *)
      else if memN w (refused (lim st1)) then set_ended st1 (ended st1 ++ [w])  (* ExcessiveSessionCostError *)
      else suspend st1 w {| t_in_handler := false; t_rest := rest |} true        (* queued *)
  | TRelease :: rest => exec rest w (set_lim st (step (lim st) (Exit w)))
  | THandle :: rest =>
      suspend (set_running st (running st ++ [w]) (started st ++ [w])) w
              {| t_in_handler := true; t_rest := rest |} false
  | TSleep :: rest | TAwait :: rest => suspend st w {| t_in_handler := false; t_rest := rest |} false
  end.

(* is the position in front of [ops] inside the limiter's block?  (the next entering / leaving
   operation is the leaving one) *)
Fixpoint inside_block (ops : list throttle_op) : bool :=
  match ops with
  | [] => false
  | TRelease :: _ => true
  | TAcquire :: _ => false
  | _ :: r => inside_block r
  end.

Inductive tlabel :=
| TArrive (w : N) | TFirst | TResume (w : N) | TWake (w : N) | TCancelW (w : N) | TAbort (w : N) | TSetTarget (n : Z).

Definition tstep (ops : list throttle_op) (st : tstate) (l : tlabel) : tstate :=
  match l with
  | TArrive w => if memN w (arrived st) then st else set_ready st (ready st ++ [w]) (arrived st ++ [w])
  | TFirst => match ready st with
              | w :: r => exec ops w (set_ready st r (arrived st))
              | [] => st
              end
  | TResume w =>
      match lookup_req w (reqs st) with
      | Some q =>
          if memN w (waiting st) then st
          else
            let st1 := set_reqs st (remove_req w (reqs st)) (waiting st) in
            let st2 := if t_in_handler q then set_running st1 (removeN w (running st1)) (started st1) else st1 in
            exec (t_rest q) w st2
      | None => st
      end
  | TWake w =>
      match lookup_req w (reqs st) with
      | Some q =>
          if memN w (waiting st) then
            let st1 := set_lim st (step (lim st) (Wake w)) in
            if memN w (holders (lim st1))
            then exec (t_rest q) w (set_reqs st1 (remove_req w (reqs st1)) (removeN w (waiting st1)))
            else match find_waiter w (waiters (lim st1)) with
                 | Some _ => st1                                   (* still queued *)
                 | None =>                                         (* cancelled while queued: the task ends *)
                     let st2 := set_reqs st1 (remove_req w (reqs st1)) (removeN w (waiting st1)) in
                     set_ended st2 (ended st2 ++ [w])
                 end
          else st
      | None => st
      end
  | TCancelW w => if memN w (waiting st) then set_lim st (step (lim st) (Cancel w)) else st
  | TAbort w =>
      match lookup_req w (reqs st) with
      | Some q =>
          if memN w (waiting st) then st
          else
            let st1 := set_reqs st (remove_req w (reqs st)) (waiting st) in
            let st2 := if t_in_handler q then set_running st1 (removeN w (running st1)) (started st1) else st1 in
            let st3 := if inside_block (t_rest q) then set_lim st2 (step (lim st2) (Exit w)) else st2 in
            set_ended st3 (ended st3 ++ [w])
      | None => st
      end
  | TSetTarget n => set_lim st (step (lim st) (SetTarget n))
  end.

Definition trun (ops : list throttle_op) (t : Z) (ls : list tlabel) : tstate := fold_left (tstep ops) ls (tinit t).

(* ---------- what the theorems ask of the shape ---------- *)
(* the handler is called only inside the block; blocks are not nested and are left before the end *)
Fixpoint bracketed_from (inside : bool) (ops : list throttle_op) : bool :=
  match ops with
  | [] => negb inside
  | TAcquire :: r => negb inside && bracketed_from true r
  | TRelease :: r => inside && bracketed_from false r
  | THandle :: r => inside && bracketed_from inside r
  | _ :: r => bracketed_from inside r
  end.
Definition bracketed (ops : list throttle_op) : bool := bracketed_from false ops.

Definition is_acquire (o : throttle_op) : bool := match o with TAcquire => true | _ => false end.
Definition is_handle (o : throttle_op) : bool := match o with THandle => true | _ => false end.
(* asking for the permit is the very first thing a request does, and it does so once *)
Definition acquire_first_once (ops : list throttle_op) : bool :=
  match ops with TAcquire :: r => negb (existsb is_acquire r) | _ => false end.

(* ---------- correspondence: a trace of labels, each optionally followed by a snapshot of the real session ---------- *)
Record tsnap := { ts_semv : Z; ts_value : Z; ts_holders : list N; ts_running : list N; ts_nwaiters : nat;
                  ts_ended : list N; ts_asked : list N;
                  ts_unanswered : option nat   (* unanswered_request_count(), where the session is still open *) }.
(* requests received whose handling has not finished *)
Definition unfinished (st : tstate) : nat := length (ready st) + length (reqs st).
Definition tsnap_ok (st : tstate) (s : tsnap) : bool :=
  (semv (lim st) =? ts_semv s) && (value (lim st) =? ts_value s) && sorted_eq (holders (lim st)) (ts_holders s) &&
  sorted_eq (running st) (ts_running s) && (length (waiters (lim st)) =? ts_nwaiters s)%nat &&
  sorted_eq (ended st) (ts_ended s) && list_eqb N.eqb (asked st) (ts_asked s) &&
  match ts_unanswered s with Some n => (unfinished st =? n)%nat | None => true end.
Fixpoint ttrace_firstbad (ops : list throttle_op) (st : tstate) (tr : list (tlabel * option tsnap)) (i : nat) : option nat :=
  match tr with
  | [] => None
  | (l, s) :: r =>
      let st' := tstep ops st l in
      if match s with Some s => tsnap_ok st' s | None => true end then ttrace_firstbad ops st' r (S i) else Some i
  end.
Definition throttle_ok (x : bool * Z * list (tlabel * option tsnap)) : bool :=
  let '(msg, t, tr) := x in
  match ttrace_firstbad (if msg then throttled_message_ops else throttled_request_ops) (tinit t) tr 0 with
  | None => true | Some _ => false end.
