(* JSONRPCConnection._receive_response and _receive_response_batch as the SOURCE has them: both are translated
   statement by statement on every run (gen/Gen_jsonrpc.v: receive_response_code, receive_response_batch_code :
   list rstmt).  This file gives the statements a meaning over the connection of model/Conn.v.  One thing the
   hand-written model does not have appears here: the caller's future may already be finished (the caller gave up -
   a timeout, a cancelled task - while the request was outstanding); the entry is then still in the table.
   proof/ConnCodeProofs.v shows that for a live future the statements do what the model's receive_response /
   receive_response_batch do, and what they do for an abandoned one.  No proofs here. *)
From AV Require Import Base Utf8 Json Codec Conn Gen_jsonrpc.
Local Open Scope Z_scope.

(* the registers of one run *)
Record rregs := {
  r_conn : conn;
  r_known : bool;                                   (* known *)
  r_key : option key;                               (* the key looked up / popped: request_id, ordered_ids *)
  r_collected : list (json * respval);              (* zip(request_ids, results) *)
  r_sorted : list (ordkey * (json * respval));      (* ordered *)
  r_done : option (list (respval + Z) * bool);      (* what the future was completed with; true = set_exception *)
}.

Inductive rres :=
| RRunning (r : rregs)
| RFinished (o : rout) (c : conn)     (* return / raise *)
| RStuck.                             (* an untranslated statement, out of fuel, or a statement out of place *)

Definition single_key (rid : json) : option key :=
  match classify_id rid with
  | INum z => if z <? 0 then None else Some (KOne (Z.to_N z))
  | _ => None                       (* unhashable: TypeError -> known = False; str / null / other floats: never equal to one of our ids *)
  end.

Definition is_exception (v : respval + Z) : bool :=
  match v with inr _ => true | inl (RError _ _) => true | inl (RResult _) => false end.

Definition rcond_holds (r : rregs) (fut_done : bool) (v : respval + Z) (c : rcond) : option bool :=
  match c with
  | RNotKnown => Some (negb (r_known r))
  | RFutureNotDone => Some (negb fut_done)
  | RResultIsException => Some (is_exception v)
  | RBatchNotKnown => Some (match r_key r with Some k => negb (has_key k (r_conn r)) | None => true end)
  | RCUnknown => None
  end.

Definition upd (r : rregs) (c : conn) (kn : bool) (k : option key) (col : list (json * respval))
  (so : list (ordkey * (json * respval))) (d : option (list (respval + Z) * bool)) : rregs :=
  {| r_conn := c; r_known := kn; r_key := k; r_collected := col; r_sorted := so; r_done := d |}.

Definition pop (r : rregs) : rres :=
  match r_key r with
  | Some k => if has_key k (r_conn r)
              then let c := r_conn r in
                   RRunning (upd r (set_reqs c (remove_key k (reqs c)) (next_id c) (cproto c)) (r_known r) (r_key r)
                                 (r_collected r) (r_sorted r) (r_done r))
              else RFinished REscape (r_conn r)          (* KeyError *)
  | None => RFinished REscape (r_conn r)
  end.

(* one statement; [p], [payloads] are used by the batch statements, [rid], [v] by the single-response ones *)
Fixpoint rexec (fuel : nat) (p : proto) (payloads : list json) (rid : json) (v : respval + Z) (fut_done : bool)
  (r : rregs) (code : list rstmt) : rres :=
  match fuel with
  | O => RStuck
  | S f =>
      match code with
      | [] => RStuck                                   (* fell off the end without return *)
      | s :: rest =>
          let continue r' := rexec f p payloads rid v fut_done r' rest in
          match s with
          | RIf c yes no =>
              match rcond_holds r fut_done v c with
              | Some true => rexec f p payloads rid v fut_done r (yes ++ rest)
              | Some false => rexec f p payloads rid v fut_done r (no ++ rest)
              | None => RStuck
              end
          | RLookup =>
              let k := single_key rid in
              continue (upd r (r_conn r) (match k with Some k => has_key k (r_conn r) | None => false end) k
                            (r_collected r) (r_sorted r) (r_done r))
          | RRefuse => RFinished (RProtoErr INVALID_REQUEST None) (r_conn r)
          | RPop | RPopBatch => match pop r with RRunning r' => continue r' | x => x end
          | RSetException => continue (upd r (r_conn r) (r_known r) (r_key r) (r_collected r) (r_sorted r) (Some ([v], true)))
          | RSetResult => continue (upd r (r_conn r) (r_known r) (r_key r) (r_collected r) (r_sorted r) (Some ([v], false)))
          | RSetResults =>
              continue (upd r (r_conn r) (r_known r) (r_key r) (r_collected r) (r_sorted r)
                            (Some (map (fun kx => inl (snd (snd kx))) (r_sorted r), false)))
          | RReturnNothing =>
              match r_done r, r_key r with
              | Some (vs, _), Some k => RFinished (RCompleted k vs) (r_conn r)
              | _, _ => RFinished (RItems [] None) (r_conn r)      (* nothing completes: the caller had given up *)
              end
          | RInitIds | RInitResults => continue r
          | RCollect =>
              match batch_responses p payloads with
              | inr (code, _) => RFinished (RProtoErr code None) (r_conn r)     (* the member's ProtocolError passes through *)
              | inl rs => continue (upd r (r_conn r) (r_known r) (r_key r) rs (r_sorted r) (r_done r))
              end
          | RSortOrRefuse =>
              match fold_left (fun acc x => match acc, ord_of (fst x) with
                                            | Some l, Some k => insert_sorted k x l
                                            | _, _ => None
                                            end) (r_collected r) (Some []) with
              | None => RFinished rout_unsortable (r_conn r)
              | Some l => continue (upd r (r_conn r) (r_known r) (r_key r) (r_collected r) l (r_done r))
              end
          | RUnzip =>
              match r_sorted r with
              | [] => RFinished REscape (r_conn r)        (* zip of nothing cannot be unpacked: ValueError *)
              | l =>
                  let ids := map (fun kx => classify_id (fst (snd kx))) l in
                  let nums := map (fun i => match i with INum z => if 0 <=? z then Some (Z.to_N z) else None | _ => None end) ids in
                  continue (upd r (r_conn r) (r_known r) (option_map KMany (all_some nums)) (r_collected r) l (r_done r))
              end
          | RSUnknown => RStuck
          end
      end
  end.

Definition rinit (c : conn) : rregs :=
  {| r_conn := c; r_known := false; r_key := None; r_collected := []; r_sorted := []; r_done := None |}.

Fixpoint rknown (fuel : nat) (code : list rstmt) : bool :=
  match fuel with
  | O => false
  | S f => forallb (fun s => match s with
                             | RIf c yes no => match c with RCUnknown => false | _ => rknown f yes && rknown f no end
                             | RSUnknown => false
                             | _ => true
                             end) code
  end.

Definition receive_response_generated (c : conn) (v : respval + Z) (rid : json) (fut_done : bool) : rres :=
  rexec 12 V2 [] rid v fut_done (rinit c) receive_response_code.

Definition receive_response_batch_generated (c : conn) (p : proto) (payloads : list json) (fut_done : bool) : rres :=
  rexec 16 p payloads JNull (inr 0) fut_done (rinit c) receive_response_batch_code.

(* receive_message with the two response paths replaced by the runs of the translated statements (live futures) *)
Definition of_rres (r : rres) (c : conn) : rout * conn :=
  match r with RFinished o c' => (o, c') | _ => (REscape, c) end.

Definition receive_message_src (c : conn) (msg : bytes) : rout * conn :=
  match message_to_payload msg with
  | inr f =>
      match dfail_code f with
      | Some code => (RProtoErr code (Some (err_reply (effective c) code JNull)), c)
      | None => (REscape, c)
      end
  | inl m =>
      let p := match cproto c with Some p => p | None => detect_protocol m end in
      let c := set_reqs c (reqs c) (next_id c) (Some p) in
      match payload_to_item p m with
      | MErrSend code rid => (RProtoErr code (Some (err_reply p code rid)), c)
      | MErrResp code rid => of_rres (receive_response_generated c (inr code) rid false) c
      | MItem (IRequest meth args rid) => (RItems [TRequest meth args rid None] None, c)
      | MItem (INotification meth args) => (RItems [TNotification meth args] None, c)
      | MItem (IResponse v rid) => of_rres (receive_response_generated c (inl v) rid false) c
      | MItem (IBatch payloads) =>
          if forallb is_response_payload payloads then of_rres (receive_response_batch_generated c p payloads false) c
          else let '(items, ps, cnt) := request_batch p payloads [] [] 0 in
               match items, ps with
               | [], _ :: _ => (RProtoErr 0 (Some (batch_text ps)), c)
               | _, _ => (RItems items (Some {| parts := ps; count := cnt; bsize := 0 |}), c)
               end
      end
  end.

(* ================= the reply side: item_send_result (the closure each request of a batch gets) and _send_result ===== *)
Record bregs := {
  b_part : bytes;              (* part / message *)
  b_parts : list bytes;        (* parts *)
  b_size : N;                  (* size *)
}.

Inductive bres :=
| BRunning (r : bregs)
| BReturned (r : bregs) (msg : option bytes)       (* return <message> / return None *)
| BStuck.

Fixpoint beval (r : bregs) (mx : N) (e : bexp) : option N :=
  match e with
  | BLenPart | BLenMessage => Some (N.of_nat (length (b_part r)))
  | BSize => Some (b_size r)
  | BMax => Some mx
  | BConst n => Some n
  | BAdd a b => match beval r mx a, beval r mx b with Some x, Some y => Some (x + y)%N | _, _ => None end
  | BEUnknown => None
  end.

Definition bcond_holds (r : bregs) (mx : N) (cnt : nat) (c : bcond) : option bool :=
  match c with
  | BChainGt a b d =>            (* a > b > d *)
      match beval r mx a, beval r mx b, beval r mx d with
      | Some x, Some y, Some z => Some ((y <? x)%N && (z <? y)%N)
      | _, _, _ => None
      end
  | BPartsComplete => Some (Nat.eqb (length (b_parts r)) cnt)
  | BCUnknown => None
  end.

Fixpoint bexec (fuel : nat) (p : proto) (mx : N) (cnt : nat) (rid : json) (v : respval) (r : bregs) (code : list bstmt) : bres :=
  match fuel with
  | O => BStuck
  | S f =>
      match code with
      | [] => BStuck
      | s :: rest =>
          let continue r' := bexec f p mx cnt rid v r' rest in
          match s with
          | BIf c body =>
              match bcond_holds r mx cnt c with
              | Some true => bexec f p mx cnt rid v r (body ++ rest)
              | Some false => continue r
              | None => BStuck
              end
          | BPartResponse | BMsgResponse =>
              continue {| b_part := encode_payload (respval_payload p v rid); b_parts := b_parts r; b_size := b_size r |}
          | BSizeAdd e =>
              match beval r mx e with
              | Some n => continue {| b_part := b_part r; b_parts := b_parts r; b_size := (b_size r + n)%N |}
              | None => BStuck
              end
          | BPartOversized | BMsgOversized =>
              continue {| b_part := oversized_reply p rid; b_parts := b_parts r; b_size := b_size r |}
          | BAppend => continue {| b_part := b_part r; b_parts := b_parts r ++ [b_part r]; b_size := b_size r |}
          | BReturnBatch => BReturned r (Some (batch_text (b_parts r)))
          | BReturnNone => BReturned r None
          | BReturnMessage => BReturned r (Some (b_part r))
          | BSUnknown => BStuck
          end
      end
  end.

Fixpoint bknown_e (e : bexp) : bool :=
  match e with BEUnknown => false | BAdd a b => bknown_e a && bknown_e b | _ => true end.
Fixpoint bknown (fuel : nat) (code : list bstmt) : bool :=
  match fuel with
  | O => false
  | S f => forallb (fun s => match s with
                             | BIf c body => match c with
                                             | BCUnknown => false
                                             | BChainGt a b d => bknown_e a && bknown_e b && bknown_e d && bknown f body
                                             | BPartsComplete => bknown f body
                                             end
                             | BSizeAdd e => bknown_e e
                             | BSUnknown => false
                             | _ => true
                             end) code
  end.

Definition batch_send_result_generated (c : conn) (p : proto) (ctx : bctx) (rid : json) (v : respval) : bres :=
  bexec 10 p (max_response_size c) (count ctx) rid v {| b_part := []; b_parts := parts ctx; b_size := bsize ctx |}
        item_send_result_code.

Definition send_result_generated (c : conn) (p : proto) (rid : json) (v : respval) : bres :=
  bexec 10 p (max_response_size c) O rid v {| b_part := []; b_parts := []; b_size := 0 |} send_result_code.

(* ================= sending: send_request / send_batch ================= *)
Record qregs := {
  q_conn : conn;
  q_ids : list N;                         (* request_id / ids *)
  q_members : list (text * json * json);  (* the members with their ids *)
  q_msg : option bytes;                   (* message *)
}.
Inductive qres := QRunning (r : qregs) | QFinished (msg : option bytes) (c : conn) | QStuck.

(* [meth], [args]: the request of send_request; [ms]: the members of send_batch *)
Fixpoint qexec (meth : text) (args : json) (ms : list (text * json * bool)) (r : qregs) (code : list qstmt) : qres :=
  match code with
  | [] => QStuck
  | s :: rest =>
      let c := q_conn r in
      match s with
      | QNextId =>
          qexec meth args ms {| q_conn := set_reqs c (reqs c) (next_id c + 1) (cproto c); q_ids := [next_id c];
                                q_members := []; q_msg := None |} rest
      | QEncodeRequest =>
          match q_ids r with
          | [i] => match request_payload (effective c) meth args (JInt (Z.of_N i)) with
                   | Some p => qexec meth args ms {| q_conn := c; q_ids := q_ids r; q_members := q_members r;
                                                    q_msg := Some (encode_payload p) |} rest
                   | None => QFinished None c               (* ProtocolError: the id is consumed, nothing registered *)
                   end
          | _ => QStuck
          end
      | QRegisterReturn =>
          match q_ids r with
          | [i] => QFinished (q_msg r) (set_reqs c (reqs c ++ [KOne i]) (next_id c) (cproto c))
          | _ => QStuck
          end
      | QNextIds =>
          let '(ps, ids, n') := assign_ids ms (next_id c) in
          qexec meth args ms {| q_conn := set_reqs c (reqs c) n' (cproto c); q_ids := ids; q_members := ps; q_msg := None |} rest
      | QEncodeBatch =>
          match batch_message (effective c) (q_members r) with
          | Some b => qexec meth args ms {| q_conn := c; q_ids := q_ids r; q_members := q_members r; q_msg := Some b |} rest
          | None => QFinished None c
          end
      | QRegisterIfIds =>
          qexec meth args ms {| q_conn := set_reqs c (match q_ids r with [] => reqs c | ids => reqs c ++ [KMany ids] end)
                                                   (next_id c) (cproto c);
                                q_ids := q_ids r; q_members := q_members r; q_msg := q_msg r |} rest
      | QReturn => QFinished (q_msg r) c
      | QSUnknown => QStuck
      end
  end.

Definition qknown (code : list qstmt) : bool := forallb (fun s => match s with QSUnknown => false | _ => true end) code.
Definition qinit (c : conn) : qregs := {| q_conn := c; q_ids := []; q_members := []; q_msg := None |}.
Definition send_request_generated (c : conn) (meth : text) (args : json) : qres := qexec meth args [] (qinit c) send_request_code.
Definition send_batch_generated (c : conn) (ms : list (text * json * bool)) : qres := qexec [] JNull ms (qinit c) send_batch_code.

(* ================= receive_message: the dispatcher ================= *)
Record mregs := {
  m_conn : conn;
  m_item : option item;        (* item, request_id: the decoded message *)
  m_err : option (Z * json * bool);   (* the ProtocolError in flight: code, id, "has a response id" *)
}.

Definition parse_failure (c : conn) (f : dfail) : rout * conn :=
  match dfail_code f with
  | Some code => (RProtoErr code (Some (err_reply (effective c) code JNull)), c)
  | None => (REscape, c)
  end.

Definition mcond_holds (r : mregs) (c : mcond) : option bool :=
  match c with
  | MIsAutoDetect => Some (match cproto (m_conn r) with None => true | Some _ => false end)
  | MErrHasResponseId => match m_err r with Some (_, _, b) => Some b | None => None end
  | MIsRequest => match m_item r with Some (IRequest _ _ _) => Some true | Some _ => Some false | None => None end
  | MIsNotification => match m_item r with Some (INotification _ _) => Some true | Some _ => Some false | None => None end
  | MIsResponse => match m_item r with Some (IResponse _ _) => Some true | Some _ => Some false | None => None end
  | MAllResponseShaped => match m_item r with Some (IBatch l) => Some (forallb is_response_payload l) | _ => None end
  | MCUnknown => None
  end.

Inductive mrun := MRunning (r : mregs) | MFinished (o : rout * conn) | MStuck.

Fixpoint mexec (fuel : nat) (msg : bytes) (r : mregs) (code : list mstmt) : mrun :=
  match fuel with
  | O => MStuck
  | S f =>
      match code with
      | [] => MStuck
      | s :: rest =>
          let c := m_conn r in
          match s with
          | MIf cnd yes no =>
              match mcond_holds r cnd with
              | Some true => mexec f msg r (yes ++ rest)
              | Some false => mexec f msg r (no ++ rest)
              | None => MStuck
              end
          | MDetect =>
              (* detect_protocol decodes the text itself: what cannot be decoded is refused right here *)
              match message_to_payload msg with
              | inr fl => MFinished (parse_failure c fl)
              | inl m => mexec f msg {| m_conn := set_reqs c (reqs c) (next_id c) (Some (detect_protocol m));
                                        m_item := m_item r; m_err := m_err r |} rest
              end
          | MTryDecode handler =>
              match message_to_payload msg with
              | inr fl => MFinished (parse_failure c fl)       (* no response id: the handler re-raises *)
              | inl m =>
                  match payload_to_item (effective c) m with
                  | MItem it => mexec f msg {| m_conn := c; m_item := Some it; m_err := None |} rest
                  | MErrSend code rid => mexec f msg {| m_conn := c; m_item := None; m_err := Some (code, rid, false) |} handler
                  | MErrResp code rid => mexec f msg {| m_conn := c; m_item := None; m_err := Some (code, rid, true) |} handler
                  end
              end
          | MReturnResponseOfError =>
              match m_err r with
              | Some (code, rid, _) => MFinished (of_rres (receive_response_generated c (inr code) rid false) c)
              | None => MStuck
              end
          | MReraise =>
              match m_err r with
              | Some (code, rid, _) => MFinished (RProtoErr code (Some (err_reply (effective c) code rid)), c)
              | None => MStuck
              end
          | MBindSendResult => mexec f msg r rest
          | MReturnItem =>
              match m_item r with
              | Some (IRequest meth args rid) => MFinished (RItems [TRequest meth args rid None] None, c)
              | Some (INotification meth args) => MFinished (RItems [TNotification meth args] None, c)
              | _ => MStuck
              end
          | MReturnResponse =>
              match m_item r with
              | Some (IResponse v rid) => MFinished (of_rres (receive_response_generated c (inl v) rid false) c)
              | _ => MStuck
              end
          | MAssertList => match m_item r with Some (IBatch _) => mexec f msg r rest | _ => MFinished (REscape, c) end
          | MReturnResponseBatch =>
              match m_item r with
              | Some (IBatch l) => MFinished (of_rres (receive_response_batch_generated c (effective c) l false) c)
              | _ => MStuck
              end
          | MReturnRequestBatch =>
              match m_item r with
              | Some (IBatch l) =>
                  let '(items, ps, cnt) := request_batch (effective c) l [] [] 0 in
                  MFinished (match items, ps with
                             | [], _ :: _ => (RProtoErr 0 (Some (batch_text ps)), c)
                             | _, _ => (RItems items (Some {| parts := ps; count := cnt; bsize := 0 |}), c)
                             end)
              | _ => MStuck
              end
          | MSUnknown => MStuck
          end
      end
  end.

Fixpoint mknown (fuel : nat) (code : list mstmt) : bool :=
  match fuel with
  | O => false
  | S f => forallb (fun s => match s with
                             | MIf c yes no => match c with MCUnknown => false | _ => mknown f yes && mknown f no end
                             | MTryDecode h => mknown f h
                             | MSUnknown => false
                             | _ => true
                             end) code
  end.

Definition receive_message_generated (c : conn) (msg : bytes) : mrun :=
  mexec 16 msg {| m_conn := c; m_item := None; m_err := None |} receive_message_code.
