(* The transports' send gate as the SOURCE has it: pause_writing, resume_writing, connection_lost and the
   coroutine write() of RSTransport / USTransport are translated statement by statement on every run
   (gen/Gen_transport.v: pause_code, resume_code, lost_code, write_code : list wstmt; transports_agree says
   the two transport classes gave the same four lists).  This file gives those statements a meaning over
   the gate of model/WriteGate.v:
     - asyncio.Event: clear() resets the flag; set() on a reset flag sets it and wakes every waiter (they
       become `released`), on a set flag it does nothing; wait() returns at once when the flag is set,
       otherwise the caller blocks and - when woken - CONTINUES AFTER THE wait() WHATEVER THE FLAG IS BY THEN;
     - a coroutine that blocks is represented by its continuation (the statements still to run).
   proof/WriteGateCodeProofs.v shows the hand-written labels Pause / Resume / Lost / Send / Run of the model
   are exactly the runs of these statement lists.  No proofs here. *)
From AV Require Import Base Gen_transport WriteGate.

Definition set_flag (g : gate) (b : bool) : gate :=
  {| can_send := b; closing := closing g; reading := reading g; waiting := waiting g; released := released g;
     wire := wire g; blind := blind g; done := done g; timed_out := timed_out g |}.

(* asyncio.Event.set() *)
Definition event_set (g : gate) : gate :=
  if can_send g then g
  else {| can_send := true; closing := closing g; reading := reading g; waiting := [];
          released := released g ++ waiting g; wire := wire g; blind := blind g; done := done g;
          timed_out := timed_out g |}.

Definition set_reading (g : gate) (b : bool) : gate :=
  {| can_send := can_send g; closing := closing g; reading := b; waiting := waiting g; released := released g;
     wire := wire g; blind := blind g; done := done g; timed_out := timed_out g |}.

Definition set_closing (g : gate) : gate :=
  {| can_send := can_send g; closing := true; reading := reading g; waiting := waiting g; released := released g;
     wire := wire g; blind := blind g; done := done g; timed_out := timed_out g |}.

(* self._asyncio_transport.write(framed_message) by writer w: the message is on the wire (ghost: `blind` if the
   gate was closed at that moment) *)
Definition put (g : gate) (w : N) : gate :=
  {| can_send := can_send g; closing := closing g; reading := reading g; waiting := waiting g; released := released g;
     wire := wire g ++ [w]; blind := if can_send g then blind g else blind g ++ [w]; done := done g;
     timed_out := timed_out g |}.

(* the coroutine returned *)
Definition finish (g : gate) (w : N) : gate :=
  {| can_send := can_send g; closing := closing g; reading := reading g; waiting := waiting g; released := released g;
     wire := wire g; blind := blind g; done := done g ++ [w]; timed_out := timed_out g |}.

(* the writer blocks in Event.wait() *)
Definition enqueue (g : gate) (w : N) : gate :=
  {| can_send := can_send g; closing := closing g; reading := reading g; waiting := waiting g ++ [w];
     released := released g; wire := wire g; blind := blind g; done := done g; timed_out := timed_out g |}.

Definition wcond_holds (g : gate) (c : wcond) : option bool :=
  match c with
  | WNotClosing => Some (negb (closing g))
  | WNotSet => Some (negb (can_send g))
  | WCUnknown => None
  end.

Inductive wres :=
| WDone (g : gate)                           (* ran to the end *)
| WBlocked (g : gate) (k : list wstmt)       (* blocked in a wait(); k is what runs when woken *)
| WStuck.                                    (* an untranslated statement, or out of fuel *)

(* runs the statements k on behalf of writer w (callbacks have no writer: they contain no WWait / WWrite) *)
Fixpoint wexec (fuel : nat) (g : gate) (w : N) (k : list wstmt) : wres :=
  match fuel with
  | O => WStuck
  | S f =>
      match k with
      | [] => WDone g
      | s :: r =>
          match s with
          | WIf c body =>
              match wcond_holds g c with
              | Some true => wexec f g w (body ++ r)
              | Some false => wexec f g w r
              | None => WStuck
              end
          | WWhile c body =>
              match wcond_holds g c with
              | Some true => wexec f g w (body ++ WWhile c body :: r)
              | Some false => wexec f g w r
              | None => WStuck
              end
          | WClear => wexec f (set_flag g false) w r
          | WSetEvent => wexec f (event_set g) w r
          | WPauseReading => wexec f (set_reading g false) w r
          | WResumeReading => wexec f (set_reading g true) w r
          | WWait => if can_send g then wexec f g w r else WBlocked (enqueue g w) r
          | WFrame => wexec f g w r
          | WWrite => wexec f (put g w) w r
          | WFail => wexec f g w r               (* the framer's reader is failed: no effect on the gate *)
          | WSUnknown => WStuck
          end
      end
  end.

Fixpoint wknown (fuel : nat) (k : list wstmt) : bool :=
  match fuel with
  | O => false
  | S f =>
      forallb (fun s => match s with
                        | WIf c body | WWhile c body =>
                            match c with WCUnknown => false | _ => wknown f body end
                        | WSUnknown => false
                        | _ => true
                        end) k
  end.

Definition FUEL : nat := 12.

(* a callback: runs to the end *)
Definition callback (code : list wstmt) (g : gate) : option gate :=
  match wexec FUEL g 0%N code with WDone g' => Some g' | _ => None end.

(* a call of write(): from the top *)
Definition write_call (g : gate) (w : N) : wres :=
  match wexec FUEL g w write_code with
  | WDone g' => WDone (finish g' w)
  | r => r
  end.

(* a woken writer continues at k *)
Definition write_resume (g : gate) (w : N) (k : list wstmt) : wres :=
  match wexec FUEL g w k with
  | WDone g' => WDone (finish g' w)
  | r => r
  end.

Definition take_released (g : gate) (w : N) : gate :=
  {| can_send := can_send g; closing := closing g; reading := reading g; waiting := waiting g;
     released := removeN w (released g); wire := wire g; blind := blind g; done := done g; timed_out := timed_out g |}.

(* the model's step with every transport label replaced by the run of the translated statements
   (Deadline is the session's send timeout, not transport code: session.py _send_message) *)
Definition resume_point : list wstmt := tl write_code.

Definition wstep_src (g : gate) (l : wlabel) : gate :=
  match l with
  | Pause => match callback pause_code g with Some g' => g' | None => g end
  | Resume => match callback resume_code g with Some g' => g' | None => g end
  | Lost => match callback lost_code (set_closing g) with Some g' => g' | None => g end
  | Send w => if known g w then g
              else match write_call g w with WDone g' | WBlocked g' _ => g' | WStuck => g end
  | Run w => if memN w (released g)
             then match write_resume (take_released g w) w resume_point with WDone g' | WBlocked g' _ => g' | WStuck => g end
             else g
  | Deadline w => wstep g (Deadline w)
  end.

Definition wrun_src (ls : list wlabel) : gate := fold_left wstep_src ls ginit.
