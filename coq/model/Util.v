(* Executable model of aiorpcx.util host / port / protocol validation and address
   print / parse (util.py:39-248).  The three regular expressions are NOT hand-written: their
   ASTs, with every character class expanded under the pattern's own flags by the real re
   engine, are regenerated from the source into gen/Gen_util.v on every run, together with the
   anchor kind and the call style.  No proofs here. *)
From AV Require Import Base Utf8 Rx Gen_util.
Local Open Scope N_scope.

(* the language re.match / re.fullmatch accepts, from body + end anchor + call style *)
Definition any_char : cls := [(0, 1114111)].
Definition accept_lang (call anchor : N) (body : rx) : rx :=
  if call =? 1 then body                                  (* fullmatch *)
  else if anchor =? 1 then Cat body (Alt Eps (Cls [(10, 10)]))   (* $ : also before a final newline *)
  else if anchor =? 2 then body                           (* \Z *)
  else Cat body (Star (Cls any_char)).                    (* match without end anchor: any prefix *)

Definition label_rx : rx := accept_lang label_call label_anchor label_body.
Definition numeric_rx : rx := accept_lang numeric_call numeric_anchor numeric_body.
Definition protocol_rx : rx := accept_lang protocol_call protocol_anchor protocol_body.

(* ---- is_valid_hostname (util.py:47-60) ---- *)
Fixpoint split_on (sep : N) (s : text) (cur : text) : list text :=
  match s with
  | [] => [rev cur]
  | c :: r => if c =? sep then rev cur :: split_on sep r [] else split_on sep r (c :: cur)
  end.
Definition strip_dot (s : text) : text :=
  match rev s with 46 :: r => rev r | _ => s end.

Definition is_valid_hostname (s : text) : bool :=
  let s := strip_dot s in
  if (length s =? 0)%nat || (253 <? length s)%nat then false
  else let labels := split_on 46 s [] in
       if matchb numeric_rx (last labels []) then false
       else forallb (matchb label_rx) labels.

(* ---- validate_protocol (util.py:93-97): None = ValueError, Some = protocol.lower() ---- *)
Definition lower (c : N) : N := if (65 <=? c) && (c <=? 90) then c + 32 else c.
Definition validate_protocol (s : text) : option text :=
  if matchb protocol_rx s then Some (map lower s) else None.

(* ---- validate_port (util.py:80-90) ---- *)
Inductive port_in := PInt (z : Z) | PStr (s : text).
Definition in_ranges (l : list (N * N)) (c : N) : bool := existsb (fun r => (fst r <=? c) && (c <=? snd r)) l.
Definition dec_value (c : N) : option N :=
  match find (fun b => (b <=? c) && (c <? b + 10)) decimal_block_starts with
  | Some b => Some (c - b)
  | None => None
  end.
Definition isdigit (c : N) : bool :=
  match dec_value c with Some _ => true | None => in_ranges other_digit_ranges c end.
(* int(s) for a string of isdigit characters: None = ValueError *)
Definition int_of_digits (s : text) : option Z :=
  if (int_max_str_digits <? length s)%nat then None
  else fold_left (fun acc c => match acc, dec_value c with
                               | Some a, Some d => Some (a * 10 + Z.of_N d)%Z
                               | _, _ => None end) s (Some 0%Z).
Definition in_port_range (z : Z) : bool := (0 <? z)%Z && (z <=? 65535)%Z.
Definition validate_port (p : port_in) : option Z :=
  match p with
  | PInt z => if in_port_range z then Some z else None
  | PStr s =>
      match s with
      | [] => None
      | _ => if forallb isdigit s
             then match int_of_digits s with
                  | Some z => if in_port_range z then Some z else None
                  | None => None
                  end
             else None
      end
  end.

(* ---- _split_address (util.py:106-117) ---- *)
Fixpoint find_char (c : N) (s : text) (i : nat) : option nat :=
  match s with [] => None | x :: r => if x =? c then Some i else find_char c r (S i) end.
Fixpoint rfind_char (c : N) (s : text) (i : nat) (acc : option nat) : option nat :=
  match s with [] => acc | x :: r => rfind_char c r (S i) (if x =? c then Some i else acc) end.
Definition bracket_end (s : text) : option nat :=
  if split_uses_rfind then rfind_char 93 s 0 None else find_char 93 s 0.
Definition split_address (s : text) : text * text :=
  let plain := match find_char 58 s 0 with
               | None => (s, [])
               | Some i => (firstn i s, skipn (S i) s)
               end in
  match s with
  | 91 :: _ =>
      match bracket_end s with
      | Some e =>
          if (length s =? S e)%nat then (firstn (e - 1) (skipn 1 s), [])
          else if nth (S e) s 0 =? 58 then (firstn (e - 1) (skipn 1 s), skipn (e + 2) s)
          else plain
      | None => plain
      end
  | _ => plain
  end.
