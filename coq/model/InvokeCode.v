(* jsonrpc.handler_invocation as REGENERATED from the source (gen/Gen_jsonrpc.v: invocation_code) and an
   interpreter for it over the signature information of model/Invoke.v.  proof/InvokeCodeProofs.v shows that the
   generated decisions accept and refuse exactly what the model's handler_invocation does. *)
From AV Require Import Base Gen_jsonrpc Invoke.

Record hctx := { h_handler : option info; h_call : call; h_missing : list N; h_excess : list N }.

Definition htest (x : hctx) (c : hcond) : option bool :=
  match c, h_handler x with
  | HHandlerNone, h => Some (match h with None => true | Some _ => false end)
  | HArgsPositional, _ => Some (match h_call x with ByPos _ => true | ByName _ => false end)
  | HTooFew, Some i => Some (match h_call x with ByPos n => n <? min_args i | ByName _ => false end)
  | HTooMany, Some i => Some (match h_call x, max_args i with ByPos n, Some m => m <? n | _, _ => false end)
  | HRequiredKwonly, Some i => Some (match required_kwonly i with [] => false | _ => true end)
  | HNoNames, Some i => Some (match other_names i with NoNames => true | _ => false end)
  | HMissing, _ => Some (match h_missing x with [] => false | _ => true end)
  | HOtherNotAny, Some i => Some (match other_names i with AnyName => false | _ => true end)
  | HExcess, _ => Some (match h_excess x with [] => false | _ => true end)
  | _, _ => None
  end.

Inductive hres := HFall (x : hctx) | HDone (r : option Z) | HBad.

Definition given_of (c : call) : list N := match c with ByName g => g | ByPos _ => [] end.

Fixpoint hrun (fuel : nat) (x : hctx) (ss : list hstmt) : hres :=
  match fuel with
  | O => HBad
  | S f =>
      match ss with
      | [] => HFall x
      | s :: rest =>
          match s with
          | HIf c body =>
              match htest x c with
              | Some true => match hrun f x body with HFall x' => hrun f x' rest | other => other end
              | Some false => hrun f x rest
              | None => HBad
              end
          | HBind | HGetInfo => hrun f x rest
          | HSetMissing =>
              match h_handler x with
              | Some i => hrun f {| h_handler := h_handler x; h_call := h_call x;
                                    h_missing := filter (fun r => negb (mem r (given_of (h_call x)))) (required_names i);
                                    h_excess := h_excess x |} rest
              | None => HBad
              end
          | HSetExcess1 =>
              match h_handler x with
              | Some i => hrun f {| h_handler := h_handler x; h_call := h_call x; h_missing := h_missing x;
                                    h_excess := filter (fun g => negb (mem g (required_names i))) (given_of (h_call x)) |} rest
              | None => HBad
              end
          | HSetExcess2 =>
              match h_handler x with
              | Some i => hrun f {| h_handler := h_handler x; h_call := h_call x; h_missing := h_missing x;
                                    h_excess := filter (fun g => negb (mem g (match other_names i with Names l => l | _ => [] end)))
                                                       (h_excess x) |} rest
              | None => HBad
              end
          | HReturnPositional | HReturnNamed => HDone None
          | HRaise HInvalidArgs => HDone (Some INVALID_ARGS)
          | HRaise HMethodNotFound => HDone (Some METHOD_NOT_FOUND)
          | HSUnknown => HBad
          end
      end
  end.

Definition invocation_generated (handler : option sig) (c : call) : hres :=
  hrun 30 {| h_handler := option_map signature_info handler; h_call := c; h_missing := []; h_excess := [] |} invocation_code.
