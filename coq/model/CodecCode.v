(* The decoding functions of the protocol classes as the SOURCE has them: _message_id, _validate_message,
   _request_args, response_value of JSONRPCv1 / JSONRPCv2 / JSONRPCLoose and JSONRPCv1._best_effort_error are translated
   statement by statement on every run (gen/Gen_jsonrpc.v: v1_message_id_code ... best_effort_code : list vstmt).
   This file gives the statements a meaning over JSON values, i.e. over what json.loads returns:
     'k' in x, x['k'], x.get('k'), x.get('k', [])   are defined for objects only (anything else is stuck: the callers
                                                     hand over objects - see the hypotheses of the theorems);
     isinstance(x, int) holds for booleans too; Number = int, bool, float; None is JSON null;
     x != 's'  is false only for the string s itself.
   proof/CodecCodeProofs.v shows that the runs are the model's message_id / validate / request_args / response_value /
   best_effort_error for every payload.  No proofs here. *)
From AV Require Import Base Utf8 Json Gen_jsonrpc Codec.
Local Open Scope Z_scope.

Record venv := { e_args : json; e_request_id : json; e_result : json; e_error : json; e_code : json; e_msg : json; e_version : json }.
Definition venv0 : venv := {| e_args := JNull; e_request_id := JNull; e_result := JNull; e_error := JNull; e_code := JNull; e_msg := JNull; e_version := JNull |}.
Definition vlookup (e : venv) (n : vname) : json :=
  match n with NArgs => e_args e | NRequestId => e_request_id e | NResult => e_result e | NError => e_error e
             | NCode => e_code e | NMsg => e_msg e | NVersion => e_version e end.
Definition vset (e : venv) (n : vname) (v : json) : venv :=
  match n with
  | NArgs => {| e_args := v; e_request_id := e_request_id e; e_result := e_result e; e_error := e_error e; e_code := e_code e; e_msg := e_msg e; e_version := e_version e |}
  | NRequestId => {| e_args := e_args e; e_request_id := v; e_result := e_result e; e_error := e_error e; e_code := e_code e; e_msg := e_msg e; e_version := e_version e |}
  | NResult => {| e_args := e_args e; e_request_id := e_request_id e; e_result := v; e_error := e_error e; e_code := e_code e; e_msg := e_msg e; e_version := e_version e |}
  | NError => {| e_args := e_args e; e_request_id := e_request_id e; e_result := e_result e; e_error := v; e_code := e_code e; e_msg := e_msg e; e_version := e_version e |}
  | NCode => {| e_args := e_args e; e_request_id := e_request_id e; e_result := e_result e; e_error := e_error e; e_code := v; e_msg := e_msg e; e_version := e_version e |}
  | NMsg => {| e_args := e_args e; e_request_id := e_request_id e; e_result := e_result e; e_error := e_error e; e_code := e_code e; e_msg := v; e_version := e_version e |}
  | NVersion => {| e_args := e_args e; e_request_id := e_request_id e; e_result := e_result e; e_error := e_error e; e_code := e_code e; e_msg := e_msg e; e_version := v |}
  end.

Fixpoint veval (p : json) (e : venv) (x : vexp) : option json :=
  match x with
  | VParam => Some p
  | VVar n => Some (vlookup e n)
  | VNone => Some JNull
  | VStr s => Some (JStr s)
  | VInt z => Some (JInt z)
  | VIndex o k => match veval p e o with
                  | Some (JObj l) => obj_get k l            (* KeyError when absent: stuck *)
                  | _ => None
                  end
  | VGet o k => match veval p e o with
                | Some (JObj l) => Some (match obj_get k l with Some v => v | None => JNull end)
                | _ => None
                end
  | VGetOrEmptyList o k => match veval p e o with
                           | Some (JObj l) => Some (match obj_get k l with Some v => v | None => JArr [] end)
                           | _ => None
                           end
  | VEUnknown => None
  end.

Definition has_type (v : json) (t : vtype) : option bool :=
  match t with
  | TDict => Some (is_dict v)
  | TList => Some (is_list v)
  | TStr => Some (is_str v)
  | TInt => Some (is_int v)
  | TNumber => Some (match v with JInt _ | JBool _ | JFloat _ => true | _ => false end)
  | TNone => Some (is_null v)
  | TUnknown => None
  end.

Fixpoint any_type (v : json) (ts : list vtype) : option bool :=
  match ts with
  | [] => Some false
  | t :: r => match has_type v t, any_type v r with
              | Some a, Some b => Some (a || b)
              | _, _ => None
              end
  end.

Fixpoint vcond_holds (p : json) (e : venv) (req : bool) (c : vcond) : option bool :=
  match c with
  | CNot a => option_map negb (vcond_holds p e req a)
  | CAnd a b => match vcond_holds p e req a with
                | Some true => vcond_holds p e req b
                | x => x
                end
  | COr a b => match vcond_holds p e req a with
               | Some false => vcond_holds p e req b
               | x => x
               end
  | CHas k o => match veval p e o with Some (JObj l) => Some (obj_has k l) | _ => None end
  | CIsNone o => option_map is_null (veval p e o)
  | CNeStr o s => match veval p e o with
                  | Some (JStr s') => Some (negb (text_eqb s' s))
                  | Some _ => Some true
                  | None => None
                  end
  | CIsInst o ts => match veval p e o with Some v => any_type v ts | None => None end
  | CRequireId => Some req
  | CUnknown => None
  end.

Inductive vres :=
| VRet (j : json)                 (* return <value> *)
| VRetError (code : json) (msg : text)   (* return RPCError(code, message) *)
| VRetBestEffort (j : json)       (* return _best_effort_error(<value>) *)
| VRetProto (g : gproto)          (* return <protocol class> *)
| VRetNone                        (* return None / fell off the end *)
| VRaised (code : Z)              (* raise ProtocolError *)
| VStuck.

Fixpoint vexec (fuel : nat) (p : json) (req : bool) (e : venv) (code : list vstmt) : vres :=
  match fuel with
  | O => VStuck
  | S f =>
      match code with
      | [] => VRetNone
      | s :: rest =>
          match s with
          | SAssign n x => match veval p e x with Some v => vexec f p req (vset e n v) rest | None => VStuck end
          | SIf c yes no =>
              match vcond_holds p e req c with
              | Some true => vexec f p req e (yes ++ rest)
              | Some false => vexec f p req e (no ++ rest)
              | None => VStuck
              end
          | SRaise c => VRaised c
          | SReturnNone => VRetNone
          | SReturn x => match veval p e x with Some v => VRet v | None => VStuck end
          | SReturnError c m => match veval p e c, veval p e m with
                                | Some cv, Some (JStr s) => VRetError cv s
                                | _, _ => VStuck
                                end
          | SReturnBestEffort x => match veval p e x with Some v => VRetBestEffort v | None => VStuck end
          | SReturnProto g => VRetProto g
          | SSUnknown => VStuck
          end
      end
  end.

Fixpoint vknown_e (x : vexp) : bool :=
  match x with VEUnknown => false | VIndex o _ | VGet o _ | VGetOrEmptyList o _ => vknown_e o | _ => true end.
Fixpoint vknown_c (c : vcond) : bool :=
  match c with
  | CNot a => vknown_c a
  | CAnd a b | COr a b => vknown_c a && vknown_c b
  | CHas _ o | CIsNone o | CNeStr o _ => vknown_e o
  | CIsInst o ts => vknown_e o && forallb (fun t => match t with TUnknown => false | _ => true end) ts
  | CRequireId => true
  | CUnknown => false
  end.
Fixpoint vknown (fuel : nat) (code : list vstmt) : bool :=
  match fuel with
  | O => false
  | S f => forallb (fun s => match s with
                             | SAssign _ x | SReturn x | SReturnBestEffort x => vknown_e x
                             | SIf c yes no => vknown_c c && vknown f yes && vknown f no
                             | SReturnError c m => vknown_e c && vknown_e m
                             | SSUnknown => false
                             | _ => true
                             end) code
  end.

Definition run_code (code : list vstmt) (p : json) (req : bool) : vres := vexec 40 p req venv0 code.

Definition code_of_message_id (pr : proto) := match pr with V1 => v1_message_id_code | V2 => v2_message_id_code | Loose => loose_message_id_code end.
Definition code_of_validate (pr : proto) := match pr with V1 => v1_validate_code | V2 => v2_validate_code | Loose => loose_validate_code end.
Definition code_of_request_args (pr : proto) := match pr with V1 => v1_request_args_code | V2 => v2_request_args_code | Loose => loose_request_args_code end.
Definition code_of_response_value (pr : proto) := match pr with V1 => v1_response_value_code | V2 => v2_response_value_code | Loose => loose_response_value_code end.

(* _best_effort_error as translated *)
Definition best_effort_generated (e : json) : option respval :=
  match run_code best_effort_code e false with
  | VRetError c m => Some (RError c m)
  | _ => None
  end.

(* response_value as translated: a value, an RPCError, the best-effort reading of an error member, or a refusal *)
Definition response_value_generated (pr : proto) (m : json) : option (respval + Z) :=
  match run_code (code_of_response_value pr) m false with
  | VRet v => Some (inl (RResult v))
  | VRetError c s => Some (inl (RError c s))
  | VRetBestEffort v => match best_effort_generated v with Some r => Some (inl r) | None => None end
  | VRaised c => Some (inr c)
  | _ => None
  end.

(* ================= _process_request / _process_response / message_to_item ================= *)
Record pstate := {
  ps_id : json;                 (* request_id *)
  ps_method : json;             (* method *)
  ps_item : option item;        (* item *)
  ps_err : option Z;            (* code of the ProtocolError caught *)
}.
Definition pstate0 : pstate := {| ps_id := JNull; ps_method := JNull; ps_item := None; ps_err := None |}.

Inductive prun :=
| PCont (st : pstate)                   (* fell off the end of a block *)
| PRaisedP (c : Z) (st : pstate)        (* a ProtocolError is propagating *)
| PFinal (r : mres)                     (* return / raise out of the function *)
| PStuckP.

Definition pcnd_holds (pr : proto) (m : json) (st : pstate) (c : pcnd) : option bool :=
  match c with
  | PIdIsNone => Some (is_null (ps_id st))
  | PPayloadIsDict => Some (is_dict m)
  | PHasMethod => match m with JObj l => Some (obj_has k_method l) | _ => None end
  | PIsListAndBatchesAllowed => Some (is_list m && allow_batches pr)
  | PPayloadEmpty => match m with JArr [] => Some true | JArr _ => Some false | _ => None end
  | PCUnknown => None
  end.

(* Request(method, args) / Notification(method, args): the constructor checks the method, then the arguments *)
Definition make_single (st : pstate) (pr : proto) (m : json) (notification : bool) : prun :=
  match run_code (code_of_request_args pr) m false with
  | VRet a =>
      match ps_method st with
      | JStr meth =>
          if is_list a || is_dict a
          then PCont {| ps_id := ps_id st; ps_method := ps_method st;
                        ps_item := Some (if notification then INotification meth a else IRequest meth a (ps_id st));
                        ps_err := ps_err st |}
          else PRaisedP INVALID_ARGS st
      | _ => PRaisedP METHOD_NOT_FOUND st
      end
  | VRaised c => PRaisedP c st
  | _ => PStuckP
  end.

Fixpoint pexec (fuel : nat) (pr : proto) (m : json) (preq presp : option mres) (st : pstate) (code : list pstm) : prun :=
  match fuel with
  | O => PStuckP
  | S f =>
      match code with
      | [] => PCont st
      | s :: rest =>
          let continue st' := pexec f pr m preq presp st' rest in
          match s with
          | PIf c yes no =>
              match pcnd_holds pr m st c with
              | Some true => pexec f pr m preq presp st (yes ++ rest)
              | Some false => pexec f pr m preq presp st (no ++ rest)
              | None => PStuckP
              end
          | PTry body handler =>
              match pexec f pr m preq presp st body with
              | PCont st' => continue st'
              | PRaisedP c st' =>
                  pexec f pr m preq presp {| ps_id := ps_id st'; ps_method := ps_method st'; ps_item := ps_item st'; ps_err := Some c |}
                        (handler ++ rest)
              | x => x
              end
          | PInitId => continue {| ps_id := JNull; ps_method := ps_method st; ps_item := ps_item st; ps_err := ps_err st |}
          | PCallMessageId req =>
              match run_code (code_of_message_id pr) m req with
              | VRet i => continue {| ps_id := i; ps_method := ps_method st; ps_item := ps_item st; ps_err := ps_err st |}
              | VRetNone => continue {| ps_id := JNull; ps_method := ps_method st; ps_item := ps_item st; ps_err := ps_err st |}
              | VRaised c => PRaisedP c st
              | _ => PStuckP
              end
          | PCallValidate =>
              match run_code (code_of_validate pr) m false with
              | VRetNone => continue st
              | VRaised c => PRaisedP c st
              | _ => PStuckP
              end
          | PGetMethod =>
              match m with
              | JObj l => continue {| ps_id := ps_id st; ps_method := match obj_get k_method l with Some v => v | None => JNull end;
                                      ps_item := ps_item st; ps_err := ps_err st |}
              | _ => PStuckP
              end
          | PMakeNotification => match make_single st pr m true with PCont st' => continue st' | x => x end
          | PMakeRequest => match make_single st pr m false with PCont st' => continue st' | x => x end
          | PReturnItem => match ps_item st with Some it => PFinal (MItem it) | None => PStuckP end
          | PReturnResponse =>
              match response_value_generated pr m with
              | Some (inl v) => PFinal (MItem (IResponse v (ps_id st)))
              | Some (inr c) => PRaisedP c st
              | None => PStuckP
              end
          | PKeepCodeMessage => continue st
          | PRaiseError send =>
              match ps_err st with
              | Some c => PFinal (if send then MErrSend c (ps_id st) else MErrResp c (ps_id st))
              | None => PStuckP
              end
          | PDecodePayload => continue st
          | PReturnProcessRequest => match preq with Some r => PFinal r | None => PStuckP end
          | PReturnProcessResponse => match presp with Some r => PFinal r | None => PStuckP end
          | PReturnBatch => match m with JArr l => PFinal (MItem (IBatch l)) | _ => PStuckP end
          | PRaiseInvalidRequest => PFinal (MErrSend INVALID_REQUEST JNull)
          | PSUnknown => PStuckP
          end
      end
  end.

Definition final_of (r : prun) : option mres := match r with PFinal x => Some x | _ => None end.

Definition process_request_generated (pr : proto) (m : json) : option mres :=
  final_of (pexec 30 pr m None None pstate0 process_request_code).
Definition process_response_generated (pr : proto) (m : json) : option mres :=
  final_of (pexec 30 pr m None None pstate0 process_response_code).
(* message_to_item once the text has been decoded to the payload m *)
Definition payload_to_item_generated (pr : proto) (m : json) : option mres :=
  final_of (pexec 30 pr m (process_request_generated pr m) (process_response_generated pr m) pstate0 message_to_item_code).

Fixpoint pknown (fuel : nat) (code : list pstm) : bool :=
  match fuel with
  | O => false
  | S f => forallb (fun s => match s with
                             | PIf c yes no => match c with PCUnknown => false | _ => pknown f yes && pknown f no end
                             | PTry b h => pknown f b && pknown f h
                             | PSUnknown => false
                             | _ => true
                             end) code
  end.


(* ================= JSONRPCAutoDetect.detect_protocol ================= *)
Definition proto_of (g : gproto) : proto := match g with GV1 => V1 | GV2 => V2 | GLoose => Loose end.

(* the nested function protocol_for_payload as translated *)
Definition protocol_for_payload_generated (m : json) : option proto :=
  match run_code protocol_for_payload_code m false with
  | VRetProto g => Some (proto_of g)
  | _ => None
  end.

Inductive drun := DCont (parts : list proto) | DFinal (p : proto) | DStuckD.

Fixpoint all_protos (l : list json) : option (list proto) :=
  match l with
  | [] => Some []
  | x :: r => match protocol_for_payload_generated x, all_protos r with
              | Some a, Some b => Some (a :: b)
              | _, _ => None
              end
  end.

(* [parts]: the set of protocols seen, kept as the list of per-member answers (a set: only membership and "all the same"
   are asked of it) *)
Fixpoint dexec (fuel : nat) (m : json) (parts : list proto) (code : list dstm) : drun :=
  match fuel with
  | O => DStuckD
  | S f =>
      match code with
      | [] => DCont parts
      | s :: rest =>
          match s with
          | DDecode | DDefineProtocolFor => dexec f m parts rest
          | DIfList body => match m with JArr _ => dexec f m parts (body ++ rest) | _ => dexec f m parts rest end
          | DCollectParts =>
              match m with
              | JArr l => match all_protos l with Some ps => dexec f m ps rest | None => DStuckD end
              | _ => DStuckD
              end
          | DReturnIfSingle =>                       (* len(parts) == 1: not empty, and every member gave the same answer *)
              match parts with
              | q :: r => if forallb (proto_eqb q) r then DFinal q else dexec f m parts rest
              | [] => dexec f m parts rest
              end
          | DReturnFirstPresent gs =>
              match find (fun g => existsb (proto_eqb (proto_of g)) parts) gs with
              | Some g => DFinal (proto_of g)
              | None => dexec f m parts rest
              end
          | DReturn g => DFinal (proto_of g)
          | DReturnForMain => match protocol_for_payload_generated m with Some p => DFinal p | None => DStuckD end
          | DSUnknown => DStuckD
          end
      end
  end.

Definition detect_protocol_generated (m : json) : option proto :=
  match dexec 16 m [] detect_protocol_code with DFinal p => Some p | _ => None end.

Fixpoint dknown (fuel : nat) (code : list dstm) : bool :=
  match fuel with
  | O => false
  | S f => forallb (fun s => match s with DIfList b => dknown f b | DSUnknown => false | _ => true end) code
  end.

(* ================= the payload builders: request_payload / response_payload / error_payload ================= *)
Record binput := { b_meth : text; b_args : json; b_rid : json; b_result : json; b_ecode : json; b_emsg : text }.

Fixpoint bval_eval (i : binput) (v : bval) : option json :=
  match v with
  | BStrLit s => Some (JStr s)
  | BNoneLit => Some JNull
  | BMethod => Some (JStr (b_meth i))
  | BArgs => Some (b_args i)
  | BId => Some (b_rid i)
  | BResult => Some (b_result i)
  | BErrCode => Some (b_ecode i)
  | BErrMessage => Some (JStr (b_emsg i))
  | BDictLit items =>
      option_map JObj
        ((fix go (l : list (list N * bval)) : option (list (text * json)) :=
            match l with
            | [] => Some []
            | (k, x) :: r => match bval_eval i x, go r with
                             | Some a, Some b => Some ((k, a) :: b)      (* a dict display with distinct keys (checked by bval_known) *)
                             | _, _ => None
                             end
            end) items)
  | BVUnknown => None
  end.

Definition bcnd_holds (i : binput) (c : bcnd) : option bool :=
  match c with
  | BIdNotNone => Some (negb (is_null (b_rid i)))
  | BArgsIsDict => Some (is_dict (b_args i))
  | BArgsTruthyOrEmptyDict =>            (* request.args or request.args == {} ; args is a list or a dict *)
      match b_args i with
      | JArr [] => Some false
      | JArr _ | JObj _ => Some true
      | _ => None
      end
  | BCndUnknown => None
  end.

(* Some None: ProtocolError (invalid arguments); Some (Some j): the payload; None: stuck *)
Fixpoint bsexec (i : binput) (payload : option (list (text * json))) (code : list bst) : option (option json) :=
  match code with
  | [] => None
  | s :: rest =>
      match s with
      | BAssignPayload v => match bval_eval i v with Some (JObj l) => bsexec i (Some l) rest | _ => None end
      | BIfSet c k v =>
          match bcnd_holds i c, payload with
          | Some true, Some l => match bval_eval i v with Some x => bsexec i (Some (obj_set k x l)) rest | None => None end
          | Some false, _ => bsexec i payload rest
          | _, _ => None
          end
      | BIfRaiseInvalidArgs c => match bcnd_holds i c with Some true => Some None | Some false => bsexec i payload rest | None => None end
      | BReturnPayload => match payload with Some l => Some (Some (JObj l)) | None => None end
      | BReturnDict v => match bval_eval i v with Some j => Some (Some j) | None => None end
      | BSUnk => None
      end
  end.

Definition code_of_request_payload (pr : proto) := match pr with V1 => v1_request_payload_code | V2 => v2_request_payload_code | Loose => loose_request_payload_code end.
Definition code_of_response_payload (pr : proto) := match pr with V1 => v1_response_payload_code | V2 => v2_response_payload_code | Loose => loose_response_payload_code end.
Definition code_of_error_payload (pr : proto) := match pr with V1 => v1_error_payload_code | V2 => v2_error_payload_code | Loose => loose_error_payload_code end.

Fixpoint bval_known (v : bval) : bool :=
  match v with
  | BVUnknown => false
  | BDictLit items =>
      (fix go (l : list (list N * bval)) := match l with [] => true | (_, x) :: r => bval_known x && go r end) items &&
      (fix nd (l : list (list N * bval)) := match l with
                                            | [] => true
                                            | (k, _) :: r => negb (existsb (fun kx => list_eqb N.eqb k (fst kx)) r) && nd r
                                            end) items
  | _ => true
  end.
Definition bst_known (code : list bst) : bool :=
  forallb (fun s => match s with
                    | BAssignPayload v | BReturnDict v => bval_known v
                    | BIfSet c _ v => match c with BCndUnknown => false | _ => bval_known v end
                    | BIfRaiseInvalidArgs c => match c with BCndUnknown => false | _ => true end
                    | BReturnPayload => true
                    | BSUnk => false
                    end) code.
