(* Executable LTS of the life cycle of a session: RSTransport / USTransport (connection_lost,
   process_messages, close, abort; rawsocket.py:58-126, unixsocket.py), SessionBase
   (_process_messages, process_messages, close; session.py:222-270) and
   RPCSession.connection_lost (session.py:539-540).  It is COARSER than a loop handle: the
   TaskGroup that holds the message loop and the handler tasks, and the timeout block inside
   close(), appear through what their own theorems give (props/C09.v: the exit of the group
   finishes only when every member has finished; props/C11.v: a block under timeout_after(T) is
   left at T at the latest).  A label is an event of the real run as the harness observes it from
   outside (wrapped methods, task and future states).  No proofs here.

   The code path, for reference:
     connection_lost(exc)            -> framer.fail(ConnectionLostError): the message loop's next
                                        receive raises;  _can_send.set()
     _process_messages               -> try: loop  finally: await self.connection_lost()   (the hook;
                                        RPCSession: connection.cancel_pending_requests())
     process_messages                -> async with group: spawn(loop); async for task in group: task.result()
                                        (a finished member that raised makes the body raise: __aexit__ cancels
                                        the remaining members, waits for them, then join())
     RSTransport.process_messages    -> finally: _closed_event.set()
     close(force_after)              -> transport.close(); wait for _closed_event under timeout_after;
                                        on TaskTimeout: abort(); wait for _closed_event *)
From AV Require Import Base.

Inductive link_st := Open | Closing | Lost.
Inductive task_st := TRun | TReq | TDone.           (* running / cancellation requested / finished *)
Inductive wait_st := WPend | WCanc | WRes | WLate.  (* WLate: registered after the hook ran *)
Inductive grp_st := GBody | GCancelling | GExited.
Inductive close_st := CWaiting | CForcing | CReturned.

Record life := {
  link : link_st;
  aborted : bool;                    (* abort() was called on the asyncio transport *)
  lp : task_st;                      (* the message-loop task (_process_messages) *)
  hook : nat;                        (* invocations of the connection_lost hook *)
  grp : grp_st;                      (* the TaskGroup block of process_messages *)
  handlers : list (N * (task_st * bool));   (* handler tasks; the flag: its result() raises in the body of
                                               process_messages - it ended with an exception, or cancelled although
                                               nobody had requested it *)
  waiters : list (N * wait_st);      (* callers waiting for a response *)
  closed : bool;                     (* _closed_event *)
  closers : list (N * (close_st * option N));   (* close() calls; owner = the handler it runs in *)
}.

Definition linit : life :=
  {| link := Open; aborted := false; lp := TRun; hook := 0; grp := GBody; handlers := [];
     waiters := []; closed := false; closers := [] |}.

Inductive llabel :=
| LArrive (h : N)                    (* the message loop spawns the handler task of a request *)
| LWaiter (w : N)                    (* a request / batch is registered and its caller waits *)
| LResolve (w : N)                   (* the peer's response resolves it *)
| LGiveUp (w : N)                    (* the caller stops waiting by itself (its own timeout, its own cancellation) *)
| LCloseCall (c : N) (owner : option N)    (* close(force_after): asyncio transport.close() *)
| LAbort                             (* abort(): asyncio transport.abort() *)
| LLost                              (* asyncio calls connection_lost *)
| LLoopEnd                           (* the message loop ends; its finally runs the hook *)
| LGroupCancel                       (* the body of process_messages raises: members are cancelled *)
| LCancelReq (h : N)                 (* some other cancellation of a handler (a timeout block) *)
| LHandlerDone (h : N) (raised : bool)
| LGroupExit                         (* the group block is left; _closed_event is set *)
| LCloseReturn (c : N)
| LForce (c : N).                    (* close()'s force_after expires: abort() *)

Fixpoint lookup {A} (k : N) (l : list (N * A)) : option A :=
  match l with [] => None | (x, v) :: r => if N.eqb x k then Some v else lookup k r end.
Fixpoint update {A} (k : N) (v : A) (l : list (N * A)) : list (N * A) :=
  match l with [] => [] | (x, v0) :: r => if N.eqb x k then (x, v) :: r else (x, v0) :: update k v r end.

Definition handler_done (x : N * (task_st * bool)) : bool :=
  match fst (snd x) with TDone => true | _ => false end.
Definition handler_raised (x : N * (task_st * bool)) : bool :=
  match snd x with (TDone, true) => true | _ => false end.

Definition set_link (s : life) (l : link_st) : life :=
  {| link := l; aborted := aborted s; lp := lp s; hook := hook s; grp := grp s; handlers := handlers s;
     waiters := waiters s; closed := closed s; closers := closers s |}.
Definition set_aborted (s : life) : life :=
  {| link := link s; aborted := true; lp := lp s; hook := hook s; grp := grp s; handlers := handlers s;
     waiters := waiters s; closed := closed s; closers := closers s |}.
Definition set_handlers (s : life) (hs : list (N * (task_st * bool))) : life :=
  {| link := link s; aborted := aborted s; lp := lp s; hook := hook s; grp := grp s; handlers := hs;
     waiters := waiters s; closed := closed s; closers := closers s |}.
Definition set_waiters (s : life) (ws : list (N * wait_st)) : life :=
  {| link := link s; aborted := aborted s; lp := lp s; hook := hook s; grp := grp s; handlers := handlers s;
     waiters := ws; closed := closed s; closers := closers s |}.
Definition set_closers (s : life) (cs : list (N * (close_st * option N))) : life :=
  {| link := link s; aborted := aborted s; lp := lp s; hook := hook s; grp := grp s; handlers := handlers s;
     waiters := waiters s; closed := closed s; closers := cs |}.

Definition request_cancel (x : N * (task_st * bool)) : N * (task_st * bool) :=
  match snd x with (TRun, r) => (fst x, (TReq, r)) | _ => x end.
Definition cancel_waiter (x : N * wait_st) : N * wait_st :=
  match snd x with WPend => (fst x, WCanc) | _ => x end.

(* None: the real run did something the life cycle does not allow *)
Definition lstep (s : life) (l : llabel) : option life :=
  match l with
  | LArrive h =>
      match lp s, grp s, lookup h (handlers s) with
      | TRun, GBody, None => Some (set_handlers s (handlers s ++ [(h, (TRun, false))]))
      | _, _, _ => None
      end
  | LWaiter w =>
      match lookup w (waiters s) with
      | None => Some (set_waiters s (waiters s ++ [(w, if (hook s =? 0)%nat then WPend else WLate)]))
      | Some _ => None
      end
  | LResolve w =>
      match lookup w (waiters s) with
      | Some WPend | Some WLate => Some (set_waiters s (update w WRes (waiters s)))
      | _ => None
      end
  | LGiveUp w =>
      match lookup w (waiters s) with
      | Some WPend | Some WLate => Some (set_waiters s (update w WCanc (waiters s)))
      | _ => None
      end
  | LCloseCall c owner =>
      match lookup c (closers s) with
      | None => let s1 := set_closers s (closers s ++ [(c, (CWaiting, owner))]) in
                Some (match link s with Open => set_link s1 Closing | _ => s1 end)
      | Some _ => None
      end
  | LAbort => Some (set_aborted s)
  | LLost => match link s with Lost => None | _ => Some (set_link s Lost) end
  | LLoopEnd =>
      (* ConnectionLostError from the framer; or the loop's own reply could not be sent for
         max_send_delay: it aborted the connection and TaskTimeout ends it; or the cancellation by the group *)
      let ok := match lp s with
                | TRun => match link s with Lost => true | _ => aborted s end
                | TReq => true
                | TDone => false end in
      if ok then
        Some {| link := link s; aborted := aborted s; lp := TDone; hook := S (hook s); grp := grp s;
                handlers := handlers s; waiters := map cancel_waiter (waiters s); closed := closed s;
                closers := closers s |}
      else None
  | LGroupCancel =>
      let cause := match lp s with TDone => true | _ => false end || existsb handler_raised (handlers s) in
      match grp s with
      | GBody =>
          if cause then
            Some {| link := link s; aborted := aborted s; lp := match lp s with TRun => TReq | x => x end;
                    hook := hook s; grp := GCancelling; handlers := map request_cancel (handlers s);
                    waiters := waiters s; closed := closed s; closers := closers s |}
          else None
      | _ => None
      end
  | LCancelReq h =>
      match lookup h (handlers s) with
      | Some (TRun, r) => Some (set_handlers s (update h (TReq, r) (handlers s)))
      | Some (TReq, r) => Some s
      | _ => None
      end
  | LHandlerDone h raised =>
      match lookup h (handlers s) with
      | Some (TRun, _) | Some (TReq, _) => Some (set_handlers s (update h (TDone, raised) (handlers s)))
      | _ => None
      end
  | LGroupExit =>
      (* also straight from the body when nothing is left to cancel: the loop task's result() raises,
         cancel_remaining() and join() find every member finished *)
      match grp s, lp s with
      | GExited, _ => None
      | _, TDone =>
          if forallb handler_done (handlers s) then
            Some {| link := link s; aborted := aborted s; lp := lp s; hook := hook s; grp := GExited;
                    handlers := handlers s; waiters := waiters s; closed := true; closers := closers s |}
          else None
      | _, _ => None
      end
  | LCloseReturn c =>
      match lookup c (closers s) with
      | Some (CReturned, _) | None => None
      | Some (_, owner) =>
          (* it returns once _closed_event is set; a close() inside a handler ends with that handler *)
          let owner_gone := match owner with
                            | Some h => match lookup h (handlers s) with Some (TRun, _) => false | _ => true end
                            | None => false end in
          if closed s || owner_gone then Some (set_closers s (update c (CReturned, owner) (closers s))) else None
      end
  | LForce c =>
      match lookup c (closers s) with
      | Some (CWaiting, owner) =>
          if closed s then None else Some (set_aborted (set_closers s (update c (CForcing, owner) (closers s))))
      | _ => None
      end
  end.

Fixpoint lrun (s : life) (ls : list llabel) : option life :=
  match ls with
  | [] => Some s
  | l :: r => match lstep s l with Some s' => lrun s' r | None => None end
  end.

(* the labels that need nothing from the peer or the application: the system's own progress,
   including cancelled handlers finishing *)
Definition internal (s : life) (l : llabel) : bool :=
  match l with
  | LLoopEnd | LGroupCancel | LGroupExit | LCloseReturn _ => true
  | LHandlerDone h _ => match lookup h (handlers s) with Some (TReq, _) => true | _ => false end
  | _ => false
  end.

Definition waiter_open (x : N * wait_st) : bool := match snd x with WPend => true | _ => false end.
Definition closer_open (x : N * (close_st * option N)) : bool :=
  match fst (snd x) with CReturned => false | _ => true end.

(* nothing is left: the loop and every handler finished, the hook ran once, no caller waits,
   _closed_event is set and every close() returned *)
Definition clean (s : life) : bool :=
  match lp s with TDone => true | _ => false end && (hook s =? 1)%nat &&
  match grp s with GExited => true | _ => false end && closed s &&
  forallb handler_done (handlers s) && negb (existsb waiter_open (waiters s)) &&
  negb (existsb closer_open (closers s)).

(* ---- correspondence: acceptance of an observed run ---- *)
Record lsnap := {
  ls_lost : bool; ls_loop_done : bool; ls_hook : nat; ls_closed : bool;
  ls_handlers_done : list N; ls_waiters_pending : list N; ls_closers_returned : list N }.
Definition memN (x : N) (l : list N) : bool := existsb (N.eqb x) l.
Definition set_eqb (a b : list N) : bool := forallb (fun x => memN x b) a && forallb (fun x => memN x a) b.
Definition lsnap_ok (s : life) (o : lsnap) : bool :=
  Bool.eqb (match link s with Lost => true | _ => false end) (ls_lost o) &&
  Bool.eqb (match lp s with TDone => true | _ => false end) (ls_loop_done o) &&
  Nat.eqb (hook s) (ls_hook o) && Bool.eqb (closed s) (ls_closed o) &&
  set_eqb (map fst (filter handler_done (handlers s))) (ls_handlers_done o) &&
  set_eqb (map fst (filter waiter_open (waiters s))) (ls_waiters_pending o) &&
  set_eqb (map fst (filter (fun x => negb (closer_open x)) (closers s))) (ls_closers_returned o).

(* a run is a list of ticks: the labels observed during one loop handle, then the snapshot.
   Result: None = accepted; Some i = first tick that is not.  At the end of a run whose link was
   lost and in which the loop went idle, no internal label may still be enabled and the state must be
   clean. *)
Fixpoint lfirstbad (s : life) (tr : list (list llabel * lsnap)) (i : nat) : option nat * life :=
  match tr with
  | [] => (None, s)
  | (ls, o) :: r =>
      match lrun s ls with
      | Some s' => if lsnap_ok s' o then lfirstbad s' r (S i) else (Some i, s')
      | None => (Some i, s)
      end
  end.
Definition life_ok (x : list (list llabel * lsnap) * bool) : bool :=
  let '(tr, idle_at_end) := x in
  match lfirstbad linit tr 0 with
  | (Some _, _) => false
  | (None, s) => if idle_at_end && match link s with Lost => true | _ => false end then clean s else true
  end.
