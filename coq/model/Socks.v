(* Executable model of aiorpcx.socks: SOCKS4 / SOCKS4a / SOCKS5 clients (socks.py:71-276) and
   SOCKSProxy._handshake (socks.py:296-312).  No proofs here.
   Literals, code tables and the accepted address types come from gen/Gen_socks.v. *)
From AV Require Import Base Gen_socks.

Inductive dest := DV4 (a : bytes) | DV6 (a : bytes) | DHost (h : bytes).
Inductive proto := P4 | P4a | P5.
Record auth := { a_user : bytes; a_pass : bytes }.      (* username.encode(), password.encode() *)
Record cfg := { c_proto : proto; c_dest : dest; c_port : N; c_auth : option auth }.

Inductive kind := ProtoErr | Failure.   (* SOCKSProtocolError | SOCKSFailure *)

(* ---- constructors: None = accepted, Some k = raises ---- *)
(* socks.py:113-115, 158-161 *)
Definition check_remote_host (c : cfg) : option kind :=
  match c_proto c, c_dest c with
  | P4, DV4 _ => None
  | P4, _ => Some ProtoErr
  | P4a, DV6 _ => Some ProtoErr
  | P4a, _ => None
  | P5, _ => None
  end.

(* socks.py:199-212 *)
Definition auth_len_ok (l : bytes) : bool := (0 <? length l) && (length l <? s5_auth_len_bound).
Definition authentication (a : option auth) : option kind :=
  match a with
  | Some a => if auth_len_ok (a_user a) then if auth_len_ok (a_pass a) then None else Some ProtoErr
              else Some ProtoErr
  | None => None
  end.
Definition auth_bytes (a : option auth) : bytes :=
  match a with
  | Some a => s5_auth_version :: N.of_nat (length (a_user a)) :: a_user a ++
              N.of_nat (length (a_pass a)) :: a_pass a
  | None => []
  end.
Definition auth_methods (a : option auth) : bytes :=
  match a with Some _ => s5_methods_auth | None => s5_methods_noauth end.

(* socks.py:116-118 : the NUL-terminated user id must not contain a NUL *)
Definition has_nul (l : bytes) : bool := existsb (fun b => N.eqb b 0) l.
Definition check_user_id (a : option auth) : option kind :=
  match a with
  | Some a => if has_nul (a_user a) then Some ProtoErr else None
  | None => None
  end.

Definition construct (c : cfg) : option kind :=
  match check_remote_host c with
  | Some k => Some k
  | None => match c_proto c with
            | P5 => authentication (c_auth c)
            | _ => check_user_id (c_auth c)
            end
  end.

(* socks.py:185-197 *)
Definition destination_bytes (d : dest) (port : N) : bytes :=
  match d with
  | DV4 a => s5_atyp_v4 :: a
  | DV6 a => s5_atyp_v6 :: a
  | DHost h => s5_atyp_host :: N.of_nat (length h) :: h
  end ++ be_bytes 2 port.

(* socks.py:117-137 *)
Definition start4 (c : cfg) : bytes :=
  let '(ip, host) := match c_dest c with
                     | DV4 a => (a, [])
                     | DHost h => (s4a_marker_ip, h ++ [0%N])
                     | DV6 a => (a, [])            (* unreachable: rejected by the constructor *)
                     end in
  let user := match c_auth c with Some a => a_user a | None => [] end in
  s4_request_prefix ++ be_bytes 2 (c_port c) ++ ip ++ user ++ [0%N] ++ host.

(* socks.py:214-217 *)
Definition start5 (c : cfg) : bytes :=
  let ms := auth_methods (c_auth c) in s5_version :: N.of_nat (length ms) :: ms.

Definition request_connection (c : cfg) : bytes :=
  s5_connect_prefix ++ destination_bytes (c_dest c) (c_port c).

(* ---- the state machine ---- *)
Inductive state := Start | S4First | S5First | S5Auth | S5Conn | S5Rest (n : nat).

Inductive action :=
| Raise (k : kind)
| Send (msg : bytes) (next : state)
| Continue (next : state)       (* _connect_response: set state, call next_message() again *)
| Finish.                       (* returns None: handshake complete *)

(* how many bytes the state's _read() asks for *)
Definition need (st : state) : nat :=
  match st with
  | Start => 0 | S4First => 8 | S5First => 2 | S5Auth => 2 | S5Conn => 5
  | S5Rest n => n + 2
  end.

Definition nth0 (l : bytes) (i : nat) : N := nth i l 0%N.
Definition mem (x : N) (l : bytes) : bool := existsb (N.eqb x) l.

Definition decide (c : cfg) (st : state) (d : bytes) : action :=
  match st with
  | Start => match c_proto c with
             | P5 => Send (start5 c) S5First
             | _ => Send (start4 c) S4First
             end
  | S4First =>                                   (* socks.py:139-152 *)
      if negb (N.eqb (nth0 d 0) 0) then Raise ProtoErr
      else if negb (N.eqb (nth0 d 1) s4_granted) then Raise Failure
      else Finish
  | S5First =>                                   (* socks.py:219-231 *)
      if negb (N.eqb (nth0 d 0) s5_version) then Raise ProtoErr
      else if negb (mem (nth0 d 1) (auth_methods (c_auth c))) then Raise Failure
      else if N.eqb (nth0 d 1) 2 then Send (auth_bytes (c_auth c)) S5Auth
      else Send (request_connection c) S5Conn
  | S5Auth =>                                    (* socks.py:233-242 *)
      if negb (N.eqb (nth0 d 0) s5_auth_version) then Raise ProtoErr
      else if negb (N.eqb (nth0 d 1) 0) then Raise Failure
      else Send (request_connection c) S5Conn
  | S5Conn =>                                    (* socks.py:249-265 *)
      if negb (N.eqb (nth0 d 0) s5_version) || negb (N.eqb (nth0 d 2) 0)
         || negb (mem (nth0 d 3) s5_atyps)
      then Raise ProtoErr
      else if negb (N.eqb (nth0 d 1) 0) then Raise Failure
      else Continue (S5Rest (if N.eqb (nth0 d 3) 1 then 3
                             else if N.eqb (nth0 d 3) 3 then N.to_nat (nth0 d 4)
                             else 15))
  | S5Rest _ => Finish                           (* socks.py:267-269 *)
  end.

(* ---- SOCKSProxy._handshake over a reply stream, the socket cutting it as it likes ---- *)
Inductive hresult := Done | Raised (k : kind) | Eof | OutOfFuel.
Record outcome := { o_res : hresult; o_sent : list bytes; o_left : bytes }.

(* Repeated NeedData(need - len(buffer)) / sock_recv(count) until the buffer holds [nd]
   bytes.  [ks] = how many bytes each successive sock_recv returns at most (0 = as many as
   asked); a socket returns between 1 and count bytes, or b'' at end of stream. *)
Fixpoint recv_until (fuel : nat) (nd : nat) (buf stream : bytes) (ks : list nat)
  : option (bytes * bytes * list nat) :=
  if nd <=? length buf then Some (buf, stream, ks)
  else match fuel with
       | O => None
       | S f =>
           let count := nd - length buf in
           match stream with
           | [] => None                               (* EOF received *)
           | _ => let k := match ks with
                           | k0 :: _ => if (k0 =? 0) || (count <? k0) then count else k0
                           | [] => count end in
                  recv_until f nd (buf ++ firstn k stream) (skipn k stream) (tl ks)
           end
       end.

Fixpoint hs (fuel : nat) (c : cfg) (st : state) (buf stream : bytes) (ks : list nat)
            (sent : list bytes) : outcome :=
  match fuel with
  | O => {| o_res := OutOfFuel; o_sent := sent; o_left := stream |}
  | S f =>
      match recv_until (length stream) (need st) buf stream ks with
      | None => {| o_res := Eof; o_sent := sent; o_left := [] |}
      | Some (buf1, stream1, ks1) =>
          let d := firstn (need st) buf1 in
          let buf2 := skipn (need st) buf1 in
          match decide c st d with
          | Raise k => {| o_res := Raised k; o_sent := sent; o_left := stream1 |}
          | Send m nx => hs f c nx buf2 stream1 ks1 (sent ++ [m])
          | Continue nx => hs f c nx buf2 stream1 ks1 sent
          | Finish => {| o_res := Done; o_sent := sent; o_left := stream1 |}
          end
      end
  end.

Definition handshake (c : cfg) (stream : bytes) (ks : list nat) : outcome :=
  hs 8 c Start [] stream ks [].

(* ---- the same without a socket: exact reads on the stream (the reference) ---- *)
Fixpoint spec (fuel : nat) (c : cfg) (st : state) (stream : bytes) (sent : list bytes)
  : outcome :=
  match fuel with
  | O => {| o_res := OutOfFuel; o_sent := sent; o_left := stream |}
  | S f =>
      if length stream <? need st
      then {| o_res := Eof; o_sent := sent; o_left := [] |}
      else
        let d := firstn (need st) stream in
        let rest := skipn (need st) stream in
        match decide c st d with
        | Raise k => {| o_res := Raised k; o_sent := sent; o_left := rest |}
        | Send m nx => spec f c nx rest (sent ++ [m])
        | Continue nx => spec f c nx rest sent
        | Finish => {| o_res := Done; o_sent := sent; o_left := rest |}
        end
  end.
Definition handshake_spec (c : cfg) (stream : bytes) : outcome := spec 8 c Start stream [].

(* ---- server side: independent parsers of what the client must send (C16) ---- *)
(* split at the first NUL: (field, rest after the NUL) *)
Fixpoint until_nul (l : bytes) : option (bytes * bytes) :=
  match l with
  | [] => None
  | b :: r => if N.eqb b 0 then Some ([], r)
              else match until_nul r with Some (f, r') => Some (b :: f, r') | None => None end
  end.

Record req4 := { r4_cmd : N; r4_port : N; r4_ip : bytes; r4_user : bytes; r4_host : option bytes }.
(* SOCKS4 / SOCKS4a request as a server reads it: VN=4, CD, DSTPORT, DSTIP, USERID NUL,
   and, when DSTIP = 0.0.0.x (x <> 0), a NUL-terminated host name *)
Definition srv_parse4 (m : bytes) : option req4 :=
  match m with
  | 4%N :: cd :: p1 :: p0 :: i1 :: i2 :: i3 :: i4 :: r =>
      match until_nul r with
      | None => None
      | Some (user, r') =>
          let ip := [i1; i2; i3; i4] in
          if N.eqb i1 0 && N.eqb i2 0 && N.eqb i3 0 && negb (N.eqb i4 0) then
            match until_nul r' with
            | Some (host, []) => Some {| r4_cmd := cd; r4_port := be_value [p1; p0]; r4_ip := ip;
                                         r4_user := user; r4_host := Some host |}
            | _ => None
            end
          else match r' with
               | [] => Some {| r4_cmd := cd; r4_port := be_value [p1; p0]; r4_ip := ip;
                               r4_user := user; r4_host := None |}
               | _ => None
               end
      end
  | _ => None
  end.

(* RFC 1928 greeting: VER=5, NMETHODS, METHODS *)
Definition srv_parse_greeting (m : bytes) : option bytes :=
  match m with
  | 5%N :: n :: ms => if N.eqb n (N.of_nat (length ms)) then Some ms else None
  | _ => None
  end.

(* RFC 1929: VER=1, ULEN, UNAME, PLEN, PASSWD *)
Definition srv_parse_auth (m : bytes) : option (bytes * bytes) :=
  match m with
  | 1%N :: ul :: r =>
      let u := firstn (N.to_nat ul) r in
      match skipn (N.to_nat ul) r with
      | pl :: r' => if (length u =? N.to_nat ul) && (length r' =? N.to_nat pl) && (0 <? N.to_nat ul) && (0 <? N.to_nat pl)
                    then Some (u, r') else None
      | [] => None
      end
  | _ => None
  end.

(* RFC 1928 request: VER=5, CMD, RSV=0, ATYP, DST.ADDR, DST.PORT *)
Definition srv_parse_connect (m : bytes) : option (N * dest * N) :=
  match m with
  | 5%N :: cmd :: 0%N :: atyp :: r =>
      let fin (d : dest) (r' : bytes) :=
        match r' with [p1; p0] => Some (cmd, d, be_value [p1; p0]) | _ => None end in
      if N.eqb atyp 1 then (if 4 <=? length r then fin (DV4 (firstn 4 r)) (skipn 4 r) else None)
      else if N.eqb atyp 4 then (if 16 <=? length r then fin (DV6 (firstn 16 r)) (skipn 16 r) else None)
      else if N.eqb atyp 3 then
        match r with
        | l :: r' => if N.to_nat l <=? length r' then fin (DHost (firstn (N.to_nat l) r')) (skipn (N.to_nat l) r')
                     else None
        | [] => None
        end
      else None
  | _ => None
  end.

(* ---- correspondence helpers ---- *)
Definition kind_eqb (a b : kind) : bool :=
  match a, b with ProtoErr, ProtoErr | Failure, Failure => true | _, _ => false end.
(* exception class as the caller sees it: EOF is reported as SOCKSProtocolError too *)
Definition hclass (r : hresult) : N :=
  match r with Done => 0 | Raised Failure => 1 | Raised ProtoErr | Eof => 2 | OutOfFuel => 3 end%N.
Definition hresult_eqb (a b : hresult) : bool := N.eqb (hclass a) (hclass b).
Inductive c16case :=
| CConstruct (c : cfg) (obs : option kind)                                 (* constructor outcome *)
| CHandshake (c : cfg) (stream : bytes) (ks : list nat)
             (res : hresult) (sent : list bytes) (lft : bytes).          (* observed *)
Definition socks_ok (x : c16case) : bool :=
  match x with
  | CConstruct c obs => option_eqb kind_eqb (construct c) obs
  | CHandshake c stream ks res sent lft =>
      let o := handshake c stream ks in
      hresult_eqb (o_res o) res && list_eqb bytes_eqb (o_sent o) sent && bytes_eqb (o_left o) lft
  end.
