(* Executable big-step model of aiorpcx.curio timeouts for ONE task (curio.py:318-487):
   _set_new_deadline / _set_task_deadline / _unset_task_deadline / TimeoutAfter.__aenter__ /
   __aexit__ and the four forms timeout_after / timeout_at / ignore_after / ignore_at (the
   coroutine forms are the context-manager forms around `await coro`).  Time is an integer
   number of ticks.  No proofs here.

   Task state: clock, the task's _deadlines stack, _timed_out, the armed timer
   (_deadline_handle not yet fired or cancelled), and the instant of the (single) external
   task.cancel(), if any and not yet delivered. *)
From AV Require Import Base Gen_curio.
Local Open Scope Z_scope.

Inductive exn := ECancelled | ETaskTimeout | ETimeoutCancellation | EUncaught | EUser.
Definition exn_eqb (a b : exn) : bool :=
  match a, b with
  | ECancelled, ECancelled | ETaskTimeout, ETaskTimeout | ETimeoutCancellation, ETimeoutCancellation
  | EUncaught, EUncaught | EUser, EUser => true
  | _, _ => false
  end.
Inductive res := Ok | Exc (e : exn).

Inductive kind := KTimeout | KIgnore.
Inductive prog :=
| Await (d : Z)                                  (* sleep / join / IO completing after d > 0 ticks *)
| Seq (p q : prog)
| Block (k : kind) (abs : bool) (t : Z) (body : prog)
| Try (body : prog) (catch : list exn) (handler : prog)   (* except <exact classes>: handler *)
| Raise (e : exn)
| Skip.

Record st := {
  now : Z; deadlines : list Z; timed_out : option Z; armed : option Z; ext : option Z;
  log : list (res * bool);       (* per block, in exit order: what left the block, .expired *)
}.

Definition minl (l : list Z) : option Z :=
  match l with [] => None | x :: r => Some (fold_left Z.min r x) end.

Definition upd (s : st) (n : Z) (ds : list Z) (tod ar ex : option Z) : st :=
  {| now := n; deadlines := ds; timed_out := tod; armed := ar; ext := ex; log := log s |}.
Definition add_log (s : st) (r : res) (e : bool) : st :=
  {| now := now s; deadlines := deadlines s; timed_out := timed_out s; armed := armed s;
     ext := ext s; log := log s ++ [(r, e)] |}.

(* curio.py:333-343 _set_task_deadline *)
Definition opt_in (o : option Z) (l : list Z) : bool :=
  match o with None => false | Some x => existsb (Z.eqb x) l end.
(* the record of the last timeout that fired is forgotten on entry - unless it is that of an enclosing block
   that is still active (its cancellation is being delivered: this block was entered while it unwinds) *)
Definition set_deadline (s : st) (d : Z) : st :=
  let a := match minl (deadlines s) with
           | Some m => if d <? m then Some d else armed s
           | None => Some d end in
  upd s (now s) (deadlines s ++ [d]) (if opt_in (timed_out s) (deadlines s) then timed_out s else None) a (ext s).

(* curio.py:346-354 _unset_task_deadline : (timed_out_deadline, uncaught, state) *)
Definition unset_deadline (s : st) : option Z * bool * st :=
  let tod := timed_out s in
  let uncaught := negb (opt_in tod (deadlines s)) in
  let ds := removelast (deadlines s) in
  (tod, uncaught, upd s (now s) ds (timed_out s) (minl ds) (ext s)).

(* the exception classes __aexit__ reacts to: extracted from the running code *)
Definition is_cancelish (e : exn) : bool :=
  match e with
  | ECancelled => aexit_handles_Cancelled
  | ETaskTimeout => aexit_handles_TaskTimeout
  | ETimeoutCancellation => aexit_handles_TimeoutCancellation
  | EUncaught => aexit_handles_Uncaught
  | EUser => false
  end.

(* curio.py:380-396 TimeoutAfter.__aexit__ *)
Definition aexit (k : kind) (deadline : Z) (r : res) (s : st) : res * st :=
  let '(tod, uncaught, s') := unset_deadline s in
  match r with
  | Ok => (Ok, add_log s' Ok false)
  | Exc e =>
      if negb (is_cancelish e) then (r, add_log s' r false) else
      match tod with
      | Some d =>
          if d =? deadline then
            match k with
            | KIgnore => (Ok, add_log s' Ok true)
            | KTimeout => (Exc ETaskTimeout, add_log s' (Exc ETaskTimeout) true)
            end
          else if uncaught then
            (* a recorded timeout that no active block owns: it is an unhandled inner
               timeout only if what arrives is that TaskTimeout; otherwise the record is
               stale (the inner timeout was handled) and the exception is not ours *)
            if exn_eqb e ETaskTimeout then (Exc EUncaught, add_log s' (Exc EUncaught) false)
            else (r, add_log s' r false)
          else if exn_eqb e ETimeoutCancellation then (r, add_log s' r false)
          else (Exc ETimeoutCancellation, add_log s' (Exc ETimeoutCancellation) false)
      | None => (r, add_log s' r false)
      end
  end.

(* one suspension of the task: woken by completion, by the armed timer (a timer armed in the
   past fires at once), or by the external cancel - the earliest wins; at equal instants the
   timer is taken first, then the external cancel (ties are outside the correspondence) *)
Definition await (d : Z) (s : st) : res * st :=
  let t_done := now s + d in
  let t_timer := match armed s with Some a => Some (Z.max a (now s)) | None => None end in
  let t_ext := match ext s with Some e => if now s <=? e then Some e else None | None => None end in
  let timer_first := match t_timer with
                     | Some a => (a <=? t_done) && match t_ext with Some e => a <=? e | None => true end
                     | None => false end in
  let ext_first := match t_ext with Some e => e <=? t_done | None => false end in
  if timer_first then
    match t_timer with
    | Some a => (Exc ECancelled, upd s a (deadlines s) (armed s) None (ext s))
    | None => (Ok, s) end
  else if ext_first then
    match t_ext with
    | Some e => (Exc ECancelled, upd s e (deadlines s) (timed_out s) (armed s) None)
    | None => (Ok, s) end
  else (Ok, upd s t_done (deadlines s) (timed_out s) (armed s) (ext s)).

Fixpoint eval (p : prog) (s : st) : res * st :=
  match p with
  | Await d => await d s
  | Skip => (Ok, s)
  | Raise e => (Exc e, s)
  | Seq p q => match eval p s with (Ok, s') => eval q s' | r => r end
  | Try b c h => match eval b s with
                 | (Exc e, s') => if existsb (exn_eqb e) c then eval h s' else (Exc e, s')
                 | r => r end
  | Block k ab t body =>
      let deadline := if ab then t else now s + t in
      let s1 := set_deadline s deadline in
      let '(r, s2) := eval body s1 in
      aexit k deadline r s2
  end.

Definition init (e : option Z) : st :=
  {| now := 0; deadlines := []; timed_out := None; armed := None; ext := e; log := [] |}.

(* ---- correspondence ---- *)
Definition res_eqb (a b : res) : bool :=
  match a, b with Ok, Ok => true | Exc x, Exc y => exn_eqb x y | _, _ => false end.
(* (program, external cancel instant, observed: final outcome, per-block log, final time,
    whether a follow-on sleep completed undisturbed (only meaningful when the outcome is Ok)) *)
Definition c11_ok (x : prog * option Z * res * list (res * bool) * Z * bool) : bool :=
  let '(p, e, r, lg, t, tail_ok) := x in
  let '(r', s') := eval p (init e) in
  res_eqb r r' &&
  list_eqb (fun a b => res_eqb (fst a) (fst b) && Bool.eqb (snd a) (snd b)) lg (log s') &&
  (t =? now s') &&
  match r' with
  | Ok => Bool.eqb tail_ok (match fst (await 400 s') with Ok => true | _ => false end)
  | _ => true
  end.
