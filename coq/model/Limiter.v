(* Executable LTS of aiorpcx.session.Concurrency (session.py:57-89) on top of CPython 3.12's
   asyncio.Semaphore (locked / acquire / release / _wake_up_next).  No proofs here.

   A label is one atomic thing that happens between two await points:
     Start w      worker w's task runs its first step: `async with concurrency:`
     Wake w       a queued waiter's task resumes (its future was resolved or cancelled)
     Exit w       a holder leaves the block (__aexit__)
     Cancel w     task.cancel() of a queued waiter
     SetTarget n  set_target(n)
   Labels that are not enabled are no-ops, so the theorems quantify over every label list. *)
From AV Require Import Base.
Local Open Scope Z_scope.

Inductive wst := Pending | Woken | WCancelled.
Inductive label := Start (w : N) | Wake (w : N) | Exit (w : N) | Cancel (w : N) | SetTarget (n : Z).

Record lstate := {
  target  : Z;                   (* self._target *)
  semv    : Z;                   (* self._sem_value *)
  value   : Z;                   (* self._semaphore._value *)
  waiters : list (N * wst);      (* self._semaphore._waiters, FIFO *)
  holders : list N;              (* workers inside the block *)
  nhold   : Z;                   (* ghost: admissions minus exits = number of workers inside *)
  cpend   : list N;              (* woken waiters whose task has a cancellation pending *)
  refused : list N;              (* workers that got ExcessiveSessionCostError *)
  admitted : list N;             (* ghost: admission order *)
  maxt    : Z;                   (* ghost: largest target ever in force *)
}.

Definition init (t : Z) : lstate :=
  {| target := t; semv := t; value := t; waiters := []; holders := []; nhold := 0; cpend := [];
     refused := []; admitted := []; maxt := t |}.

Definition memN (x : N) (l : list N) : bool := existsb (N.eqb x) l.
Definition removeN (x : N) (l : list N) : list N := filter (fun y => negb (N.eqb x y)) l.

Definition not_cancelled (s : wst) : bool := match s with WCancelled => false | _ => true end.

(* Semaphore.locked() *)
Definition locked (st : lstate) : bool :=
  (value st =? 0) || existsb (fun x => not_cancelled (snd x)) (waiters st).

(* mark the first Pending waiter Woken; None if there is none *)
Fixpoint wake_first (l : list (N * wst)) : option (list (N * wst)) :=
  match l with
  | [] => None
  | (w, Pending) :: r => Some ((w, Woken) :: r)
  | x :: r => match wake_first r with Some r' => Some (x :: r') | None => None end
  end.

(* field setters *)
Definition upd_sem (st : lstate) (v : Z) (ws : list (N * wst)) : lstate :=
  {| target := target st; semv := semv st; value := v; waiters := ws; holders := holders st;
     nhold := nhold st; cpend := cpend st; refused := refused st; admitted := admitted st;
     maxt := maxt st |}.
Definition set_semv (st : lstate) (x : Z) : lstate :=
  {| target := target st; semv := x; value := value st; waiters := waiters st; holders := holders st;
     nhold := nhold st; cpend := cpend st; refused := refused st; admitted := admitted st;
     maxt := maxt st |}.
Definition set_holders (st : lstate) (h : list N) (n : Z) (adm : list N) : lstate :=
  {| target := target st; semv := semv st; value := value st; waiters := waiters st; holders := h;
     nhold := n; cpend := cpend st; refused := refused st; admitted := adm; maxt := maxt st |}.
Definition set_cpend (st : lstate) (c : list N) : lstate :=
  {| target := target st; semv := semv st; value := value st; waiters := waiters st;
     holders := holders st; nhold := nhold st; cpend := c; refused := refused st;
     admitted := admitted st; maxt := maxt st |}.
Definition set_refused (st : lstate) (r : list N) : lstate :=
  {| target := target st; semv := semv st; value := value st; waiters := waiters st;
     holders := holders st; nhold := nhold st; cpend := cpend st; refused := r;
     admitted := admitted st; maxt := maxt st |}.
Definition set_target (st : lstate) (n : Z) : lstate :=
  {| target := n; semv := semv st; value := value st; waiters := waiters st;
     holders := holders st; nhold := nhold st; cpend := cpend st; refused := refused st;
     admitted := admitted st; maxt := Z.max (maxt st) n |}.

(* Semaphore._wake_up_next *)
Definition wake_next (st : lstate) : lstate :=
  match wake_first (waiters st) with
  | Some ws => upd_sem st (value st - 1) ws
  | None => st
  end.
(* Semaphore.release *)
Definition release (st : lstate) : lstate := wake_next (upd_sem st (value st + 1) (waiters st)).

(* while self._sem_value < self._target: self._sem_value += 1; self._semaphore.release() *)
Fixpoint release_n (n : nat) (st : lstate) : lstate :=
  match n with
  | O => st
  | S n' => release_n n' (release (set_semv st (semv st + 1)))
  end.

(* Concurrency._retarget_semaphore, then the worker is inside the block *)
Definition retarget (st : lstate) (w : N) : lstate :=
  if target st <=? 0 then set_refused st (w :: refused st)
  else
    let st1 := release_n (Z.to_nat (target st - semv st)) st in
    set_holders st1 (w :: holders st1) (nhold st1 + 1) (admitted st1 ++ [w]).

Fixpoint find_waiter (w : N) (l : list (N * wst)) : option wst :=
  match l with
  | [] => None
  | (x, s) :: r => if N.eqb x w then Some s else find_waiter w r
  end.
Definition remove_waiter (w : N) (l : list (N * wst)) : list (N * wst) :=
  filter (fun x => negb (N.eqb (fst x) w)) l.
Fixpoint set_waiter (w : N) (s : wst) (l : list (N * wst)) : list (N * wst) :=
  match l with
  | [] => []
  | (x, s0) :: r => if N.eqb x w then (x, s) :: r else (x, s0) :: set_waiter w s r
  end.

Definition known (st : lstate) (w : N) : bool :=
  memN w (holders st) || memN w (refused st) || memN w (admitted st) ||
  existsb (fun x => N.eqb (fst x) w) (waiters st).

Definition step (st : lstate) (l : label) : lstate :=
  match l with
  | Start w =>
      if known st w then st
      else if target st <=? 0 then set_refused st (w :: refused st)     (* __aenter__ refuses at once *)
      else if locked st
      then upd_sem st (value st) (waiters st ++ [(w, Pending)])         (* acquire: queue a future *)
      else retarget (upd_sem st (value st - 1) (waiters st)) w          (* acquire without waiting *)
  | Wake w =>
      match find_waiter w (waiters st) with
      | Some WCancelled =>                                              (* fut cancelled: task ends *)
          upd_sem st (value st) (remove_waiter w (waiters st))
      | Some Woken =>
          let st1 := upd_sem st (value st) (remove_waiter w (waiters st)) in
          if memN w (cpend st) then
            (* CancelledError at `await fut` although fut has a result: give the permit back *)
            let st2 := release st1 in set_cpend st2 (removeN w (cpend st2))
          else
            retarget (if 0 <? value st1 then wake_next st1 else st1) w
      | _ => st
      end
  | Exit w =>
      if memN w (holders st) then
        let st1 := set_holders st (removeN w (holders st)) (nhold st - 1) (admitted st) in
        if target st1 <? semv st1 then set_semv st1 (semv st1 - 1) else release st1
      else st
  | Cancel w =>
      match find_waiter w (waiters st) with
      | Some Pending => upd_sem st (value st) (set_waiter w WCancelled (waiters st))
      | Some Woken => if memN w (cpend st) then st else set_cpend st (w :: cpend st)
      | _ => st
      end
  | SetTarget n => set_target st n
  end.

Definition run (t : Z) (ls : list label) : lstate := fold_left step ls (init t).

(* ---- correspondence: a trace = labels each followed by a snapshot of the real object ---- *)
Record snap := { s_semv : Z; s_value : Z; s_holders : list N; s_waiters : list (N * wst); s_refused : list N }.
Definition wst_eqb (a b : wst) : bool :=
  match a, b with Pending, Pending | Woken, Woken | WCancelled, WCancelled => true | _, _ => false end.
Definition sorted_eq (a b : list N) : bool :=
  (length a =? length b)%nat && forallb (fun x => memN x b) a && forallb (fun x => memN x a) b.
Definition snap_ok (st : lstate) (s : snap) : bool :=
  (semv st =? s_semv s) && (value st =? s_value s) && sorted_eq (holders st) (s_holders s) &&
  list_eqb (fun x y => N.eqb (fst x) (fst y) && wst_eqb (snd x) (snd y)) (waiters st) (s_waiters s) &&
  sorted_eq (refused st) (s_refused s).
Fixpoint trace_ok (st : lstate) (tr : list (label * snap)) : bool :=
  match tr with
  | [] => true
  | (l, s) :: r => let st' := step st l in snap_ok st' s && trace_ok st' r
  end.
Definition c13_ok (x : Z * list (label * snap)) : bool := trace_ok (init (fst x)) (snd x).
