(* BitcoinFramer._receive_header and BinaryFramer.receive_message as the SOURCE has them: translated statement by
   statement on every run (gen/Gen_framing.v: btc_header_code, btc_message_code : list fstmt).  This file gives the
   statements a meaning over the byte queue of model/Bitcoin.v (an await on the queue that cannot be satisfied
   blocks: the whole call is then [Starved] and nothing is consumed); proof/BitcoinCodeProofs.v shows that the run
   of the translated code is the model's receive_message.  The header layout used by FUnpack is the struct format of
   the source (gen: btc_header_widths, little endian).  No proofs here. *)
From AV Require Import Base Bitcoin Gen_framing.

Section FramerCode.
Variable cks : bytes -> bytes.
Variable P : params.

Record fregs := {
  f_buf : bytes; f_chunks : list bytes;      (* the byte queue *)
  f_header : bytes;
  f_magic : bytes; f_cmd : bytes; f_len : N; f_sum : bytes;
  f_payload : bytes; f_psum : bytes;
}.

Inductive fval := FVB (b : bytes) | FVN (n : N).

Definition feval (r : fregs) (e : fexp) : option fval :=
  match e with
  | FMagic => Some (FVB (f_magic r))
  | FOwnMagic => Some (FVB (p_magic P))
  | FCmd => Some (FVB (f_cmd r))
  | FLen => Some (FVN (f_len r))
  | FMaxPayload => Some (FVN (p_max_payload P))
  | FMaxBlock => Some (FVN (p_max_block P))
  | FSum => Some (FVB (f_sum r))
  | FPayloadSum => Some (FVB (f_psum r))
  | FBytes b => Some (FVB b)
  | FEUnknown => None
  end.

Fixpoint fcond_holds (r : fregs) (c : fcond) : option bool :=
  match c with
  | FNe a b => match feval r a, feval r b with
               | Some (FVB x), Some (FVB y) => Some (negb (bytes_eqb x y))
               | Some (FVN x), Some (FVN y) => Some (negb (N.eqb x y))
               | _, _ => None
               end
  | FGt a b => match feval r a, feval r b with
               | Some (FVN x), Some (FVN y) => Some (y <? x)%N
               | _, _ => None
               end
  | FOr a b => match fcond_holds r a, fcond_holds r b with
               | Some x, Some y => Some (x || y)
               | _, _ => None
               end
  | FCUnknown => None
  end.

Inductive fres :=
| FHeader (r : fregs)                              (* _receive_header returned *)
| FDone (o : result * bytes * list bytes)          (* a message, an error, or blocked *)
| FStuck.

Definition err_result (e : ferr) : result :=
  match e with FBadMagic => BadMagic | FOversized => Oversized | FBadChecksum => BadChecksum end.

Definition with_queue (r : fregs) (buf : bytes) (ch : list bytes) : fregs :=
  {| f_buf := buf; f_chunks := ch; f_header := f_header r; f_magic := f_magic r; f_cmd := f_cmd r; f_len := f_len r;
     f_sum := f_sum r; f_payload := f_payload r; f_psum := f_psum r |}.

(* [buf0], [ch0]: the queue when the call began (what it is again if the call blocks) *)
Fixpoint fexec (fuel : nat) (hdr : list fstmt) (buf0 : bytes) (ch0 : list bytes) (r : fregs) (code : list fstmt) : fres :=
  match fuel with
  | O => FStuck
  | S f =>
      match code with
      | [] => FStuck
      | s :: rest =>
          match s with
          | FIf c body =>
              match fcond_holds r c with
              | Some true => fexec f hdr buf0 ch0 r (body ++ rest)
              | Some false => fexec f hdr buf0 ch0 r rest
              | None => FStuck
              end
          | FReceiveHeader n =>
              match bq_receive n (f_buf r) (f_chunks r) with
              | None => FDone (Starved, buf0, ch0)
              | Some (h, b, c) =>
                  fexec f hdr buf0 ch0 {| f_buf := b; f_chunks := c; f_header := h; f_magic := f_magic r; f_cmd := f_cmd r;
                                          f_len := f_len r; f_sum := f_sum r; f_payload := f_payload r; f_psum := f_psum r |} rest
              end
          | FUnpack =>
              let h := f_header r in
              fexec f hdr buf0 ch0 {| f_buf := f_buf r; f_chunks := f_chunks r; f_header := h;
                                      f_magic := firstn 4 h; f_cmd := firstn 12 (skipn 4 h);
                                      f_len := le_value (firstn 4 (skipn 16 h)); f_sum := firstn 4 (skipn 20 h);
                                      f_payload := f_payload r; f_psum := f_psum r |} rest
          | FRaise e => FDone (err_result e, f_buf r, f_chunks r)
          | FStripCommand =>
              fexec f hdr buf0 ch0 {| f_buf := f_buf r; f_chunks := f_chunks r; f_header := f_header r; f_magic := f_magic r;
                                      f_cmd := rstrip0 (f_cmd r); f_len := f_len r; f_sum := f_sum r;
                                      f_payload := f_payload r; f_psum := f_psum r |} rest
          | FReturnHeader => FHeader r
          | FCallHeader =>
              match fexec f hdr buf0 ch0 r hdr with
              | FHeader r' => fexec f hdr buf0 ch0 r' rest
              | x => x
              end
          | FReceivePayload =>
              match bq_receive (f_len r) (f_buf r) (f_chunks r) with
              | None => FDone (Starved, buf0, ch0)
              | Some (p, b, c) =>
                  fexec f hdr buf0 ch0 {| f_buf := b; f_chunks := c; f_header := f_header r; f_magic := f_magic r; f_cmd := f_cmd r;
                                          f_len := f_len r; f_sum := f_sum r; f_payload := p; f_psum := f_psum r |} rest
              end
          | FChecksum =>
              fexec f hdr buf0 ch0 {| f_buf := f_buf r; f_chunks := f_chunks r; f_header := f_header r; f_magic := f_magic r;
                                      f_cmd := f_cmd r; f_len := f_len r; f_sum := f_sum r; f_payload := f_payload r;
                                      f_psum := cks (f_payload r) |} rest
          | FReturnMessage => FDone (Delivered (f_cmd r) (f_payload r), f_buf r, f_chunks r)
          | FSUnknown => FStuck
          end
      end
  end.

Definition receive_message_generated (buf : bytes) (chunks : list bytes) : fres :=
  fexec 24 btc_header_code buf chunks
        {| f_buf := buf; f_chunks := chunks; f_header := []; f_magic := []; f_cmd := []; f_len := 0; f_sum := [];
           f_payload := []; f_psum := [] |} btc_message_code.

End FramerCode.

(* ================= the writing side: pad_command, _build_header, frame ================= *)
Local Open Scope Z_scope.

(* pad_command: None = ValueError *)
Fixpoint prun (c : bytes) (fill : Z) (code : list pstmt) : option (option bytes) :=     (* outer None: stuck *)
  match code with
  | [] => None
  | s :: rest =>
      match s with
      | PFill w => prun c (Z.of_nat w - Z.of_nat (length c)) rest
      | PRefuseIf PFillNegative => if fill <? 0 then Some None else prun c fill rest
      | PRefuseIf PEndsWithNul => if ends_nul c then Some None else prun c fill rest
      | PRefuseIf PCUnknown => None
      | PReturnPadded => Some (Some (c ++ repeat 0%N (Z.to_nat fill)))
      | PSUnknown => None
      end
  end.
Definition pad_generated (c : bytes) : option (option bytes) := prun c 0 btc_pad_code.

Section FrameCode.
Variable cks : bytes -> bytes.
Variable P : params.

Fixpoint join_all (l : list (option bytes)) : option bytes :=
  match l with
  | [] => Some []
  | Some x :: r => match join_all r with Some y => Some (x ++ y) | None => None end
  | None :: _ => None
  end.

Definition jpart_bytes (header : option bytes) (c p : bytes) (j : jpart) : option (option bytes) :=   (* outer None: stuck *)
  match j with
  | JMagic => Some (Some (p_magic P))
  | JPaddedCommand => pad_generated c
  | JPayloadLenLE32 => Some (Some (le_bytes 4 (N.of_nat (length p))))
  | JChecksum => Some (Some (cks p))
  | JHeader => Some header
  | JPayload => Some (Some p)
  | JUnknown => None
  end.

Fixpoint jparts (header : option bytes) (c p : bytes) (l : list jpart) : option (list (option bytes)) :=
  match l with
  | [] => Some []
  | j :: r => match jpart_bytes header c p j, jparts header c p r with
              | Some x, Some y => Some (x :: y)
              | _, _ => None
              end
  end.

(* None: an untranslated part; Some None: ValueError; Some (Some b): the framed message *)
Definition frame_generated (c p : bytes) : option (option bytes) :=
  match jparts None c p btc_build_header_parts with
  | None => None
  | Some hs => match jparts (join_all hs) c p btc_frame_parts with
               | None => None
               | Some fs => Some (join_all fs)
               end
  end.
End FrameCode.

Fixpoint fknown_c (c : fcond) : bool :=
  match c with
  | FNe a b | FGt a b => match a, b with FEUnknown, _ | _, FEUnknown => false | _, _ => true end
  | FOr a b => fknown_c a && fknown_c b
  | FCUnknown => false
  end.
Fixpoint fknown (fuel : nat) (code : list fstmt) : bool :=
  match fuel with
  | O => false
  | S f => forallb (fun s => match s with
                             | FIf c body => fknown_c c && fknown f body
                             | FSUnknown => false
                             | _ => true
                             end) code
  end.
