(* Executable LTS of aiorpcx.curio.TaskGroup (curio.py:74-312) with ONE joining task.
   Members are abstract: they run until the environment lets them finish with an outcome; a
   cancelled member may finish arbitrarily late ("slow to react"), with any outcome, and may
   spawn further members at any time.  The asyncio facts used: done-callbacks of a task are
   scheduled when it finishes, in registration order; the loop's ready queue is FIFO;
   add_done_callback on a finished task schedules at once; Task.cancel() on a task suspended on
   a pending future cancels that future, otherwise sets the must-cancel flag; the Semaphore
   hands the permit over at wake-up and takes it back if the woken waiter turns out cancelled.
   Two facts are not hand-written but probed on the running class (gen/Gen_curio.v): whether
   join's finally clause cancels again members added while it was cancelling
   (join_recancels_late_members) and whether a joined group refuses new tasks
   (add_refused_after_join).  No proofs here. *)
From AV Require Import Base Gen_curio.

Inductive outcome := RetNone | RetVal | Exc | Canc.
Inductive mstatus := Run | RunC | Fin (o : outcome).        (* RunC: running, cancel requested *)
Inductive cb := OnDone (t : N) | Pop (t : N).
Inductive handle := HCb (c : cb) | HJoiner.
Inductive policy := PAll | PAny | PObject | PNone.
Inductive jmode := MJoin | MAexit | MAexitExc.              (* join() / async with / body raised *)

Inductive jpc :=
| JNot                       (* the joining task has not run yet *)
| JNextDone                  (* suspended in semaphore.acquire() inside next_done() *)
| JCancelRem                 (* __aexit__ after the body raised: cancel_remaining() waiting *)
| JCancelAll                 (* join()'s finally: _cancel_tasks() waiting *)
| JEnded (cancelled entered joined_set : bool).
    (* ended: with CancelledError?  had join() been entered?  did it set joined? *)

Record member := { m_daemon : bool; m_status : mstatus; m_cbs : list cb }.

Record tg := {
  members : list (N * member);
  pending : list N;            (* self._pending *)
  daemons : list N;            (* self.daemons (never pruned for tasks added while running) *)
  doneq : list N;              (* self._done *)
  semv : nat;                  (* self._semaphore._value *)
  joined : bool;
  completed : option N;
  pol : policy;
  mode : jmode;
  pc : jpc;
  entered : bool;              (* ghost: join() has been entered *)
  granted : bool;              (* the semaphore handed the joiner its permit (wake-up scheduled) *)
  wake : option bool;          (* a wake-up of the joiner is scheduled; Some true = its future was cancelled *)
  must_cancel : bool;          (* Task._must_cancel of the joiner *)
  jexc : bool;                 (* a CancelledError is travelling through join's finally *)
  unfinished : list N;         (* the `unfinished` set of the _cancel_tasks in progress *)
  queue : list handle;         (* the loop's ready queue, FIFO (group-related handles only) *)
  log_done : list N;           (* ghost: order in which non-daemon members finished *)
  consumed : list N;           (* ghost: members returned by next_done() to join so far, in order *)
  app_consumed : list N;       (* ghost: members the application took with next_done() before the join *)
}.

Definition memN (x : N) (l : list N) : bool := existsb (N.eqb x) l.
Definition removeN (x : N) (l : list N) : list N := filter (fun y => negb (N.eqb x y)) l.

Fixpoint get (t : N) (l : list (N * member)) : option member :=
  match l with [] => None | (x, m) :: r => if N.eqb x t then Some m else get t r end.
Fixpoint set (t : N) (m : member) (l : list (N * member)) : list (N * member) :=
  match l with
  | [] => [(t, m)]
  | (x, m0) :: r => if N.eqb x t then (x, m) :: r else (x, m0) :: set t m r
  end.
Definition status (g : tg) (t : N) : option mstatus := option_map m_status (get t (members g)).
Definition finished (g : tg) (t : N) : bool :=
  match status g t with Some (Fin _) => true | _ => false end.

(* record update helpers *)
Definition upd_members (g : tg) (ms : list (N * member)) : tg :=
  {| members := ms; pending := pending g; daemons := daemons g; doneq := doneq g; semv := semv g;
     joined := joined g; completed := completed g; pol := pol g; mode := mode g; pc := pc g;
     entered := entered g; granted := granted g; wake := wake g; must_cancel := must_cancel g;
     jexc := jexc g; unfinished := unfinished g; queue := queue g; log_done := log_done g;
     consumed := consumed g; app_consumed := app_consumed g |}.
Definition upd_queue (g : tg) (q : list handle) : tg :=
  {| members := members g; pending := pending g; daemons := daemons g; doneq := doneq g; semv := semv g;
     joined := joined g; completed := completed g; pol := pol g; mode := mode g; pc := pc g;
     entered := entered g; granted := granted g; wake := wake g; must_cancel := must_cancel g;
     jexc := jexc g; unfinished := unfinished g; queue := q; log_done := log_done g;
     consumed := consumed g; app_consumed := app_consumed g |}.
Definition upd_group (g : tg) (p d dq : list N) (sv : nat) : tg :=
  {| members := members g; pending := p; daemons := d; doneq := dq; semv := sv;
     joined := joined g; completed := completed g; pol := pol g; mode := mode g; pc := pc g;
     entered := entered g; granted := granted g; wake := wake g; must_cancel := must_cancel g;
     jexc := jexc g; unfinished := unfinished g; queue := queue g; log_done := log_done g;
     consumed := consumed g; app_consumed := app_consumed g |}.
Definition upd_joiner (g : tg) (p : jpc) (en gr : bool) (wk : option bool) (mc je : bool)
                      (unf : list N) (jd : bool) (cm : option N) (cs : list N) : tg :=
  {| members := members g; pending := pending g; daemons := daemons g; doneq := doneq g; semv := semv g;
     joined := jd; completed := cm; pol := pol g; mode := mode g; pc := p;
     entered := en; granted := gr; wake := wk; must_cancel := mc;
     jexc := je; unfinished := unf; queue := queue g; log_done := log_done g; consumed := cs;
     app_consumed := app_consumed g |}.

Definition init (p : policy) (m : jmode) : tg :=
  {| members := []; pending := []; daemons := []; doneq := []; semv := 0; joined := false;
     completed := None; pol := p; mode := m; pc := JNot; entered := false; granted := false;
     wake := None; must_cancel := false; jexc := false; unfinished := []; queue := [];
     log_done := []; consumed := []; app_consumed := [] |}.

(* ---------- the semaphore, as seen by the single joining task ---------- *)
(* release(): value += 1, then hand it to the joiner if it is waiting on a live future *)
Definition sem_release (g : tg) : tg :=
  let g1 := upd_group g (pending g) (daemons g) (doneq g) (S (semv g)) in
  match pc g1, wake g1 with
  | JNextDone, None =>
      let g2 := upd_group g1 (pending g1) (daemons g1) (doneq g1) (semv g1 - 1) in
      upd_queue (upd_joiner g2 (pc g2) (entered g2) true (Some false) (must_cancel g2) (jexc g2)
                            (unfinished g2) (joined g2) (completed g2) (consumed g2))
                (queue g2 ++ [HJoiner])
  | _, _ => g1
  end.

(* _on_done(task)  (curio.py:131-140) *)
Definition on_done (g : tg) (t : N) : tg :=
  match get t (members g) with
  | Some m =>
      if m_daemon m then upd_group g (pending g) (removeN t (daemons g)) (doneq g) (semv g)
      else sem_release (upd_group g (removeN t (pending g)) (daemons g) (doneq g ++ [t]) (semv g))
  | None => g
  end.

(* _add_task(task)  (curio.py:142-158); the task may already be finished.  false = RuntimeError *)
Definition add_task (g : tg) (t : N) (daemon : bool) (st : mstatus) : tg * bool :=
  if add_refused_after_join && joined g then (g, false)
  else match get t (members g) with
       | Some _ => (g, false)                        (* already part of a group *)
       | None =>
           let m := {| m_daemon := daemon; m_status := st; m_cbs := [] |} in
           let g1 := upd_members g (set t m (members g)) in
           match st with
           | Fin _ => (on_done g1 t, true)
           | _ => if daemon then (upd_group g1 (pending g1) (daemons g1 ++ [t]) (doneq g1) (semv g1), true)
                  else (upd_members (upd_group g1 (pending g1 ++ [t]) (daemons g1) (doneq g1) (semv g1))
                                    (set t {| m_daemon := daemon; m_status := st; m_cbs := [OnDone t] |} (members g1)),
                        true)
           end
       end.

(* a member finishes: its done-callbacks are scheduled in registration order *)
Definition finish_member (g : tg) (t : N) (o : outcome) : tg :=
  match get t (members g) with
  | Some m =>
      match m_status m with
      | Fin _ => g
      | _ =>
          let g1 := upd_members g (set t {| m_daemon := m_daemon m; m_status := Fin o; m_cbs := [] |} (members g)) in
          let g2 := upd_queue g1 (queue g1 ++ map HCb (m_cbs m)) in
          if m_daemon m then g2
          else {| members := members g2; pending := pending g2; daemons := daemons g2; doneq := doneq g2;
                  semv := semv g2; joined := joined g2; completed := completed g2; pol := pol g2;
                  mode := mode g2; pc := pc g2; entered := entered g2; granted := granted g2; wake := wake g2;
                  must_cancel := must_cancel g2; jexc := jexc g2; unfinished := unfinished g2;
                  queue := queue g2; log_done := log_done g2 ++ [t]; consumed := consumed g2;
                  app_consumed := app_consumed g2 |}
      end
  | None => g
  end.

(* task.cancel() of a member *)
Definition cancel_member (g : tg) (t : N) : tg :=
  match get t (members g) with
  | Some m => match m_status m with
              | Run => upd_members g (set t {| m_daemon := m_daemon m; m_status := RunC; m_cbs := m_cbs m |} (members g))
              | _ => g end
  | None => g
  end.

(* _cancel_tasks(tasks) up to its await (curio.py:255-270): cancel all, register pop_task on
   each (scheduled at once for finished ones), in the given iteration order *)
Definition register_pop (g : tg) (t : N) : tg :=
  match get t (members g) with
  | Some m =>
      match m_status m with
      | Fin _ => upd_queue g (queue g ++ [HCb (Pop t)])
      | _ => upd_members g (set t {| m_daemon := m_daemon m; m_status := m_status m; m_cbs := m_cbs m ++ [Pop t] |} (members g))
      end
  | None => g
  end.
Definition cancel_tasks (g : tg) (order : list N) : tg :=
  let g1 := fold_left cancel_member order g in
  fold_left register_pop order g1.

(* ---------- the joining coroutine ---------- *)
Definition bad (g : tg) (t : N) : bool :=
  match status g t with Some (Fin Exc) | Some (Fin Canc) => true | _ => false end.
Definition ret_none (g : tg) (t : N) : bool :=
  match status g t with Some (Fin RetNone) => true | _ => false end.

Definition end_join (g : tg) : tg :=      (* self.joined = True; join returns / re-raises *)
  upd_joiner g (JEnded (jexc g) true true) true false None false (jexc g) [] true (completed g) (consumed g).

(* join's finally: await self._cancel_tasks(self._pending.union(self.daemons)) *)
Definition j_finally (g : tg) (order : list N) (exc : bool) : tg :=
  let set_ := pending g ++ daemons g in
  let ord := filter (fun t => memN t set_) order ++ filter (fun t => negb (memN t order)) set_ in
  let g0 := upd_joiner g (pc g) true (granted g) (wake g) (must_cancel g) exc (unfinished g) (joined g)
                       (completed g) (consumed g) in
  match ord with
  | [] => end_join g0
  | _ => let g1 := cancel_tasks g0 ord in
         upd_joiner g1 JCancelAll true false None (must_cancel g1) exc ord (joined g1) (completed g1) (consumed g1)
  end.

(* one iteration of join()'s loop after next_done() returned task t (rest = the remaining
   queue): `if self.completed is None: if not (wait is object and ... result() is None): ...` *)
Definition consume (g : tg) (t : N) (rest : list N) : tg :=
  let g2 := upd_group g (pending g) (daemons g) rest (semv g) in
  let cm := match completed g2 with
            | Some c => Some c
            | None => if (match pol g2 with PObject => true | _ => false end) && ret_none g2 t
                      then None else Some t
            end in
  upd_joiner g2 (pc g2) true (granted g2) (wake g2) (must_cancel g2) false (unfinished g2)
             (joined g2) cm (consumed g2 ++ [t]).
(* `if safe_exception(task) or wait is any or (wait is object and self.completed): return` *)
Definition stop_after (g : tg) (t : N) : bool :=
  bad g t || (match pol g with PAny => true | _ => false end)
  || ((match pol g with PObject => true | _ => false end)
      && match completed g with Some _ => true | None => false end).

(* the loop of join(): structural recursion on the queue of finished members [dq] = doneq g
   (each iteration of `while True` pops one) *)
Fixpoint j_loop (dq : list N) (g : tg) (order : list N) : tg :=
  (* next_done(): if self._done or self._pending: await self._semaphore.acquire() *)
  let need := negb (match dq, pending g with [], [] => true | _, _ => false end) in
  if need && (semv g =? 0)%nat
  then upd_joiner g JNextDone true false None (must_cancel g) false (unfinished g) (joined g)
                  (completed g) (consumed g)
  else
    let g1 := if need then upd_group g (pending g) (daemons g) (doneq g) (semv g - 1) else g in
    match dq with
    | [] => j_finally g1 order false                      (* next_done returned None *)
    | t :: rest =>
        let g3 := consume g1 t rest in
        if stop_after g3 t then j_finally g3 order false else j_loop rest g3 order
    end.

Definition join_entry (g : tg) (order : list N) : tg :=
  let g0 := upd_joiner g (pc g) true (granted g) (wake g) (must_cancel g) false (unfinished g) (joined g)
                       (completed g) (consumed g) in
  match pol g0 with
  | PNone => j_finally g0 order false
  | _ => j_loop (doneq g0) g0 order
  end.

(* one step of the joining task (its handle reached the head of the ready queue) *)
Definition joiner_step (g : tg) (order : list N) : tg :=
  let cancelled := must_cancel g || match wake g with Some true => true | _ => false end in
  let g := upd_joiner g (pc g) (entered g) (granted g) None false (jexc g) (unfinished g) (joined g)
                      (completed g) (consumed g) in
  match pc g with
  | JNot =>
      if cancelled then upd_joiner g (JEnded true false false) false false None false false [] (joined g) (completed g) (consumed g)
      else match mode g with
           | MAexitExc =>
               (* cancel_remaining(): await self._cancel_tasks(self._pending) *)
               let ord := filter (fun t => memN t (pending g)) order ++ filter (fun t => negb (memN t order)) (pending g) in
               match ord with
               | [] => join_entry g order
               | _ => let g1 := cancel_tasks g ord in
                      upd_joiner g1 JCancelRem false false None false false ord (joined g1) (completed g1) (consumed g1)
               end
           | _ => join_entry g order
           end
  | JCancelRem =>
      if cancelled then upd_joiner g (JEnded true false false) false false None false false [] (joined g) (completed g) (consumed g)
      else join_entry g order
  | JNextDone =>
      if cancelled then
        (* CancelledError inside acquire(): a permit already handed over is given back *)
        let g1 := if granted g then upd_group g (pending g) (daemons g) (doneq g) (S (semv g)) else g in
        j_finally (upd_joiner g1 (pc g1) true false None false true (unfinished g1) (joined g1) (completed g1) (consumed g1))
                  order true
      else
        (* acquired: continue next_done() and the loop *)
        let g1 := upd_joiner g (pc g) true false None false false (unfinished g) (joined g) (completed g) (consumed g) in
        match doneq g1 with
        | [] => j_finally g1 order false
        | _ => j_loop (doneq g1) (upd_group g1 (pending g1) (daemons g1) (doneq g1) (S (semv g1))) order
        end
  | JCancelAll =>
      if cancelled
      then (* the CancelledError leaves the finally clause: joined stays False *)
           upd_joiner g (JEnded true true false) true false None false true (unfinished g) (joined g) (completed g) (consumed g)
      else
        (* tasks = {task for task in pending | daemons if not task.done()}; while tasks: ... *)
        let rest := if join_recancels_late_members
                    then filter (fun t => negb (finished g t)) (pending g ++ daemons g) else [] in
        let ord := filter (fun t => memN t rest) order ++ filter (fun t => negb (memN t order)) rest in
        match ord with
        | [] => end_join g
        | _ => let g1 := cancel_tasks g ord in
               upd_joiner g1 JCancelAll true false None (must_cancel g1) (jexc g1) ord (joined g1) (completed g1) (consumed g1)
        end
  | JEnded _ _ _ => g
  end.

(* a done-callback runs *)
Definition run_cb (g : tg) (c : cb) : tg :=
  match c with
  | OnDone t => on_done g t
  | Pop t =>
      let unf := removeN t (unfinished g) in
      let g1 := upd_joiner g (pc g) (entered g) (granted g) (wake g) (must_cancel g) (jexc g) unf (joined g)
                           (completed g) (consumed g) in
      match unf, pc g1, wake g1 with
      | [], JCancelAll, None | [], JCancelRem, None =>
          upd_queue (upd_joiner g1 (pc g1) (entered g1) (granted g1) (Some false) (must_cancel g1) (jexc g1) unf
                                (joined g1) (completed g1) (consumed g1)) (queue g1 ++ [HJoiner])
      | _, _, _ => g1
      end
  end.

(* task.cancel() of the joining task *)
Definition cancel_joiner (g : tg) : tg :=
  match pc g with
  | JEnded _ _ _ => g
  | JNot => upd_joiner g (pc g) (entered g) (granted g) (wake g) true (jexc g) (unfinished g) (joined g) (completed g) (consumed g)
  | _ =>
      match wake g with
      | None =>   (* suspended on a pending future: it is cancelled and the wake-up scheduled *)
          upd_queue (upd_joiner g (pc g) (entered g) (granted g) (Some true) (must_cancel g) (jexc g) (unfinished g)
                                (joined g) (completed g) (consumed g)) (queue g ++ [HJoiner])
      | Some _ => (* the future is already done: must-cancel *)
          upd_joiner g (pc g) (entered g) (granted g) (wake g) true (jexc g) (unfinished g) (joined g) (completed g) (consumed g)
      end
  end.

(* ---------- labels ---------- *)
Inductive label :=
| LSpawn (t : N) (daemon : bool) (already : option outcome)   (* spawn / add_task; Some o: an already finished task *)
| LFinish (t : N) (o : outcome)                                (* a member's final step *)
| LCancelMember (t : N)
| LStart                                                       (* the joining task is created (its first step scheduled) *)
| LCancelJoiner
| LRun (h : handle) (order : list N)    (* the loop runs the handle at the head of the queue;
                                           [order] = iteration order of a set of tasks, if one is iterated *)
| LAppNext.                             (* the application calls next_done() before the join has begun, with a
                                           finished member queued (otherwise the call would wait: not modelled) *)

(* next_done() called by the application while the joining task has not run: a permit is free exactly when a
   member is queued, so acquire() does not wait; the head of _done is handed out *)
Definition app_next (g : tg) : tg :=
  match pc g, consumed g, doneq g, semv g with
  | JNot, [], t :: rest, S sv =>
      {| members := members g; pending := pending g; daemons := daemons g; doneq := rest; semv := sv;
         joined := joined g; completed := completed g; pol := pol g; mode := mode g; pc := pc g;
         entered := entered g; granted := granted g; wake := wake g; must_cancel := must_cancel g;
         jexc := jexc g; unfinished := unfinished g; queue := queue g; log_done := log_done g;
         consumed := consumed g; app_consumed := app_consumed g ++ [t] |}
  | _, _, _, _ => g
  end.

Definition step (g : tg) (l : label) : tg :=
  match l with
  | LSpawn t d al => fst (add_task g t d (match al with Some o => Fin o | None => Run end))
  | LFinish t o => finish_member g t o
  | LCancelMember t => cancel_member g t
  | LStart => match pc g, wake g with
              | JNot, None => upd_queue (upd_joiner g (pc g) (entered g) (granted g) (Some false) (must_cancel g) (jexc g)
                                                    (unfinished g) (joined g) (completed g) (consumed g))
                                        (queue g ++ [HJoiner])
              | _, _ => g end
  | LCancelJoiner => cancel_joiner g
  | LRun h order =>
      match queue g with
      | h0 :: rest =>
          let g1 := upd_queue g rest in
          match h0 with
          | HCb c => run_cb g1 c
          | HJoiner => joiner_step g1 order
          end
      | [] => g
      end
  | LAppNext => app_next g
  end.

Definition run (p : policy) (m : jmode) (ls : list label) : tg := fold_left step ls (init p m).

(* ---------- correspondence: trace acceptance, one loop handle per LRun label ---------- *)
Record snap := {
  s_pending : list N; s_daemons : list N; s_doneq : list N; s_semv : nat; s_joined : bool;
  s_completed : option N; s_finished : list N;   (* ids of all tasks that are done() *)
  s_queue : list handle;                         (* the real loop's ready queue, classified *)
  s_jdone : bool;                                (* the joining task is done() *)
  s_cancelreq : list N;                          (* unfinished members with a cancellation request *)
  s_jcancelled : bool;                           (* the joining task ended cancelled *)
  s_appconsumed : list N;                        (* what next_done() gave the application, in order *)
}.
Definition cb_eqb (a b : cb) : bool :=
  match a, b with OnDone x, OnDone y | Pop x, Pop y => N.eqb x y | _, _ => false end.
Definition handle_eqb (a b : handle) : bool :=
  match a, b with HCb x, HCb y => cb_eqb x y | HJoiner, HJoiner => true | _, _ => false end.
Definition set_eqb (a b : list N) : bool :=
  forallb (fun x => memN x b) a && forallb (fun x => memN x a) b.
Definition snap_ok (g : tg) (s : snap) : bool :=
  set_eqb (pending g) (s_pending s) && set_eqb (daemons g) (s_daemons s) &&
  list_eqb N.eqb (doneq g) (s_doneq s) && Nat.eqb (semv g) (s_semv s) && Bool.eqb (joined g) (s_joined s) &&
  option_eqb N.eqb (completed g) (s_completed s) &&
  set_eqb (map fst (filter (fun x => match m_status (snd x) with Fin _ => true | _ => false end) (members g))) (s_finished s) &&
  list_eqb handle_eqb (queue g) (s_queue s) &&
  Bool.eqb (match pc g with JEnded _ _ _ => true | _ => false end) (s_jdone s) &&
  set_eqb (map fst (filter (fun x => match m_status (snd x) with RunC => true | _ => false end) (members g))) (s_cancelreq s) &&
  Bool.eqb (match pc g with JEnded c _ _ => c | _ => false end) (s_jcancelled s) &&
  list_eqb N.eqb (app_consumed g) (s_appconsumed s).

Fixpoint trace_firstbad (g : tg) (tr : list (label * option snap)) (i : nat) : option nat :=
  match tr with
  | [] => None
  | (l, s) :: r =>
      let head_ok := match l with
                     | LRun h _ => match queue g with h0 :: _ => handle_eqb h h0 | [] => false end
                     | _ => true end in
      let g' := step g l in
      if head_ok && match s with Some s => snap_ok g' s | None => true end then trace_firstbad g' r (S i) else Some i
  end.
Definition tg_ok (x : policy * jmode * list (label * option snap)) : bool :=
  let '(p, m, tr) := x in match trace_firstbad (init p m) tr 0 with None => true | Some _ => false end.
