(* The four methods of aiorpcx.session.Concurrency as REGENERATED from the source (gen/Gen_session.v:
   conc_retarget, conc_aenter, conc_aexit, conc_set_target - statement lists of a tiny imperative language),
   and an interpreter that runs them on the limiter state of model/Limiter.v.  proof/LimiterCodeProofs.v shows
   that running the generated code does to _sem_value / _target / the semaphore exactly what the
   primitives of the hand-written model do.  No proofs here. *)
From AV Require Import Base Limiter Gen_session.
Local Open Scope Z_scope.

Inductive cres :=
| CNormal (st : lstate)                          (* the method returned *)
| CRaised (st : lstate)                          (* ExcessiveSessionCostError *)
| CSuspend (st : lstate) (rest : list cstmt)     (* await self._semaphore.acquire(): what remains to be run *)
| CFuel | CBad.

Fixpoint ceval (st : lstate) (arg : Z) (e : cexp) : option Z :=
  match e with
  | EVar CSemValue => Some (semv st)
  | EVar CTarget => Some (target st)
  | EArg => Some arg
  | EConst z => Some z
  | EAdd a b => match ceval st arg a, ceval st arg b with Some x, Some y => Some (x + y) | _, _ => None end
  | ESub a b => match ceval st arg a, ceval st arg b with Some x, Some y => Some (x - y) | _, _ => None end
  | EUnknown => None
  end.
Definition ccheck (st : lstate) (arg : Z) (c : ccond) : option bool :=
  match c with
  | CLe a b => match ceval st arg a, ceval st arg b with Some x, Some y => Some (x <=? y) | _, _ => None end
  | CLt a b => match ceval st arg a, ceval st arg b with Some x, Some y => Some (x <? y) | _, _ => None end
  | CGt a b => match ceval st arg a, ceval st arg b with Some x, Some y => Some (y <? x) | _, _ => None end
  | CGe a b => match ceval st arg a, ceval st arg b with Some x, Some y => Some (y <=? x) | _, _ => None end
  | CUnknown => None
  end.

(* blocks are flattened in front of what follows; a loop unrolls one iteration at a time *)
Fixpoint cexec (fuel : nat) (arg : Z) (st : lstate) (ss : list cstmt) : cres :=
  match fuel with
  | O => CFuel
  | S f =>
      match ss with
      | [] => CNormal st
      | SIf c a b :: rest =>
          match ccheck st arg c with
          | Some true => cexec f arg st (a ++ rest)
          | Some false => cexec f arg st (b ++ rest)
          | None => CBad
          end
      | SWhile c body :: rest =>
          match ccheck st arg c with
          | Some true => cexec f arg st (body ++ SWhile c body :: rest)
          | Some false => cexec f arg st rest
          | None => CBad
          end
      | SAssign CSemValue e :: rest =>
          match ceval st arg e with Some z => cexec f arg (set_semv st z) rest | None => CBad end
      | SAssign CTarget e :: rest =>
          match ceval st arg e with Some z => cexec f arg (set_target st z) rest | None => CBad end
      | SRelease :: rest => cexec f arg (release st) rest
      | SAcquire :: rest => CSuspend st rest
      | SRetarget :: rest => cexec f arg st (conc_retarget ++ rest)
      | SRaise :: _ => CRaised st
      | SUnknown :: _ => CBad
      end
  end.
