(* Executable model of aiorpcx.framing.NewlineFramer  (framing.py:62-116).
   No proofs here: the model must still run when a proof breaks.

   The framer's observable behaviour is a function of the FIFO sequence of chunks handed
   to received_bytes(): a perpetual reader that calls receive_message() again and again
   sees the sequence of results computed by [run].  One loop iteration of
   receive_message() handles one "part" (the residual of the previous chunk, or the next
   chunk); [scan] walks through the bytes of one chunk, which covers the iterations that
   handle the chunk itself and all its residuals. *)
From AV Require Import Base.

Inductive result := Msg (m : bytes) | MemErr.

Definition NL : N := 10%N.

Record fstate := {
  sync : bool;          (* self.synchronizing *)
  acc  : bytes;         (* b''.join(parts) of the receive_message() call in progress *)
  outs : list result;   (* results returned / raised so far, oldest first *)
}.

Definition init : fstate := {| sync := false; acc := []; outs := [] |}.

(* framing.py:104  buffer_size <= self.max_size or self.max_size == 0 *)
Definition fits (max : nat) (l : bytes) : bool := (length l <=? max) || (max =? 0).

(* bytes of one chunk; [cur] = bytes of this chunk since its last newline *)
Fixpoint scan (st : fstate) (cur : bytes) (part : bytes) : fstate * bytes :=
  match part with
  | [] => (st, cur)
  | b :: rest =>
      if N.eqb b NL then
        (* framing.py:110-116 : tail, residual = part[:npos], part[npos+1:] *)
        if sync st
        then scan {| sync := false; acc := []; outs := outs st |} [] rest
        else scan {| sync := false; acc := []; outs := outs st ++ [Msg (acc st ++ cur)] |} [] rest
      else scan st (cur ++ [b]) rest
  end.

(* framing.py:100-108 : a part without newline is appended and the size checked *)
Definition feed (max : nat) (st : fstate) (chunk : bytes) : fstate :=
  let '(st1, cur) := scan st [] chunk in
  let acc' := acc st1 ++ cur in
  if fits max acc'
  then {| sync := sync st1; acc := acc'; outs := outs st1 |}
  else {| sync := true; acc := []; outs := outs st1 ++ [MemErr] |}.

Definition run_from (max : nat) (st : fstate) (chunks : list bytes) : fstate :=
  fold_left (feed max) chunks st.
Definition run (max : nat) (chunks : list bytes) : fstate := run_from max init chunks.

(* framing.py:81 *)
Definition frame (m : bytes) : bytes := m ++ [NL].

(* ---- specification side: the newline-terminated segments of a stream ---- *)
Record split := { segs : list bytes; tail : bytes }.
Definition sstep (s : split) (b : N) : split :=
  if N.eqb b NL then {| segs := segs s ++ [tail s]; tail := [] |}
  else {| segs := segs s; tail := tail s ++ [b] |}.
Definition split_of (w : bytes) : split := fold_left sstep w {| segs := []; tail := [] |}.
Definition segments (w : bytes) : list bytes := segs (split_of w).

Definition msgs_of (l : list result) : list bytes :=
  flat_map (fun r => match r with Msg m => [m] | MemErr => [] end) l.

(* ---- helpers for the correspondence files ---- *)
Definition result_eqb (a b : result) : bool :=
  match a, b with
  | Msg x, Msg y => bytes_eqb x y
  | MemErr, MemErr => true
  | _, _ => false
  end.
(* a case: (max_size, chunks, observed results of the real framer) *)
Definition case_ok (c : nat * list bytes * list result) : bool :=
  let '(max, chunks, obs) := c in
  list_eqb result_eqb (outs (run max chunks)) obs.
