(* Executable model of RPCSession._throttled_request after the handler has finished
   (session.py:436-468): the try/except ladder, the reply through the connection's
   send_result, _bump_errors, the optional disconnect.  No proofs here. *)
From Coq Require Import QArith.
From AV Require Import Base Utf8 Json Gen_jsonrpc Gen_session Codec Conn.

(* what a request handler may do *)
Inductive outcome :=
| ORet (v : json)                          (* returns a JSON-encodable value *)
| ORetBad                                  (* returns something json.dumps cannot encode *)
| ORPC (code : Z) (msg : text) (cost : Q)  (* raises RPCError(code, message, cost=cost) *)
| OProto (code : Z) (msg : text)           (* raises ProtocolError(code, message) *)
| OOther                                   (* raises any other Exception *)
| OOverrun                                 (* still running at processing_timeout *)
| ODiscVal (v : json)                      (* raises ReplyAndDisconnect(value) *)
| ODiscErr (code : Z) (msg : text)         (* raises ReplyAndDisconnect(RPCError) *)
| ODiscBad                                 (* raises ReplyAndDisconnect(non-encodable) *)
| ORefused.                                (* ExcessiveSessionCostError from the limiter *)

Record finished := {
  f_result : respval;        (* what is handed to send_result *)
  f_failed : option Q;       (* Some c: the result is an exception: errors += 1, cost += base + c *)
  f_disconnect : bool;
}.

Definition INTERNAL_ERROR := code_INTERNAL_ERROR.
Definition SERVER_BUSY := code_SERVER_BUSY.
Definition EXCESSIVE_RESOURCE_USAGE := code_EXCESSIVE_RESOURCE_USAGE.
Definition internal : respval := RError (JInt INTERNAL_ERROR) [].
Local Open Scope Q_scope.

(* the except ladder + the encodability fallback *)
(* [is_req]: a Request (the result is encoded and sent) or a Notification (nothing is sent, so a
   value that cannot be encoded is never noticed) *)
Definition finish (is_req : bool) (o : outcome) : finished :=
  match o with
  | ORet v => {| f_result := RResult v; f_failed := None; f_disconnect := false |}
  | ORetBad => {| f_result := internal; f_failed := if is_req then Some 0 else None; f_disconnect := false |}
  | ORPC c m k => {| f_result := RError (JInt c) m; f_failed := Some k; f_disconnect := false |}
  | OProto c m => {| f_result := RError (JInt c) m; f_failed := Some 0; f_disconnect := false |}
  | OOther => {| f_result := internal; f_failed := Some 0; f_disconnect := false |}
  | OOverrun => {| f_result := RError (JInt SERVER_BUSY) []; f_failed := Some 0; f_disconnect := false |}
  | ODiscVal v => {| f_result := RResult v; f_failed := None; f_disconnect := true |}
  | ODiscErr c m => {| f_result := RError (JInt c) m; f_failed := Some 0; f_disconnect := true |}
  | ODiscBad => {| f_result := internal; f_failed := if is_req then Some 0 else None; f_disconnect := true |}
  | ORefused => {| f_result := RError (JInt EXCESSIVE_RESOURCE_USAGE) []; f_failed := Some 0; f_disconnect := true |}
  end.

(* the reply payload for a request (None for a notification) *)
Definition reply_of (p : proto) (rid : option json) (o : outcome) : option json :=
  match rid with
  | Some i => Some (respval_payload p (f_result (finish true o)) i)
  | None => None
  end.

(* a serving session processing finished handlers in some order *)
Record sstate := { s_alive : bool; s_errors : Z; s_cost : Q; s_wire : list json; s_closing : bool }.
Definition sinit : sstate := {| s_alive := true; s_errors := 0; s_cost := 0; s_wire := []; s_closing := false |}.
Definition handler_ends (base : Q) (p : proto) (s : sstate) (x : option json * outcome) : sstate :=
  let '(rid, o) := x in
  let f := finish (match rid with Some _ => true | None => false end) o in
  {| s_alive := s_alive s;
     s_errors := match f_failed f with Some _ => (s_errors s + 1)%Z | None => s_errors s end;
     s_cost := match f_failed f with Some k => s_cost s + base + k | None => s_cost s end;
     s_wire := match reply_of p rid o with Some r => s_wire s ++ [r] | None => s_wire s end;
     s_closing := s_closing s || f_disconnect f |}.
Definition serve_all (base : Q) (p : proto) (xs : list (option json * outcome)) : sstate :=
  fold_left (handler_ends base p) xs sinit.

(* ---- correspondence: per finished request the reply signature, plus the counters ---- *)
Definition sig_of_reply (r : json) : esig := entry_sig r.
Definition c03_ok (x : list (option json * outcome) * list esig * Z * bool) : bool :=
  let '(xs, sigs, errs, closing) := x in
  let s := serve_all sb_error_base_cost V2 xs in
  list_eqb esig_eqb (map sig_of_reply (s_wire s)) sigs && (s_errors s =? errs)%Z &&
  Bool.eqb (s_closing s) closing.

(* ---------- the except ladder, as regenerated from the source ---------- *)
(* gen/Gen_session.v carries the except clauses of RPCSession._throttled_request in source order
   (request_ladder) and, probed on the running classes, which exception each clause catches
   (exc_subclass).  [handler_for] is Python's rule: the first clause one of whose classes the exception
   is an instance of. *)
Definition raised (o : outcome) : option exc_class :=
  match o with
  | ORPC _ _ _ => Some XRPCError
  | OProto _ _ => Some XProtocolError
  | OOther => Some XOtherException
  | OOverrun => Some XTaskTimeout           (* timeout_after(processing_timeout) raises TaskTimeout *)
  | ODiscVal _ | ODiscErr _ _ | ODiscBad => Some XReplyAndDisconnect
  | ORefused => Some XExcessiveSessionCost
  | ORet _ | ORetBad => None
  end.
Definition handler_for (x : exc_class) : option (ladder_result * bool * bool) :=
  match find (fun row => existsb (exc_subclass x) (fst (fst (fst row)))) request_ladder with
  | Some (_, r, d, h) => Some (r, d, h)
  | None => None
  end.
(* what [finish] above implements for each outcome that is an exception: the result handed on
   (the exception itself / its payload / a fixed code), disconnect?, disconnect hook? *)
Definition ladder_expect (o : outcome) : option (ladder_result * bool * bool) :=
  match o with
  | ORPC _ _ _ | OProto _ _ => Some (LOwn, false, false)
  | OOther => Some (LCode INTERNAL_ERROR, false, false)
  | OOverrun => Some (LCode SERVER_BUSY, false, false)
  | ODiscVal _ | ODiscErr _ _ | ODiscBad => Some (LPayload, true, false)
  | ORefused => Some (LCode EXCESSIVE_RESOURCE_USAGE, true, true)
  | ORet _ | ORetBad => None
  end.
