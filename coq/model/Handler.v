(* Executable model of RPCSession._throttled_request after the handler has finished
   (session.py:436-468): the try/except ladder, the reply through the connection's
   send_result, _bump_errors, the optional disconnect.  No proofs here. *)
From Coq Require Import QArith.
From AV Require Import Base Utf8 Json Gen_jsonrpc Gen_session Codec Conn.

(* what a request handler may do *)
Inductive outcome :=
| ORet (v : json)                          (* returns a JSON-encodable value *)
| ORetBad                                  (* returns something json.dumps cannot encode *)
| ORPC (code : Z) (msg : text) (cost : Q)  (* raises RPCError(code, message, cost=cost) *)
| OProto (code : Z) (msg : text)           (* raises ProtocolError(code, message) *)
| OOther                                   (* raises any other Exception *)
| OOverrun                                 (* still running at processing_timeout *)
| ODiscVal (v : json)                      (* raises ReplyAndDisconnect(value) *)
| ODiscErr (code : Z) (msg : text)         (* raises ReplyAndDisconnect(RPCError) *)
| ODiscBad                                 (* raises ReplyAndDisconnect(non-encodable) *)
| ORefused.                                (* ExcessiveSessionCostError from the limiter *)

Record finished := {
  f_result : respval;        (* what is handed to send_result *)
  f_failed : option Q;       (* Some c: the result is an exception: errors += 1, cost += base + c *)
  f_disconnect : bool;
}.

Definition INTERNAL_ERROR := code_INTERNAL_ERROR.
Definition SERVER_BUSY := code_SERVER_BUSY.
Definition EXCESSIVE_RESOURCE_USAGE := code_EXCESSIVE_RESOURCE_USAGE.
Definition internal : respval := RError (JInt INTERNAL_ERROR) [].
Local Open Scope Q_scope.

(* the except ladder + the encodability fallback *)
(* [is_req]: a Request (the result is encoded and sent) or a Notification (nothing is sent, so a
   value that cannot be encoded is never noticed) *)
Definition finish (is_req : bool) (o : outcome) : finished :=
  match o with
  | ORet v => {| f_result := RResult v; f_failed := None; f_disconnect := false |}
  | ORetBad => {| f_result := internal; f_failed := if is_req then Some 0 else None; f_disconnect := false |}
  | ORPC c m k => {| f_result := RError (JInt c) m; f_failed := Some k; f_disconnect := false |}
  | OProto c m => {| f_result := RError (JInt c) m; f_failed := Some 0; f_disconnect := false |}
  | OOther => {| f_result := internal; f_failed := Some 0; f_disconnect := false |}
  | OOverrun => {| f_result := RError (JInt SERVER_BUSY) []; f_failed := Some 0; f_disconnect := false |}
  | ODiscVal v => {| f_result := RResult v; f_failed := None; f_disconnect := true |}
  | ODiscErr c m => {| f_result := RError (JInt c) m; f_failed := Some 0; f_disconnect := true |}
  | ODiscBad => {| f_result := internal; f_failed := if is_req then Some 0 else None; f_disconnect := true |}
  | ORefused => {| f_result := RError (JInt EXCESSIVE_RESOURCE_USAGE) []; f_failed := Some 0; f_disconnect := true |}
  end.

(* the reply payload for a request (None for a notification) *)
Definition reply_of (p : proto) (rid : option json) (o : outcome) : option json :=
  match rid with
  | Some i => Some (respval_payload p (f_result (finish true o)) i)
  | None => None
  end.

(* a serving session processing finished handlers in some order *)
Record sstate := { s_alive : bool; s_errors : Z; s_cost : Q; s_wire : list json; s_closing : bool }.
Definition sinit : sstate := {| s_alive := true; s_errors := 0; s_cost := 0; s_wire := []; s_closing := false |}.
Definition handler_ends (base : Q) (p : proto) (s : sstate) (x : option json * outcome) : sstate :=
  let '(rid, o) := x in
  let f := finish (match rid with Some _ => true | None => false end) o in
  {| s_alive := s_alive s;
     s_errors := match f_failed f with Some _ => (s_errors s + 1)%Z | None => s_errors s end;
     s_cost := match f_failed f with Some k => s_cost s + base + k | None => s_cost s end;
     s_wire := match reply_of p rid o with Some r => s_wire s ++ [r] | None => s_wire s end;
     s_closing := s_closing s || f_disconnect f |}.
Definition serve_all (base : Q) (p : proto) (xs : list (option json * outcome)) : sstate :=
  fold_left (handler_ends base p) xs sinit.

(* ---- correspondence: per finished request the reply signature, plus the counters ---- *)
Definition sig_of_reply (r : json) : esig := entry_sig r.
Definition c03_ok (x : list (option json * outcome) * list esig * Z * bool) : bool :=
  let '(xs, sigs, errs, closing) := x in
  let s := serve_all sb_error_base_cost V2 xs in
  list_eqb esig_eqb (map sig_of_reply (s_wire s)) sigs && (s_errors s =? errs)%Z &&
  Bool.eqb (s_closing s) closing.
