(* Executable model of aiorpcx.jsonrpc.JSONRPCConnection (jsonrpc.py:578-749): request ids,
   the table of outstanding requests and batches, receive_message with response matching,
   request batches and their reply closure, _send_result with the response size limit.
   No proofs here. *)
From AV Require Import Base Utf8 Json Gen_jsonrpc Codec.
Local Open Scope N_scope.

(* ---------- how an incoming id compares with the integer ids we handed out ---------- *)
(* value of a float repr token when it is integral (Python: 1 == 1.0, hash equal) *)
Definition tok_digits (s : text) : option (text * text) :=
  let '(d, r) := take_digits s [] in match d with [] => None | _ => Some (d, r) end.
Definition float_tok_int (t : text) : option Z :=
  let '(neg, s) := match t with 45 :: r => (true, r) | _ => (false, t) end in
  match tok_digits s with
  | None => None
  | Some (ip, r) =>
      let '(fp, r2) := match r with
                       | 46 :: r' => match tok_digits r' with Some (f, r'') => (f, r'') | None => ([], r) end
                       | _ => ([], r) end in
      let '(ex, ok) := match r2 with
                       | [] => (0%Z, true)
                       | 101 :: 43 :: e => (Z.of_N (digits_value e), forallb is_digit e && negb (match e with [] => true | _ => false end))
                       | 101 :: 45 :: e => ((- Z.of_N (digits_value e))%Z, forallb is_digit e && negb (match e with [] => true | _ => false end))
                       | 101 :: e => (Z.of_N (digits_value e), forallb is_digit e && negb (match e with [] => true | _ => false end))
                       | _ => (0%Z, false) end in
      if negb ok then None else
      (* mantissa = ip.fp as the integer ip*10^|fp| + fp, exponent ex - |fp| *)
      let mant := Z.of_N (digits_value (ip ++ fp)) in
      let e10 := (ex - Z.of_nat (length fp))%Z in
      let v := if (0 <=? e10)%Z then Some (mant * 10 ^ e10)%Z
               else let d := (10 ^ (- e10))%Z in if (mant mod d =? 0)%Z then Some (mant / d)%Z else None in
      match v with Some z => Some (if neg then (- z)%Z else z) | None => None end
  end.

Inductive idclass :=
| INum (z : Z)        (* equal to the int z (int, bool, integral float) *)
| IOther              (* hashable, never equal to an int: str, null, other floats *)
| IUnhashable.        (* list, dict *)
Definition classify_id (j : json) : idclass :=
  match j with
  | JInt z => INum z
  | JBool b => INum (if b then 1 else 0)%Z
  | JFloat t => match float_tok_int t with Some z => INum z | None => IOther end
  | JStr _ | JNull => IOther
  | JArr _ | JObj _ => IUnhashable
  end.

(* ---------- state ---------- *)
Inductive key := KOne (i : N) | KMany (ids : list N).
Definition key_eqb (a b : key) : bool :=
  match a, b with
  | KOne x, KOne y => N.eqb x y
  | KMany x, KMany y => list_eqb N.eqb x y
  | _, _ => false
  end.

Record conn := {
  cproto : option proto;        (* None = JSONRPCAutoDetect, not yet settled *)
  next_id : N;                  (* itertools.count() *)
  reqs : list key;              (* self._requests, insertion order *)
  max_response_size : N;
}.
Definition new_conn (p : option proto) : conn :=
  {| cproto := p; next_id := 0; reqs := []; max_response_size := 0 |}.

Definition has_key (k : key) (c : conn) : bool := existsb (key_eqb k) (reqs c).
Definition remove_key (k : key) (l : list key) : list key := filter (fun x => negb (key_eqb k x)) l.
Definition set_reqs (c : conn) (r : list key) (n : N) (p : option proto) : conn :=
  {| cproto := p; next_id := n; reqs := r; max_response_size := max_response_size c |}.

Definition effective (c : conn) : proto := match cproto c with Some p => p | None => V2 end.

(* ---------- sending ---------- *)
(* send_request: (message, new state); None = ProtocolError from the encoder, the id is consumed *)
Definition send_request (c : conn) (meth : text) (args : json) : option bytes * conn :=
  let i := next_id c in
  match request_payload (effective c) meth args (JInt (Z.of_N i)) with
  | Some p => (Some (encode_payload p), set_reqs c (reqs c ++ [KOne i]) (i + 1) (cproto c))
  | None => (None, set_reqs c (reqs c) (i + 1) (cproto c))
  end.

(* send_batch: members = (method, args, is_request) *)
Fixpoint assign_ids (ms : list (text * json * bool)) (n : N) : list (text * json * json) * list N * N :=
  match ms with
  | [] => ([], [], n)
  | (m, a, true) :: r => let '(ps, ids, n') := assign_ids r (n + 1) in ((m, a, JInt (Z.of_N n)) :: ps, n :: ids, n')
  | (m, a, false) :: r => let '(ps, ids, n') := assign_ids r n in ((m, a, JNull) :: ps, ids, n')
  end.
Definition send_batch (c : conn) (ms : list (text * json * bool)) : option bytes * conn :=
  let '(ps, ids, n') := assign_ids ms (next_id c) in
  match batch_message (effective c) ps with
  | Some b => (Some b, set_reqs c (match ids with [] => reqs c | _ => reqs c ++ [KMany ids] end) n' (cproto c))
  | None => (None, set_reqs c (reqs c) n' (cproto c))
  end.

(* ---------- receiving ---------- *)
(* the reply closure of a request batch (item_send_result) *)
Record bctx := { parts : list bytes; count : nat; bsize : N }.

Inductive todo :=
| TRequest (meth : text) (args : json) (id : json) (batch : option nat)   (* Some b: member of batch context b *)
| TNotification (meth : text) (args : json).

Inductive rout :=
| RItems (l : list todo) (ctx : option bctx)      (* requests / notifications to process *)
| RCompleted (k : key) (vs : list (respval + Z))
    (* the future of [k] completes: a single request with its value or with the ProtocolError
       found in its response (inr code); a batch with one value per request, in id order *)
| RProtoErr (code : Z) (reply : option bytes)     (* ProtocolError; Some = error_message for the peer *)
| REscape.                                        (* another exception type escapes *)

(* error reply text for a ProtocolError that must be sent; the message text is not modelled *)
Definition err_reply (p : proto) (code : Z) (rid : json) : bytes :=
  encode_payload (error_payload p (JInt code) [] rid).

(* an id that cannot be looked up (list / dict: unhashable) or ids that cannot be ordered (str vs
   number vs null) are answered like any other unknown id: ProtocolError, nothing sent
   (jsonrpc.py, after the fixes of F5 / F6) *)
Definition rout_unhashable : rout := RProtoErr INVALID_REQUEST None.
Definition rout_unsortable : rout := RProtoErr INVALID_REQUEST None.

(* _receive_response *)
Definition receive_response (c : conn) (v : respval + Z) (rid : json) : rout * conn :=
  match classify_id rid with
  | IUnhashable => (rout_unhashable, c)
  | IOther => (RProtoErr INVALID_REQUEST None, c)
  | INum z =>
      if (z <? 0)%Z then (RProtoErr INVALID_REQUEST None, c)
      else let k := KOne (Z.to_N z) in
           if has_key k c
           then (RCompleted k [v],
                 set_reqs c (remove_key k (reqs c)) (next_id c) (cproto c))
           else (RProtoErr INVALID_REQUEST None, c)
  end.

(* sorted(zip(ids, results), key=ids): insertion sort on the numeric value; None when two ids
   are not mutually comparable (str vs number, None, ...) *)
Inductive ordkey := ONum (q : Z * Z) | OStr (s : text) | ONone.   (* q = numerator, positive denominator *)
Definition ord_of (j : json) : option ordkey :=
  match j with
  | JInt z => Some (ONum (z, 1%Z))
  | JBool b => Some (ONum ((if b then 1 else 0)%Z, 1%Z))
  | JFloat t => match float_tok_int t with Some z => Some (ONum (z, 1%Z)) | None => None end  (* non-integral floats: not generated *)
  | JStr s => Some (OStr s)
  | JNull => Some ONone
  | _ => None
  end.
(* Some true: a < b ; Some false: not a < b ; None: TypeError *)
Fixpoint text_ltb (a b : text) : bool :=
  match a, b with
  | [], [] => false | [], _ => true | _, [] => false
  | x :: a', y :: b' => if x <? y then true else if y <? x then false else text_ltb a' b'
  end.
Definition ord_lt (a b : ordkey) : option bool :=
  match a, b with
  | ONum (x, _), ONum (y, _) => Some (x <? y)%Z
  | OStr x, OStr y => Some (text_ltb x y)
  | _, _ => None
  end.
Fixpoint insert_sorted {A} (k : ordkey) (v : A) (l : list (ordkey * A)) : option (list (ordkey * A)) :=
  match l with
  | [] => Some [(k, v)]
  | (k', v') :: r =>
      match ord_lt k k' with
      | None => None
      | Some true => Some ((k, v) :: l)
      | Some false => match insert_sorted k v r with Some r' => Some ((k', v') :: r') | None => None end
      end
  end.

(* _receive_response_batch *)
Fixpoint batch_responses (p : proto) (payloads : list json) : (list (json * respval)) + (Z * json) :=
  match payloads with
  | [] => inl []
  | m :: r =>
      match process_response p m with
      | MItem (IResponse v rid) =>
          match batch_responses p r with inl l => inl ((rid, v) :: l) | inr e => inr e end
      | MErrResp c rid => inr (c, rid)
      | _ => inr (INVALID_REQUEST, JNull)
      end
  end.

Definition receive_response_batch (c : conn) (p : proto) (payloads : list json) : rout * conn :=
  match batch_responses p payloads with
  | inr (code, _) => (RProtoErr code None, c)
  | inl rs =>
      (* stable sort by id; comparing e.g. 1 and "a" raises TypeError *)
      let sorted := fold_left (fun acc x =>
                       match acc, ord_of (fst x) with
                       | Some l, Some k => insert_sorted k x l
                       | _, _ => None
                       end) rs (Some []) in
      match sorted with
      | None => (rout_unsortable, c)
      | Some l =>
          let ids := map (fun kx => classify_id (fst (snd kx))) l in
          let nums := map (fun i => match i with INum z => if (0 <=? z)%Z then Some (Z.to_N z) else None | _ => None end) ids in
          match all_some nums with
          | None => (RProtoErr INVALID_REQUEST None, c)
          | Some ns =>
              let k := KMany ns in
              if has_key k c
              then (RCompleted k (map (fun kx => inl (snd (snd kx))) l),
                    set_reqs c (remove_key k (reqs c)) (next_id c) (cproto c))
              else (RProtoErr INVALID_REQUEST None, c)
          end
      end
  end.

(* _receive_request_batch *)
Fixpoint request_batch (p : proto) (payloads : list json) (items : list todo) (ps : list bytes) (cnt : nat)
  : list todo * list bytes * nat :=
  match payloads with
  | [] => (items, ps, cnt)
  | m :: r =>
      match process_request p m with
      | MItem (IRequest meth args rid) => request_batch p r (items ++ [TRequest meth args rid (Some 0%nat)]) ps (S cnt)
      | MItem (INotification meth args) => request_batch p r (items ++ [TNotification meth args]) ps cnt
      | MErrSend code rid => request_batch p r items (ps ++ [err_reply p code rid]) (S cnt)
      | _ => request_batch p r items ps cnt
      end
  end.

Definition is_response_payload (m : json) : bool := is_dict m && (has k_result m || has k_error m).

(* receive_message *)
Definition receive_message (c : conn) (msg : bytes) : rout * conn :=
  (* protocol detection for JSONRPCAutoDetect: needs the payload *)
  match message_to_payload msg with
  | inr f =>
      match dfail_code f with
      | Some code => (RProtoErr code (Some (err_reply (effective c) code JNull)), c)
      | None => (REscape, c)
      end
  | inl m =>
      let p := match cproto c with Some p => p | None => detect_protocol m end in
      let c := set_reqs c (reqs c) (next_id c) (Some p) in
      match payload_to_item p m with
      | MErrSend code rid => (RProtoErr code (Some (err_reply p code rid)), c)
      | MErrResp code rid => receive_response c (inr code) rid
      | MItem (IRequest meth args rid) => (RItems [TRequest meth args rid None] None, c)
      | MItem (INotification meth args) => (RItems [TNotification meth args] None, c)
      | MItem (IResponse v rid) => receive_response c (inl v) rid
      | MItem (IBatch payloads) =>
          if forallb is_response_payload payloads then receive_response_batch c p payloads
          else let '(items, ps, cnt) := request_batch p payloads [] [] 0 in
               match items, ps with
               | [], _ :: _ => (RProtoErr 0 (Some (batch_text ps)), c)
               | _, _ => (RItems items (Some {| parts := ps; count := cnt; bsize := 0 |}), c)
               end
      end
  end.

(* ---------- replying ---------- *)
(* _oversized_response_message *)
Definition oversized_reply (p : proto) (rid : json) : bytes :=
  encode_payload (error_payload p (JInt INVALID_REQUEST) [] rid).

(* _send_result: the message to send for a single request *)
Definition send_result (c : conn) (p : proto) (rid : json) (r : respval) : bytes :=
  let m := encode_payload (respval_payload p r rid) in
  if (0 <? max_response_size c) && (max_response_size c <? N.of_nat (length m)) then oversized_reply p rid else m.

(* item_send_result of a batch closure: new context, and the batch message once complete *)
Definition batch_send_result (c : conn) (p : proto) (ctx : bctx) (rid : json) (r : respval)
  : bctx * option bytes :=
  let part := encode_payload (respval_payload p r rid) in
  let size := bsize ctx + N.of_nat (length part) + 2 in
  let part := if (0 <? max_response_size c) && (max_response_size c <? size) then oversized_reply p rid else part in
  let ps := parts ctx ++ [part] in
  let ctx' := {| parts := ps; count := count ctx; bsize := size |} in
  (ctx', if Nat.eqb (length ps) (count ctx) then Some (batch_text ps) else None).

(* cancel_pending_requests *)
Definition cancel_all (c : conn) : list key * conn :=
  (reqs c, set_reqs c [] (next_id c) (cproto c)).

(* ================= correspondence: operation traces against the real connection ================= *)
(* a reply is compared through its signature: per entry the id and either the result value or
   the error code (error message texts of library-generated errors are not modelled) *)
Inductive esig := SResult (id v : json) | SError (id code : json) | SOther.
Definition entry_sig (m : json) : esig :=
  match get k_error m with
  | Some (JObj e) => match obj_get k_code e with Some c => SError (getn k_id m) c | None => SOther end
  | _ => match get k_result m with Some v => SResult (getn k_id m) v | None => SOther end
  end.
Definition msg_sig (b : bytes) : option (list esig) :=
  match message_to_payload b with
  | inl (JArr l) => Some (map entry_sig l)
  | inl m => Some [entry_sig m]
  | inr _ => None
  end.
Definition esig_eqb (a b : esig) : bool :=
  match a, b with
  | SResult i v, SResult i' v' => json_eqb i i' && json_eqb v v'
  | SError i c, SError i' c' => json_eqb i i' && json_eqb c c'
  | SOther, SOther => true
  | _, _ => false
  end.
Definition reply_eqb (a b : option bytes) : bool :=
  match a, b with
  | None, None => true
  | Some x, Some y => match msg_sig x, msg_sig y with
                      | Some sx, Some sy => list_eqb esig_eqb sx sy
                      | _, _ => false end
  | _, _ => false
  end.

Inductive robs :=
| BItems (l : list (bool * text * json * json))       (* is_request, method, args, id *)
| BCompleted (k : key) (vs : list (respval + Z))
| BProtoErr (code : Z) (reply : option bytes)
| BEscape.

Inductive cop :=
| OSendRequest (meth : text) (args : json) (obs : option bytes)
| OSendNotification (meth : text) (args : json) (obs : option bytes)
| OSendBatch (ms : list (text * json * bool)) (obs : option bytes)
| OReceive (msg : bytes) (obs : robs) (pending : nat)
| OSendResult (req : nat) (r : respval) (obs : option bytes)
| OCancelAll (n : nat)
| OSetMax (n : N).

Record tstate := { t_conn : conn; t_reqs : list (json * option nat); t_ctxs : list bctx }.

Definition val_eqb (a b : respval + Z) : bool :=
  match a, b with
  | inl r, inl r' => respval_eqb r r'
  | inr x, inr y => Z.eqb x y
  | _, _ => false
  end.
Definition todo_sig (t : todo) : bool * text * json * json :=
  match t with
  | TRequest m a i _ => (true, m, a, i)
  | TNotification m a => (false, m, a, JNull)
  end.
Definition sig4_eqb (a b : bool * text * json * json) : bool :=
  let '(r, m, x, i) := a in let '(r', m', x', i') := b in
  Bool.eqb r r' && text_eqb m m' && json_eqb x x' && json_eqb i i'.

Definition rout_matches (o : rout) (b : robs) : bool :=
  match o, b with
  | RItems l _, BItems l' => list_eqb sig4_eqb (map todo_sig l) l'
  | RCompleted k vs, BCompleted k' vs' => key_eqb k k' && list_eqb val_eqb vs vs'
  | RProtoErr c r, BProtoErr c' r' => Z.eqb c c' && reply_eqb r r'
  | REscape, BEscape => true
  | _, _ => false
  end.

Definition tstep (s : tstate) (o : cop) : option tstate :=
  let c := t_conn s in
  match o with
  | OSendRequest m a obs =>
      let '(msg, c') := send_request c m a in
      if option_eqb bytes_eqb msg obs then Some {| t_conn := c'; t_reqs := t_reqs s; t_ctxs := t_ctxs s |} else None
  | OSendNotification m a obs =>
      if option_eqb bytes_eqb (option_map encode_payload (request_payload (effective c) m a JNull)) obs
      then Some s else None
  | OSendBatch ms obs =>
      let '(msg, c') := send_batch c ms in
      if option_eqb bytes_eqb msg obs then Some {| t_conn := c'; t_reqs := t_reqs s; t_ctxs := t_ctxs s |} else None
  | OReceive msg obs pending =>
      let '(r, c') := receive_message c msg in
      if rout_matches r obs && Nat.eqb (length (reqs c')) pending then
        match r with
        | RItems l ctx =>
            let ci := length (t_ctxs s) in
            let newreqs := flat_map (fun t => match t with
                                              | TRequest _ _ i b => [(i, match b with Some _ => Some ci | None => None end)]
                                              | _ => [] end) l in
            Some {| t_conn := c'; t_reqs := t_reqs s ++ newreqs;
                    t_ctxs := match ctx with Some x => t_ctxs s ++ [x] | None => t_ctxs s end |}
        | _ => Some {| t_conn := c'; t_reqs := t_reqs s; t_ctxs := t_ctxs s |}
        end
      else None
  | OSendResult i r obs =>
      match nth_error (t_reqs s) i with
      | None => None
      | Some (rid, None) =>
          if reply_eqb (Some (send_result c (effective c) rid r)) obs then Some s else None
      | Some (rid, Some ci) =>
          match nth_error (t_ctxs s) ci with
          | None => None
          | Some ctx =>
              let '(ctx', msg) := batch_send_result c (effective c) ctx rid r in
              if reply_eqb msg obs
              then Some {| t_conn := c; t_reqs := t_reqs s;
                           t_ctxs := firstn ci (t_ctxs s) ++ ctx' :: skipn (S ci) (t_ctxs s) |}
              else None
          end
      end
  | OCancelAll n =>
      let '(ks, c') := cancel_all c in
      if Nat.eqb (length ks) n then Some {| t_conn := c'; t_reqs := t_reqs s; t_ctxs := t_ctxs s |} else None
  | OSetMax n =>
      Some {| t_conn := {| cproto := cproto c; next_id := next_id c; reqs := reqs c; max_response_size := n |};
              t_reqs := t_reqs s; t_ctxs := t_ctxs s |}
  end.

(* index of the first operation whose observation the model does not reproduce *)
Fixpoint trace_firstbad (s : tstate) (ops : list cop) (i : nat) : option nat :=
  match ops with
  | [] => None
  | o :: r => match tstep s o with Some s' => trace_firstbad s' r (S i) | None => Some i end
  end.
Definition conn_ok (x : option proto * list cop) : bool :=
  match trace_firstbad {| t_conn := new_conn (fst x); t_reqs := []; t_ctxs := [] |} (snd x) 0 with
  | None => true | Some _ => false end.
