(* The SOCKS request builders as the SOURCE has them: SOCKS4._start (inherited by SOCKS4a), SOCKS5._destination_bytes and
   SOCKS5._authentication are translated statement by statement on every run (gen/Gen_socks.v: socks4_start_code,
   socks5_destination_code, socks5_authentication_code : list sst over byte expressions sbx).  This file gives them a meaning:
     - the inputs are the destination (an IPv4Address / IPv6Address object, or a host name), the port and the credentials;
       `.packed` exists on address objects only, `.encode()` on names only (anything else: stuck);
     - bytes([...]) accepts values below 256 only;
     - a SOCKSProtocolError raised by a length test ends the run with RProto, a failed assert with RAssert.
   proof/SocksCodeProofs.v shows the runs equal to the hand-written builders of model/Socks.v.  No proofs here. *)
From AV Require Import Base Gen_socks Socks.

Record sin := { i_dest : dest; i_port : N; i_auth : option auth }.

Definition svar_eqb (a b : svar) : bool :=
  match a, b with
  | VDstIp, VDstIp | VHostBytes, VHostBytes | VUserId, VUserId | VAddrBytes, VAddrBytes | VHost, VHost
  | VUserBytes, VUserBytes | VPwdBytes, VPwdBytes => true
  | _, _ => false
  end.

Definition senv := list (svar * bytes).
Fixpoint lookup (env : senv) (v : svar) : option bytes :=
  match env with
  | [] => None
  | (w, b) :: r => if svar_eqb w v then Some b else lookup r v
  end.

Fixpoint items_eval (env : senv) (l : list sitem) : option bytes :=
  match l with
  | [] => Some []
  | it :: r =>
      match (match it with
             | ILit n => if (n <? 256)%N then Some n else None
             | ILen v => match lookup env v with
                         | Some b => if (length b <? 256)%nat then Some (N.of_nat (length b)) else None
                         | None => None end
             | IUnknown => None
             end), items_eval env r with
      | Some x, Some y => Some (x :: y)
      | _, _ => None
      end
  end.

Fixpoint xeval (i : sin) (env : senv) (e : sbx) : option bytes :=
  match e with
  | XLit l => Some l
  | XVar v => lookup env v
  | XHostPacked => match i_dest i with DV4 a | DV6 a => Some a | DHost _ => None end
  | XHostEncode => match i_dest i with DHost h => Some h | _ => None end
  | XUserEncode => match i_auth i with Some a => Some (a_user a) | None => None end
  | XPwdEncode => match i_auth i with Some a => Some (a_pass a) | None => None end
  | XPackPort => Some (be_bytes 2 (i_port i))
  | XConcat a b => match xeval i env a, xeval i env b with Some x, Some y => Some (x ++ y) | _, _ => None end
  | XJoin l => (fix go (l : list sbx) : option bytes :=
                  match l with
                  | [] => Some []
                  | x :: r => match xeval i env x, go r with Some a, Some b => Some (a ++ b) | _, _ => None end
                  end) l
  | XBytesOf l => items_eval env l
  | XUnknown => None
  end.

Inductive sres := RBytes (b : bytes) | RPair (b : bytes) (methods : list N) | RProto | RAssert | RStuck.

Fixpoint sexec (fuel : nat) (i : sin) (env : senv) (k : list sst) : sres :=
  match fuel with
  | O => RStuck
  | S f =>
      match k with
      | [] => RStuck                               (* fell off the end: the builder returned nothing *)
      | s :: r =>
          match s with
          | SSetState => sexec f i env r
          | SAssign v e => match xeval i env e with Some b => sexec f i ((v, b) :: env) r | None => RStuck end
          | SIfHost4 a b => sexec f i env ((match i_dest i with DV4 _ => a | _ => b end) ++ r)
          | SIfHost6 a b => sexec f i env ((match i_dest i with DV6 _ => a | _ => b end) ++ r)
          | SIfAuth a b => sexec f i env ((match i_auth i with Some _ => a | None => b end) ++ r)
          | SRaiseUnlessLen v lo hi =>
              match lookup env v with
              | Some b => if (lo <? length b)%nat && (length b <? hi)%nat then sexec f i env r else RProto
              | None => RStuck
              end
          | SAssertHostIsName => match i_dest i with DHost _ => sexec f i env r | _ => RAssert end
          | SAssertLenLe v n =>
              match lookup env v with
              | Some b => if (length b <=? n)%nat then sexec f i env r else RAssert
              | None => RStuck
              end
          | SReturn e => match xeval i env e with Some b => RBytes b | None => RStuck end
          | SReturnPair e m => match xeval i env e with Some b => RPair b m | None => RStuck end
          | SUnknown => RStuck
          end
      end
  end.

Definition SFUEL : nat := 24.
Definition run_builder (code : list sst) (i : sin) : sres := sexec SFUEL i [] code.

(* every construct of the three functions was understood *)
Fixpoint xknown (e : sbx) : bool :=
  match e with
  | XUnknown => false
  | XConcat a b => xknown a && xknown b
  | XJoin l => (fix go (l : list sbx) : bool := match l with [] => true | x :: r => xknown x && go r end) l
  | XBytesOf l => forallb (fun it => match it with IUnknown => false | _ => true end) l
  | _ => true
  end.
Fixpoint sknown (fuel : nat) (k : list sst) : bool :=
  match fuel with
  | O => false
  | S f =>
      forallb (fun s => match s with
                        | SUnknown => false
                        | SAssign _ e | SReturn e | SReturnPair e _ => xknown e
                        | SIfHost4 a b | SIfHost6 a b | SIfAuth a b => sknown f a && sknown f b
                        | _ => true
                        end) k
  end.

(* ---- the reply side (gen/Gen_socks.v: socks4_first_response_code, socks5_first_response_code, socks5_auth_response_code,
   socks5_connect_response_code, socks5_connect_response_rest_code) and the two remaining builders socks5_start_code,
   socks5_request_connection_code.  One call of a state method: _read(n) has delivered the bytes d (the caller, next_message /
   _handshake, supplies them - model/Socks.v `need`); the statements then decide what happens: an exception, a message to
   send and the next state, "call next_message() again" with the next state, or None (finished). ---- *)
Fixpoint rcond_eval (c : cfg) (d : bytes) (x : rcond) : option bool :=
  match x with
  | CNe i v => Some (negb (N.eqb (nth0 d i) v))
  | CEq i v => Some (N.eqb (nth0 d i) v)
  | CNotInMethods i => Some (negb (mem (nth0 d i) (auth_methods (c_auth c))))
  | CNotIn i l => Some (negb (mem (nth0 d i) l))
  | COr a b => match rcond_eval c d a, rcond_eval c d b with Some p, Some q => Some (p || q) | _, _ => None end
  | CUnknown => None
  end.

Definition state_of (q : qstate) : state := match q with QFirst => S5First | QAuth => S5Auth | QConn => S5Conn end.

Inductive rres := RAct (a : action) (read : option nat) | RRStuck.

(* st: the state a `self._state = ...` has set so far; al: addr_len; rd: what _read was asked for *)
Fixpoint rexec (fuel : nat) (c : cfg) (d : bytes) (st : option state) (al : option nat) (rd : option nat) (k : list rst) : rres :=
  match fuel with
  | O => RRStuck
  | S f =>
      match k with
      | [] => RRStuck
      | s :: r =>
          match s with
          | RRead n => rexec f c d st al (Some n) r
          | RReadRest => match al with Some a => rexec f c d st al (Some (a + 2)) r | None => RRStuck end
          | RIf x a b => match rcond_eval c d x with
                         | Some true => rexec f c d st al rd (a ++ r)
                         | Some false => rexec f c d st al rd (b ++ r)
                         | None => RRStuck
                         end
          | RRaiseProto => RAct (Raise ProtoErr) rd
          | RRaiseFail => RAct (Raise Failure) rd
          | RSetState q => rexec f c d (Some (state_of q)) al rd r
          | RSetStateRest => match al with Some a => rexec f c d (Some (S5Rest a)) al rd r | None => RRStuck end
          | RSetAddrLen (ALit n) => rexec f c d st (Some n) rd r
          | RSetAddrLen (AData i) => rexec f c d st (Some (N.to_nat (nth0 d i))) rd r
          | RReturnAuthBytes => match st with Some q => RAct (Send (auth_bytes (c_auth c)) q) rd | None => RRStuck end
          | RReturnRequestConnection =>
              (* inlines socks5_request_connection_code: sets the state, returns the CONNECT request *)
              match rexec f c d st al rd socks5_request_connection_code with
              | RAct a _ => RAct a rd
              | RRStuck => RRStuck
              end
          | RReturnNext => match st with Some q => RAct (Continue q) rd | None => RRStuck end
          | RReturnNone => RAct Finish rd
          | RReturnGreeting => match st with
                               | Some q => RAct (Send (s5_version :: N.of_nat (length (auth_methods (c_auth c))) :: auth_methods (c_auth c)) q) rd
                               | None => RRStuck end
          | RReturnConnect => match st with
                              | Some q => RAct (Send ([5; 1; 0]%N ++ destination_bytes (c_dest c) (c_port c)) q) rd
                              | None => RRStuck end
          | RUnknown => RRStuck
          end
      end
  end.

Definition run_reply (code : list rst) (c : cfg) (d : bytes) : rres := rexec SFUEL c d None None None code.
Definition run_rest (c : cfg) (n : nat) (d : bytes) : rres := rexec SFUEL c d None (Some n) None socks5_connect_response_rest_code.
