(* TaskGroup._on_done and TaskGroup._add_task as REGENERATED from the source (gen/Gen_curio.v: on_done_code,
   add_task_code) and an interpreter that runs them on the state of model/TaskGroup.v.
   proof/TaskGroupCodeProofs.v shows that the generated code does what the model's [on_done] / [add_task] do.
   (The `tasks` attribute - retain - is not part of the model's state: statements on it are no-ops here.) *)
From AV Require Import Base Gen_curio TaskGroup.

Record gctx := { c_t : N; c_daemon : bool; c_status : mstatus }.    (* the task the method is called with *)

(* what the method can see of the group and the task when it is entered (neither method changes these) *)
Record gview := { v_hasgroup : bool; v_joined : bool }.
Definition view (g : tg) (t : N) : gview :=
  {| v_hasgroup := match get t (members g) with Some _ => true | None => false end; v_joined := joined g |}.

Definition gtest (v : gview) (x : gctx) (c : gcond) : option bool :=
  match c with
  | GIsDaemon => Some (c_daemon x)
  | GNotDaemon => Some (negb (c_daemon x))
  | GRetainOff => Some true
  | GJoined => Some (v_joined v)
  | GHasGroup => Some (v_hasgroup v)
  | GTaskDone => Some (match c_status x with Fin _ => true | _ => false end)
  | GCUnknown => None
  end.

Inductive gres := GOk (g : tg) | GRaised | GBadCode.

Fixpoint grun (fuel : nat) (v : gview) (g : tg) (x : gctx) (ss : list gstmt) : gres :=
  match fuel with
  | O => GBadCode
  | S f =>
      match ss with
      | [] => GOk g
      | s :: rest =>
          let t := c_t x in
          match s with
          | GIf c a b =>
              match gtest v x c with
              | Some true => grun f v g x (a ++ rest)
              | Some false => grun f v g x (b ++ rest)
              | None => GBadCode
              end
          | GRaise => GRaised
          | GSetGroupNone | GTasksRemove | GTasksAdd | GReadDaemon => grun f v g x rest
          | GSetGroupSelf =>
              grun f v (upd_members g (set t {| m_daemon := c_daemon x; m_status := c_status x; m_cbs := [] |} (members g))) x rest
          | GDaemonsDiscard => grun f v (upd_group g (pending g) (removeN t (daemons g)) (doneq g) (semv g)) x rest
          | GPendingDiscard => grun f v (upd_group g (removeN t (pending g)) (daemons g) (doneq g) (semv g)) x rest
          | GDoneAppend => grun f v (upd_group g (pending g) (daemons g) (doneq g ++ [t]) (semv g)) x rest
          | GSemRelease => grun f v (sem_release g) x rest
          | GCallOnDone => grun f v g x (on_done_code ++ rest)
          | GDaemonsAdd => grun f v (upd_group g (pending g) (daemons g ++ [t]) (doneq g) (semv g)) x rest
          | GPendingAdd => grun f v (upd_group g (pending g ++ [t]) (daemons g) (doneq g) (semv g)) x rest
          | GAddCallback =>
              grun f v (upd_members g (set t {| m_daemon := c_daemon x; m_status := c_status x; m_cbs := [OnDone t] |} (members g))) x rest
          | GSUnknown => GBadCode
          end
      end
  end.
