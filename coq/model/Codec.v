(* Executable model of the JSON-RPC codec, aiorpcx.jsonrpc (jsonrpc.py:40-575): per protocol
   class the payload builders and classifiers, message_to_item, detect_protocol.  Payloads are
   [json] values (lib/Json.v); the text level is Json.print / Json.loads + Utf8.  No proofs. *)
From Coq Require Import String Ascii.
From AV Require Import Base Utf8 Json Gen_jsonrpc.
Local Open Scope N_scope.

Definition T (s : string) : text := map (fun a => N.of_nat (nat_of_ascii a)) (list_ascii_of_string s).

Definition k_id : text := Eval vm_compute in T "id".
Definition k_jsonrpc : text := Eval vm_compute in T "jsonrpc".
Definition k_params : text := Eval vm_compute in T "params".
Definition k_method : text := Eval vm_compute in T "method".
Definition k_message : text := Eval vm_compute in T "message".
Definition k_code : text := Eval vm_compute in T "code".
Definition k_result : text := Eval vm_compute in T "result".
Definition k_error : text := Eval vm_compute in T "error".
Definition s_2_0 : text := Eval vm_compute in T "2.0".
Definition s_1_0 : text := Eval vm_compute in T "1.0".
Definition s_no_msg : text := Eval vm_compute in T "no error message provided".

Inductive proto := V1 | V2 | Loose.

Definition PARSE_ERROR := code_PARSE_ERROR.
Definition INVALID_REQUEST := code_INVALID_REQUEST.
Definition METHOD_NOT_FOUND := code_METHOD_NOT_FOUND.
Definition INVALID_ARGS := code_INVALID_ARGS.
Definition ERROR_CODE_UNAVAILABLE := code_ERROR_CODE_UNAVAILABLE.

Definition allow_batches (p : proto) : bool :=
  match p with V1 => v1_allow_batches | V2 => v2_allow_batches | Loose => loose_allow_batches end.

(* what a response carries *)
Inductive respval :=
| RResult (v : json)
| RError (code : json) (msg : text).     (* RPCError(code, message); code is an int or a bool *)

Inductive item :=
| IRequest (method : text) (args : json) (id : json)
| INotification (method : text) (args : json)
| IResponse (r : respval) (id : json)
| IBatch (payloads : list json).

(* outcome of message_to_item / _process_request / _process_response *)
Inductive mres :=
| MItem (i : item)
| MErrSend (code : Z) (id : json)    (* ProtocolError carrying an error reply for the peer under [id] *)
| MErrResp (code : Z) (id : json).   (* ProtocolError found inside a response with that id *)

Definition is_dict (j : json) := match j with JObj _ => true | _ => false end.
Definition is_list (j : json) := match j with JArr _ => true | _ => false end.
Definition is_str (j : json) := match j with JStr _ => true | _ => false end.
Definition is_int (j : json) := match j with JInt _ | JBool _ => true | _ => false end.   (* bool is an int *)
Definition is_null (j : json) := match j with JNull => true | _ => false end.
(* isinstance(x, (Number, str, type(None))) *)
Definition valid_v2_id (j : json) : bool :=
  match j with JInt _ | JBool _ | JFloat _ | JStr _ | JNull => true | _ => false end.

Definition members (j : json) : list (text * json) := match j with JObj l => l | _ => [] end.
Definition get (k : text) (j : json) : option json := obj_get k (members j).
Definition has (k : text) (j : json) : bool := obj_has k (members j).
(* payload.get(k) : None when absent *)
Definition getn (k : text) (j : json) : json := match get k j with Some v => v | None => JNull end.

(* _message_id : inl id | inr error code *)
Definition message_id (p : proto) (m : json) (require_id : bool) : json + Z :=
  match p with
  | V1 => match get k_id m with Some i => inl i | None => inr INVALID_REQUEST end
  | _ =>
      if negb (is_dict m) then inr INVALID_REQUEST
      else match get k_id m with
           | Some i => if valid_v2_id i then inl i else inr INVALID_REQUEST
           | None => if require_id then inr INVALID_REQUEST else inl JNull
           end
  end.

(* _validate_message : Some code = raises *)
Definition validate (p : proto) (m : json) : option Z :=
  match p with
  | V2 => match get k_jsonrpc m with
          | Some (JStr s) => if text_eqb s s_2_0 then None else Some INVALID_REQUEST
          | _ => Some INVALID_REQUEST
          end
  | _ => None
  end.

(* _request_args *)
Definition request_args (p : proto) (m : json) : json + Z :=
  match p with
  | V1 => let a := getn k_params m in if is_list a then inl a else inr INVALID_ARGS
  | _ => let a := match get k_params m with Some a => a | None => JArr [] end in
         if is_dict a || is_list a then inl a else inr INVALID_ARGS
  end.

(* _process_request *)
Definition process_request (p : proto) (m : json) : mres :=
  match message_id p m false with
  | inr c => MErrSend c JNull
  | inl rid =>
    match validate p m with
    | Some c => MErrSend c rid
    | None =>
      match request_args p m with
      | inr c => MErrSend c rid
      | inl args =>
        match getn k_method m with
        | JStr meth => MItem (if is_null rid then INotification meth args else IRequest meth args rid)
        | _ => MErrSend METHOD_NOT_FOUND rid
        end
      end
    end
  end.

(* JSONRPCv1._best_effort_error *)
Definition best_effort_error (e : json) : respval :=
  match e with
  | JStr s => RError (JInt ERROR_CODE_UNAVAILABLE) s
  | JInt _ | JBool _ => RError e s_no_msg
  | JObj _ =>
      let msg := match get k_message e with Some (JStr s) => s | _ => s_no_msg end in
      let code := match get k_code e with
                  | Some c => if is_int c then c else JInt ERROR_CODE_UNAVAILABLE
                  | None => JInt ERROR_CODE_UNAVAILABLE end in
      RError code msg
  | _ => RError (JInt ERROR_CODE_UNAVAILABLE) s_no_msg
  end.

(* response_value : inl value | inr code *)
Definition response_value (p : proto) (m : json) : respval + Z :=
  match p with
  | V1 =>
      match get k_result m, get k_error m with
      | Some r, Some e =>
          if is_null e then inl (RResult r)
          else if negb (is_null r) then inr INVALID_REQUEST
          else inl (best_effort_error e)
      | _, _ => inr INVALID_REQUEST
      end
  | V2 =>
      match get k_result m with
      | Some r => if has k_error m then inr INVALID_REQUEST else inl (RResult r)
      | None =>
          match get k_error m with
          | None => inr INVALID_REQUEST
          | Some e =>
              match get k_code e, get k_message e with
              | Some c, Some (JStr s) => if is_dict e && is_int c then inl (RError c s) else inr INVALID_REQUEST
              | _, _ => inr INVALID_REQUEST
              end
          end
      end
  | Loose =>
      if negb (is_null (getn k_error m)) then
        if negb (is_null (getn k_result m)) then inr INVALID_REQUEST
        else inl (best_effort_error (getn k_error m))
      else match get k_result m with
           | Some r => inl (RResult r)
           | None => inr INVALID_REQUEST
           end
  end.

(* _process_response *)
Definition process_response (p : proto) (m : json) : mres :=
  match message_id p m true with
  | inr c => MErrResp c JNull
  | inl rid =>
    match validate p m with
    | Some c => MErrResp c rid
    | None =>
      match response_value p m with
      | inl v => MItem (IResponse v rid)
      | inr c => MErrResp c rid
      end
    end
  end.

(* message_to_item on a decoded payload *)
Definition payload_to_item (p : proto) (m : json) : mres :=
  match m with
  | JObj _ => if has k_method m then process_request p m else process_response p m
  | JArr l =>
      if allow_batches p then
        match l with [] => MErrSend INVALID_REQUEST JNull | _ => MItem (IBatch l) end
      else MErrSend INVALID_REQUEST JNull
  | _ => MErrSend INVALID_REQUEST JNull
  end.

(* ---------- builders ---------- *)
Definition out_proto (p : proto) : proto := match p with Loose => V2 | q => q end.   (* Loose emits v2 *)

(* request_payload: None = ProtocolError (v1 with named arguments) *)
Definition request_payload (p : proto) (meth : text) (args : json) (rid : json) : option json :=
  match out_proto p with
  | V1 => if is_dict args then None
          else Some (JObj [(k_method, JStr meth); (k_params, args); (k_id, rid)])
  | _ =>
      let base := [(k_jsonrpc, JStr s_2_0); (k_method, JStr meth)] in
      let with_id := if is_null rid then base else base ++ [(k_id, rid)] in
      (* if request.args or request.args == {} *)
      let nonempty := match args with JArr [] => false | _ => true end in
      Some (JObj (if nonempty then with_id ++ [(k_params, args)] else with_id))
  end.

Definition response_payload (p : proto) (result rid : json) : json :=
  match out_proto p with
  | V1 => JObj [(k_result, result); (k_error, JNull); (k_id, rid)]
  | _ => JObj [(k_jsonrpc, JStr s_2_0); (k_result, result); (k_id, rid)]
  end.

Definition error_payload (p : proto) (code : json) (msg : text) (rid : json) : json :=
  let err := JObj [(k_code, code); (k_message, JStr msg)] in
  match out_proto p with
  | V1 => JObj [(k_result, JNull); (k_error, err); (k_id, rid)]
  | _ => JObj [(k_jsonrpc, JStr s_2_0); (k_error, err); (k_id, rid)]
  end.

Definition respval_payload (p : proto) (r : respval) (rid : json) : json :=
  match r with
  | RResult v => response_payload p v rid
  | RError c m => error_payload p c m rid
  end.

(* batch_message_from_parts: b'[' + b', '.join(parts) + b']' *)
Fixpoint join_parts (l : list text) : text :=
  match l with
  | [] => []
  | [x] => x
  | x :: r => x ++ 44 :: 32 :: join_parts r
  end.
Definition batch_text (parts : list text) : text := 91 :: join_parts parts ++ [93].

(* ---------- JSONRPCAutoDetect.detect_protocol on a decoded payload ---------- *)
Definition protocol_for_payload (m : json) : proto :=
  if negb (is_dict m) then Loose
  else match get k_jsonrpc m with
       | Some (JStr s) =>
           if text_eqb s s_2_0 then V2 else if text_eqb s s_1_0 then V1
           else if has k_result m && has k_error m then V1 else Loose
       | _ => if has k_result m && has k_error m then V1 else Loose
       end.
Definition proto_eqb (a b : proto) : bool :=
  match a, b with V1, V1 | V2, V2 | Loose, Loose => true | _, _ => false end.
Definition detect_protocol (m : json) : proto :=
  match m with
  | JArr l =>
      let ps := map protocol_for_payload l in
      match ps with
      | [] => Loose
      | q :: r => if forallb (proto_eqb q) r then q
                  else if existsb (proto_eqb V2) ps then V2
                  else if existsb (proto_eqb V1) ps then V1 else Loose
      end
  | _ => protocol_for_payload m
  end.

(* ---------- the text level ---------- *)
(* _message_to_payload: bytes -> payload, or the decoder failure kind *)
Inductive dfail := FUtf8 | FJson | FDeep | FDigits.
Definition message_to_payload (msg : bytes) : json + dfail :=
  match Utf8.decode msg with
  | None => inr FUtf8
  | Some s =>
      match loads json_max_digits json_max_depth s with
      | POk v _ => inl v
      | PErr BadJson => inr FJson
      | PErr TooDeep => inr FDeep
      | PErr TooManyDigits => inr FDigits
      end
  end.

(* encode_payload: None = ProtocolError (a lone surrogate cannot be ... never: ensure_ascii) *)
Definition encode_payload (j : json) : bytes := print j.    (* ASCII only: code points = bytes *)

(* message_to_item on bytes; what happens on a decoder failure is read from the measured table
   (gen/Gen_jsonrpc.v): Some code = ProtocolError(code) with a reply, None = the exception escapes *)
Inductive dres := DRes (m : mres) | DEscape.
Definition dfail_code (f : dfail) : option Z :=
  match f with FUtf8 => dfail_utf8 | FJson => dfail_json | FDeep => dfail_deep | FDigits => dfail_digits end.
Definition message_to_item (p : proto) (msg : bytes) : dres :=
  match message_to_payload msg with
  | inl m => DRes (payload_to_item p m)
  | inr f => match dfail_code f with Some c => DRes (MErrSend c JNull) | None => DEscape end
  end.

(* ---- correspondence ---- *)
Definition respval_eqb (a b : respval) : bool :=
  match a, b with
  | RResult x, RResult y => json_eqb x y
  | RError c m, RError c' m' => json_eqb c c' && text_eqb m m'
  | _, _ => false
  end.
Definition item_eqb (a b : item) : bool :=
  match a, b with
  | IRequest m a i, IRequest m' a' i' => text_eqb m m' && json_eqb a a' && json_eqb i i'
  | INotification m a, INotification m' a' => text_eqb m m' && json_eqb a a'
  | IResponse r i, IResponse r' i' => respval_eqb r r' && json_eqb i i'
  | IBatch l, IBatch l' => json_eqb (JArr l) (JArr l')
  | _, _ => false
  end.
Definition mres_eqb (a b : mres) : bool :=
  match a, b with
  | MItem x, MItem y => item_eqb x y
  | MErrSend c i, MErrSend c' i' => Z.eqb c c' && json_eqb i i'
  | MErrResp c i, MErrResp c' i' => Z.eqb c c' && json_eqb i i'
  | _, _ => false
  end.
Definition dres_eqb (a b : dres) : bool :=
  match a, b with DRes x, DRes y => mres_eqb x y | DEscape, DEscape => true | _, _ => false end.

Inductive c04case :=
| CEncRequest (p : proto) (meth : text) (args rid : json) (expect : option bytes)   (* rid null = notification *)
| CEncResponse (p : proto) (r : respval) (rid : json) (expect : bytes)
| CEncBatch (p : proto) (ms : list (text * json * json)) (expect : option bytes)
| CDecode (p : proto) (msg : bytes) (obs : dres)
| CDetect (msg : bytes) (obs : option proto).                 (* None = detect_protocol raised *)

Definition all_some {A} (l : list (option A)) : option (list A) :=
  fold_right (fun o acc => match o, acc with Some x, Some r => Some (x :: r) | _, _ => None end) (Some []) l.

(* batch_message: None = ProtocolError (batches not allowed, a member cannot be encoded, empty) *)
Definition batch_message (p : proto) (ms : list (text * json * json)) : option bytes :=
  if negb (allow_batches p) then None
  else match all_some (map (fun m => request_payload p (fst (fst m)) (snd (fst m)) (snd m)) ms) with
       | Some [] => None
       | Some ps => Some (batch_text (map encode_payload ps))
       | None => None
       end.

Definition c04_ok (c : c04case) : bool :=
  match c with
  | CEncRequest p meth args rid expect =>
      option_eqb bytes_eqb (option_map encode_payload (request_payload p meth args rid)) expect
  | CEncResponse p r rid expect => bytes_eqb (encode_payload (respval_payload p r rid)) expect
  | CEncBatch p ms expect => option_eqb bytes_eqb (batch_message p ms) expect
  | CDecode p msg obs => dres_eqb (message_to_item p msg) obs
  | CDetect msg obs =>
      match message_to_payload msg, obs with
      | inl m, Some q => proto_eqb (detect_protocol m) q
      | inr _, None => true
      | _, _ => false
      end
  end.
