(* TimeoutAfter.__aexit__ as REGENERATED from the source (gen/Gen_curio.v: aexit_code, a list of decisions)
   and an interpreter for it.  proof/TimeoutCodeProofs.v shows that running the generated decisions gives, for
   every exception in flight, kind of block, recorded timeout and "uncaught" flag, what the hand-written
   model (model/Timeout.v: aexit) gives.  No proofs here. *)
From AV Require Import Base Gen_curio Timeout.
Local Open Scope Z_scope.

Definition name_of (r : res) : option exc_name :=
  match r with
  | Ok => None
  | Exc ECancelled => Some NCancelledError
  | Exc ETaskTimeout => Some NTaskTimeout
  | Exc ETimeoutCancellation => Some NTimeoutCancellationError
  | Exc EUncaught => Some NUncaughtTimeoutError
  | Exc EUser => Some NOther
  end.
Definition exn_of (x : exc_name) : exn :=
  match x with
  | NCancelledError => ECancelled | NTaskTimeout => ETaskTimeout | NTimeoutCancellationError => ETimeoutCancellation
  | NUncaughtTimeoutError => EUncaught | NOther | NUnknown => EUser
  end.
Definition name_eqb (a b : exc_name) : bool :=
  match a, b with
  | NCancelledError, NCancelledError | NTaskTimeout, NTaskTimeout | NTimeoutCancellationError, NTimeoutCancellationError
  | NUncaughtTimeoutError, NUncaughtTimeoutError | NOther, NOther => true
  | _, _ => false          (* a class the translator does not know is never the class of what is in flight *)
  end.

(* what __aexit__ is called with, and what _unset_task_deadline returned *)
Record dctx := { d_kind : kind; d_deadline : Z; d_inflight : res; d_timed_out : option Z; d_uncaught : bool }.

Definition dtest (x : dctx) (c : dcond) : option bool :=
  match c with
  | DExcNotIn l => Some (match name_of (d_inflight x) with None => true | Some n => negb (existsb (name_eqb n) l) end)
  | DTimedOutIsOwn => Some (match d_timed_out x with Some d => d =? d_deadline x | None => false end)
  | DIgnore => Some (match d_kind x with KIgnore => true | KTimeout => false end)
  | DTimedOutNone => Some (match d_timed_out x with None => true | Some _ => false end)
  | DUncaught => Some (d_uncaught x)
  | DExcIs n => Some (match name_of (d_inflight x) with Some m => name_eqb m n | None => false end)
  | DCUnknown => None
  end.

Inductive dres := DFall (expired : bool) | DDone (r : res) (expired : bool) | DBad.

(* return False = the exception in flight goes on (or a normal exit stays one); return True = it is swallowed *)
Fixpoint drun (fuel : nat) (x : dctx) (expired : bool) (ss : list dstmt) : dres :=
  match fuel with
  | O => DBad
  | S f =>
      match ss with
      | [] => DFall expired
      | DUnset :: rest => drun f x expired rest
      | DIf c body :: rest =>
          match dtest x c with
          | Some true => match drun f x expired body with DFall e => drun f x e rest | other => other end
          | Some false => drun f x expired rest
          | None => DBad
          end
      | DSetExpired :: rest => drun f x true rest
      | DReturnFalse :: _ => DDone (d_inflight x) expired
      | DReturnTrue :: _ => DDone Ok expired
      | DRaise n :: _ => DDone (Exc (exn_of n)) expired
      | DSUnknown :: _ => DBad
      end
  end.
Definition aexit_generated (x : dctx) : dres :=
  match drun 30 x false aexit_code with
  | DFall e => DDone (d_inflight x) e          (* falling off the end returns None: the exception goes on *)
  | other => other
  end.

(* ---------- _set_task_deadline / _unset_task_deadline, regenerated (gen/Gen_curio.v) ---------- *)
Record tctx := { t_ds : list Z; t_tod : option Z; t_armed : option Z; t_read : option Z; t_unc : bool }.
Definition ttest (d : Z) (x : tctx) (c : tcond) : option bool :=
  match c with
  | TNonEmpty => Some (match t_ds x with [] => false | _ => true end)
  | TDeadlineLtMin => match minl (t_ds x) with Some m => Some (d <? m) | None => None end
  | TTimedOutNotActive => Some (negb (opt_in (t_tod x) (removelast (t_ds x))))      (* ... not in deadlines[:-1] *)
  | TCUnknown => None
  end.
Fixpoint trun (fuel : nat) (d : Z) (x : tctx) (ss : list tstmt) : option tctx :=
  match fuel with
  | O => None
  | S f =>
      match ss with
      | [] => Some x
      | s :: rest =>
          match s with
          | TGetDeadlines | TStore => trun f d x rest
          | TIf c a b =>
              match ttest d x c with
              | Some true => trun f d x (a ++ rest)
              | Some false => trun f d x (b ++ rest)
              | None => None
              end
          | TCancelHandle => trun f d {| t_ds := t_ds x; t_tod := t_tod x; t_armed := None; t_read := t_read x; t_unc := t_unc x |} rest
          | TArm TArgDeadline => trun f d {| t_ds := t_ds x; t_tod := t_tod x; t_armed := Some d; t_read := t_read x; t_unc := t_unc x |} rest
          | TArm TMinDeadlines => trun f d {| t_ds := t_ds x; t_tod := t_tod x; t_armed := minl (t_ds x); t_read := t_read x; t_unc := t_unc x |} rest
          | TAppend => trun f d {| t_ds := t_ds x ++ [d]; t_tod := t_tod x; t_armed := t_armed x; t_read := t_read x; t_unc := t_unc x |} rest
          | TClearTimedOut => trun f d {| t_ds := t_ds x; t_tod := None; t_armed := t_armed x; t_read := t_read x; t_unc := t_unc x |} rest
          | TReadTimedOut => trun f d {| t_ds := t_ds x; t_tod := t_tod x; t_armed := t_armed x; t_read := t_tod x; t_unc := t_unc x |} rest
          | TUncaughtNotIn => trun f d {| t_ds := t_ds x; t_tod := t_tod x; t_armed := t_armed x; t_read := t_read x;
                                         t_unc := negb (opt_in (t_read x) (t_ds x)) |} rest
          | TPop => trun f d {| t_ds := removelast (t_ds x); t_tod := t_tod x; t_armed := t_armed x; t_read := t_read x; t_unc := t_unc x |} rest
          | TReturnPair => Some x
          | TSUnknown => None
          end
      end
  end.
Definition tctx_of (s : st) : tctx :=
  {| t_ds := deadlines s; t_tod := timed_out s; t_armed := armed s; t_read := None; t_unc := false |}.
