(* Executable LTS of the send path: RSTransport / USTransport.write, pause_writing,
   resume_writing, connection_lost (rawsocket.py:100-122, unixsocket.py) together with
   SessionBase._send_message's timeout (session.py:143-157), over asyncio.Event.
   A writer is identified by a number; its message is written whole by ONE call of the asyncio
   transport's write().  No proofs here.

   Labels (anything may happen between two of them):
     Send w      a task calls transport.write(message w)
     Pause       asyncio reports the send buffer full   (pause_writing)
     Resume      asyncio reports room                   (resume_writing)
     Run w       a writer woken by Event.set() resumes
     Lost        the connection is lost / closing       (connection_lost; is_closing() true)
     Deadline w  writer w has been blocked for max_send_delay: TaskTimeout, abort() *)
From AV Require Import Base Gen_transport.

Inductive wlabel := Send (w : N) | Pause | Resume | Run (w : N) | Lost | Deadline (w : N).

Record gate := {
  can_send : bool;          (* self._can_send.is_set() *)
  closing : bool;           (* is_closing() *)
  reading : bool;           (* the asyncio transport is reading (pause_reading / resume_reading) *)
  waiting : list N;         (* writers blocked in Event.wait(), FIFO *)
  released : list N;        (* woken by Event.set(), not yet resumed *)
  wire : list N;            (* messages handed to the asyncio transport, in order *)
  blind : list N;           (* ghost: messages written while the gate was closed *)
  done : list N;            (* writers whose write() call has returned *)
  timed_out : list N;       (* writers that got TaskTimeout *)
}.

Definition ginit : gate :=
  {| can_send := true; closing := false; reading := true; waiting := []; released := [];
     wire := []; blind := []; done := []; timed_out := [] |}.

Definition memN (x : N) (l : list N) : bool := existsb (N.eqb x) l.
Definition removeN (x : N) (l : list N) : list N := filter (fun y => negb (N.eqb x y)) l.

(* the body of write() after the wait: `if not self.is_closing(): transport.write(framed)` *)
Definition do_write (g : gate) (w : N) : gate :=
  {| can_send := can_send g; closing := closing g; reading := reading g; waiting := waiting g;
     released := released g;
     wire := if closing g then wire g else wire g ++ [w];
     blind := if closing g || can_send g then blind g else blind g ++ [w];
     done := done g ++ [w]; timed_out := timed_out g |}.

Definition known (g : gate) (w : N) : bool :=
  memN w (waiting g) || memN w (released g) || memN w (done g) || memN w (timed_out g).

Definition wstep (g : gate) (l : wlabel) : gate :=
  match l with
  | Send w =>
      if known g w then g
      else if can_send g then do_write g w                    (* Event.wait() returns at once *)
      else {| can_send := can_send g; closing := closing g; reading := reading g;
              waiting := waiting g ++ [w]; released := released g; wire := wire g; blind := blind g;
              done := done g; timed_out := timed_out g |}
  | Pause =>
      if closing g then g
      else {| can_send := false; closing := closing g; reading := false; waiting := waiting g;
              released := released g; wire := wire g; blind := blind g; done := done g;
              timed_out := timed_out g |}
  | Resume =>
      if can_send g then g
      else {| can_send := true; closing := closing g; reading := true; waiting := [];
              released := released g ++ waiting g; wire := wire g; blind := blind g; done := done g;
              timed_out := timed_out g |}
  | Run w =>
      if memN w (released g) then
        let g1 := {| can_send := can_send g; closing := closing g; reading := reading g;
                     waiting := waiting g; released := removeN w (released g); wire := wire g;
                     blind := blind g; done := done g; timed_out := timed_out g |} in
        if write_rechecks_gate && negb (can_send g)
        then (* while not self._can_send.is_set(): wait again *)
             {| can_send := can_send g1; closing := closing g1; reading := reading g1;
                waiting := waiting g1 ++ [w]; released := released g1; wire := wire g1;
                blind := blind g1; done := done g1; timed_out := timed_out g1 |}
        else do_write g1 w
      else g
  | Lost =>
      {| can_send := true; closing := true; reading := reading g; waiting := [];
         released := released g ++ waiting g; wire := wire g; blind := blind g; done := done g;
         timed_out := timed_out g |}
  | Deadline w =>
      if memN w (waiting g) || memN w (released g) then
        (* TaskTimeout in _send_message: await self.abort(); the connection is then lost *)
        {| can_send := true; closing := true; reading := reading g; waiting := [];
           released := removeN w (released g) ++ removeN w (waiting g); wire := wire g; blind := blind g;
           done := done g; timed_out := timed_out g ++ [w] |}
      else g
  end.

Definition wrun (ls : list wlabel) : gate := fold_left wstep ls ginit.

(* ---- scenario interpreter for the correspondence: a fake asyncio transport with a high-water
   mark that calls pause_writing() from inside write(), as the real ones do ---- *)
Inductive sevent :=
| ESend (w : N) (size : N)    (* a new task calls _send_message with a message of that size *)
| ETick                       (* let every woken task run *)
| EDrain                      (* the socket drained: resume_writing if it was paused *)
| ELost                       (* connection_lost *)
| EAdvance (dt : N).          (* virtual time passes (max_send_delay = 20) *)

Record scen := { g : gate; buffered : N; hwm : N; tpaused : bool; clock : N;
                 started : list (N * N); sizes : list (N * N) }.

Definition size_of (s : scen) (w : N) : N :=
  match find (fun x => N.eqb (fst x) w) (sizes s) with Some x => snd x | None => 0%N end.

(* after a write reached the wire: the fake transport accounts for it and may pause *)
Definition after_write (s : scen) (g0 g1 : gate) : scen :=
  let newly := skipn (length (wire g0)) (wire g1) in
  let b := fold_left (fun acc w => (acc + size_of s w)%N) newly (buffered s) in
  if negb (tpaused s) && (hwm s <? b)%N && negb (match newly with [] => true | _ => false end)
  then {| g := wstep g1 Pause; buffered := b; hwm := hwm s; tpaused := true; clock := clock s;
          started := started s; sizes := sizes s |}
  else {| g := g1; buffered := b; hwm := hwm s; tpaused := tpaused s; clock := clock s;
          started := started s; sizes := sizes s |}.

Definition slabel (s : scen) (l : wlabel) : scen := after_write s (g s) (wstep (g s) l).

Fixpoint run_released (fuel : nat) (s : scen) : scen :=
  match fuel with
  | O => s
  | S f => match released (g s) with
           | [] => s
           | w :: _ => run_released f (slabel s (Run w))
           end
  end.

Definition sstep (s : scen) (e : sevent) : scen :=
  match e with
  | ESend w sz =>
      (* tasks woken earlier are ahead of the new task in the loop's ready queue *)
      let s := run_released 200 s in
      let s1 := {| g := g s; buffered := buffered s; hwm := hwm s; tpaused := tpaused s; clock := clock s;
                   started := started s ++ [(w, clock s)]; sizes := sizes s ++ [(w, sz)] |} in
      slabel s1 (Send w)
  | ETick => run_released 200 s
  | EDrain =>
      let s1 := {| g := g s; buffered := 0; hwm := hwm s; tpaused := false; clock := clock s;
                   started := started s; sizes := sizes s |} in
      if tpaused s then {| g := wstep (g s1) Resume; buffered := 0; hwm := hwm s; tpaused := false;
                           clock := clock s; started := started s; sizes := sizes s |}
      else s1
  | ELost =>
      {| g := wstep (g s) Lost; buffered := buffered s; hwm := hwm s; tpaused := tpaused s; clock := clock s;
         started := started s; sizes := sizes s |}
  | EAdvance dt =>
      let s := run_released 200 s in       (* ready tasks run before the clock advances *)
      let now := (clock s + dt)%N in
      let blocked := waiting (g s) ++ released (g s) in
      let dl w := match find (fun x => N.eqb (fst x) w) (started s) with Some x => (snd x + 20)%N | None => 0%N end in
      (* the earliest deadline fires first; its abort() loses the connection, which releases the
         other blocked writers before their own deadlines *)
      let dmin := fold_left (fun acc w => if (dl w <? acc)%N then dl w else acc) blocked (now + 1)%N in
      let expired := filter (fun w => (dl w =? dmin)%N && (dmin <=? now)%N) blocked in
      {| g := fold_left (fun acc w => wstep acc (Deadline w)) expired (g s);
         buffered := buffered s; hwm := hwm s; tpaused := tpaused s; clock := now;
         started := started s; sizes := sizes s |}
  end.

Definition srun (h : N) (es : list sevent) : scen :=
  fold_left sstep es {| g := ginit; buffered := 0; hwm := h; tpaused := false; clock := 0;
                        started := []; sizes := [] |}.

(* writers whose deadlines fall on the same instant time out in timer order, which has no meaning: compared as sets *)
Definition same_members (a b : list N) : bool :=
  Nat.eqb (length a) (length b) && forallb (fun x => memN x b) a && forallb (fun x => memN x a) b.

(* observed: the order of messages on the fake transport, those written while it reported full,
   the writers that timed out, whether the transport is reading at the end *)
Definition c15_ok (x : N * list sevent * list N * list N * list N * bool) : bool :=
  let '(h, es, obs_wire, obs_blind, obs_timeouts, obs_reading) := x in
  let s := run_released 200 (srun h es) in
  list_eqb N.eqb (wire (g s)) obs_wire && list_eqb N.eqb (blind (g s)) obs_blind &&
  same_members (timed_out (g s)) obs_timeouts && Bool.eqb (reading (g s)) obs_reading.
