(* The specification side of C18: deterministic automata stating, character by character, what
   the English definitions of a host-name label, an all-digit label and a protocol name accept;
   the (untrusted) exploration that proposes a bisimulation between each regenerated regex and
   its automaton; and the in-Coq search for a distinguishing string.  No proofs here, so these
   still evaluate when a regex changes and the proofs break. *)
From AV Require Import Base Utf8 Rx Gen_util Util.
Local Open Scope N_scope.

Definition C_alnum_ : cls := [(48, 57); (65, 90); (95, 95); (97, 122)].   (* letters, digits, underscore *)
Definition C_hyphen : cls := [(45, 45)].
Definition C_letter : cls := [(65, 90); (97, 122)].
Definition C_digit : cls := [(48, 57)].
Definition C_proto_rest : cls := [(43, 43); (45, 46); (48, 57); (65, 90); (97, 122)].  (* letters digits + - . *)

(* ---- label: 1-63 of letters/digits/hyphen/underscore, not beginning or ending with a hyphen ---- *)
Inductive lq := LStart | LIn (n : nat) (hyphen_last : bool) | LDead.
Definition lq_eqb (a b : lq) : bool :=
  match a, b with
  | LStart, LStart | LDead, LDead => true
  | LIn n h, LIn n' h' => Nat.eqb n n' && Bool.eqb h h'
  | _, _ => false
  end.
Definition lstep (q : lq) (c : N) : lq :=
  match q with
  | LStart => if in_cls C_alnum_ c then LIn 1 false else LDead
  | LIn n _ => if (63 <=? n)%nat then LDead
               else if in_cls C_alnum_ c then LIn (S n) false
               else if in_cls C_hyphen c then LIn (S n) true else LDead
  | LDead => LDead
  end.
Definition lacc (q : lq) : bool := match q with LIn _ false => true | _ => false end.
Definition lcls : list cls := [C_alnum_; C_hyphen].

(* ---- numeric: one or more ASCII digits ---- *)
Inductive nq := NStart | NDigits | NDead.
Definition nq_eqb (a b : nq) : bool :=
  match a, b with NStart, NStart | NDigits, NDigits | NDead, NDead => true | _, _ => false end.
Definition nstep (q : nq) (c : N) : nq :=
  match q with NDead => NDead | _ => if in_cls C_digit c then NDigits else NDead end.
Definition nacc (q : nq) : bool := match q with NDigits => true | _ => false end.
Definition ncls : list cls := [C_digit].

(* ---- protocol: a letter followed by one or more letters, digits, '+', '-', '.' ---- *)
Inductive pq := PStart | POne | PMany | PDead.
Definition pq_eqb (a b : pq) : bool :=
  match a, b with PStart, PStart | POne, POne | PMany, PMany | PDead, PDead => true | _, _ => false end.
Definition pstep (q : pq) (c : N) : pq :=
  match q with
  | PStart => if in_cls C_letter c then POne else PDead
  | POne | PMany => if in_cls C_proto_rest c then PMany else PDead
  | PDead => PDead
  end.
Definition pacc (q : pq) : bool := match q with PMany => true | _ => false end.
Definition pcls : list cls := [C_letter; C_proto_rest].

(* ---- proposed bisimulations (untrusted) and counter-example search ---- *)
Definition reps_for {Q} (r : rx) (qc : list cls) (q0 : Q) : list N :=
  nodup N.eq_dec (bounds_of (classes r ++ qc)).

Definition label_R := explore lq lq_eqb lstep 4000 (reps_for label_rx lcls LStart) [(label_rx, LStart)] [].
Definition numeric_R := explore nq nq_eqb nstep 400 (reps_for numeric_rx ncls NStart) [(numeric_rx, NStart)] [].
Definition protocol_R := explore pq pq_eqb pstep 400 (reps_for protocol_rx pcls PStart) [(protocol_rx, PStart)] [].

Definition label_cex := cex lq lq_eqb lstep lacc 4000 (reps_for label_rx lcls LStart) [([], (label_rx, LStart))] [].
Definition numeric_cex := cex nq nq_eqb nstep nacc 2000 (reps_for numeric_rx ncls NStart) [([], (numeric_rx, NStart))] [].
Definition protocol_cex := cex pq pq_eqb pstep pacc 2000 (reps_for protocol_rx pcls PStart) [([], (protocol_rx, PStart))] [].

(* ---- the English definitions as boolean functions on strings ---- *)
Definition label_ok (s : text) : bool :=
  (1 <=? length s)%nat && (length s <=? 63)%nat &&
  forallb (fun c => in_cls C_alnum_ c || in_cls C_hyphen c) s &&
  negb (in_cls C_hyphen (hd 0 s)) && negb (in_cls C_hyphen (last s 0)).
Definition numeric_ok (s : text) : bool :=
  (1 <=? length s)%nat && forallb (in_cls C_digit) s.
Definition protocol_ok (s : text) : bool :=
  match s with
  | c :: r => in_cls C_letter c && (1 <=? length r)%nat && forallb (in_cls C_proto_rest) r
  | [] => false
  end.
Definition hostname_ok (s : text) : bool :=
  let s := strip_dot s in
  (1 <=? length s)%nat && (length s <=? 253)%nat &&
  let labels := split_on 46 s [] in
  negb (numeric_ok (last labels [])) && forallb label_ok labels.

(* ---- correspondence ---- *)
Inductive c18case :=
| CHost (s : text) (obs : bool)
| CProto (s : text) (obs : option text)
| CPort (p : port_in) (obs : option Z)
| CSplit (s : text) (h p : text).
Definition c18_ok (c : c18case) : bool :=
  match c with
  | CHost s obs => Bool.eqb (is_valid_hostname s) obs
  | CProto s obs => option_eqb (list_eqb N.eqb) (validate_protocol s) obs
  | CPort p obs => option_eqb Z.eqb (validate_port p) obs
  | CSplit s h p => let '(h', p') := split_address s in list_eqb N.eqb h h' && list_eqb N.eqb p p'
  end.
