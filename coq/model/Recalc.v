(* Executable model of RPCSession._recalc_concurrency (session.py:405-421): the adaptive
   limit on outgoing requests.  Literals from gen/Gen_session.v.  No proofs. *)
From Coq Require Import QArith Qround Qminmax.
From AV Require Import Base Gen_session Cost.
Local Open Scope Q_scope.


(* cap = min(current + max(3, current * 0.1), 250) *)
Definition cap_of (current : Z) : Q :=
  qmin (inject_Z current + qmax rc_min_step_up (inject_Z current * rc_rel_up)) rc_cap.
(* floor = max(1, min(current * 0.8, current - 1)) *)
Definition floor_of (current : Z) : Q :=
  qmax rc_floor (qmin (inject_Z current * rc_rel_down) (inject_Z current - 1)).

(* the clamped real-valued target *)
Definition clamp (current : Z) (trt avg : Q) : Q :=
  if Qeq_bool avg 0 then cap_of current
  else qmax (floor_of current) (qmin (cap_of current) (inject_Z current * trt / avg)).

(* target = int(0.5 + target) *)
Definition round_half_up (x : Q) : Z := Qfloor (rc_round + x).

Definition new_limit (current : Z) (trt avg : Q) : Z := round_half_up (clamp current trt avg).

(* the extreme values the new limit can take, as functions of the current limit alone *)
Definition lo_of (current : Z) : Z := round_half_up (floor_of current).
Definition hi_of (current : Z) : Z := round_half_up (cap_of current).

(* a history of recalibrations: each entry = (target_response_time, average response time) *)
Definition limits (start : Z) (h : list (Q * Q)) : list Z :=
  snd (fold_left (fun acc x => let l := new_limit (fst acc) (fst x) (snd x) in (l, snd acc ++ [l]))
                 h (start, [start])).

(* ---- correspondence (floats: accept the neighbour when within 1e-9 of a rounding boundary) ---- *)
Definition c20_ok (x : Z * Q * Q * Z) : bool :=
  let '(current, trt, avg, obs) := x in
  let t := clamp current trt avg in
  (obs =? round_half_up t)%Z || (obs =? round_half_up (t - (1 # 1000000000) * (1 + t)))%Z
  || (obs =? round_half_up (t + (1 # 1000000000) * (1 + t)))%Z.

(* ---------- the arithmetic as regenerated from the source (see model/Cost.v: aexp, aeval) ---------- *)
Definition renv (current : Z) (trt avg cap floor target : Q) (v : avar) : Q :=
  match v with
  | VCurrent => inject_Z current | VTrt => trt | VAvg => avg | VCap => cap | VFloor => floor | VTarget => target
  | _ => 0
  end.
