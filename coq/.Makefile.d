lib/Base.vo lib/Base.glob lib/Base.v.beautified lib/Base.required_vo: lib/Base.v 
lib/Base.vio: lib/Base.v 
lib/Base.vos lib/Base.vok lib/Base.required_vos: lib/Base.v 
gen/Gen_framing.vo gen/Gen_framing.glob gen/Gen_framing.v.beautified gen/Gen_framing.required_vo: gen/Gen_framing.v 
gen/Gen_framing.vio: gen/Gen_framing.v 
gen/Gen_framing.vos gen/Gen_framing.vok gen/Gen_framing.required_vos: gen/Gen_framing.v 
model/Newline.vo model/Newline.glob model/Newline.v.beautified model/Newline.required_vo: model/Newline.v lib/Base.vo
model/Newline.vio: model/Newline.v lib/Base.vio
model/Newline.vos model/Newline.vok model/Newline.required_vos: model/Newline.v lib/Base.vos
proof/NewlineProofs.vo proof/NewlineProofs.glob proof/NewlineProofs.v.beautified proof/NewlineProofs.required_vo: proof/NewlineProofs.v lib/Base.vo model/Newline.vo
proof/NewlineProofs.vio: proof/NewlineProofs.v lib/Base.vio model/Newline.vio
proof/NewlineProofs.vos proof/NewlineProofs.vok proof/NewlineProofs.required_vos: proof/NewlineProofs.v lib/Base.vos model/Newline.vos
props/C06.vo props/C06.glob props/C06.v.beautified props/C06.required_vo: props/C06.v lib/Base.vo model/Newline.vo proof/NewlineProofs.vo gen/Gen_framing.vo
props/C06.vio: props/C06.v lib/Base.vio model/Newline.vio proof/NewlineProofs.vio gen/Gen_framing.vio
props/C06.vos props/C06.vok props/C06.required_vos: props/C06.v lib/Base.vos model/Newline.vos proof/NewlineProofs.vos gen/Gen_framing.vos
