(* C02 - Every incoming request is answered exactly once under its own id.
   Model: model/Conn.v: _send_result, _receive_request_batch and its item_send_result closure
   (jsonrpc.py:616-690), receive_message. *)
From AV Require Import Base Utf8 Json Gen_jsonrpc Codec Conn ConnProofs Gen_jsonrpc ConnCode ConnCodeProofs.

(* a single request: one reply carrying its id - the result, or the -32600 error when the
   encoded response exceeds a positive max_response_size *)
Theorem C02_single_one_reply : forall c p rid r,
  send_result c p rid r = encode_payload (reply_payload c p rid r) /\
  getn k_id (reply_payload c p rid r) = rid.
Proof. exact single_one_reply. Qed.

(* notifications yield work items only; a request item is the only thing that can reply *)
Theorem C02_request_batch_count : forall p payloads,
  let '(items, ps, cnt) := request_batch p payloads [] [] 0 in
  cnt = length ps + length (filter (fun t => match t with TRequest _ _ _ _ => true | _ => false end) items).
Proof. exact request_batch_count. Qed.

(* each supplied result appends one entry under the id of its request *)
Theorem C02_entry_under_own_id : forall c p ctx rid r,
  let '(ctx', m) := batch_send_result c p ctx rid r in
  count ctx' = count ctx /\ length (parts ctx') = S (length (parts ctx)) /\
  (exists part, parts ctx' = parts ctx ++ [part] /\
     exists pl, part = encode_payload pl /\ getn k_id pl = rid) /\
  (m = if Nat.eqb (S (length (parts ctx))) (count ctx) then Some (batch_text (parts ctx')) else None).
Proof. exact batch_step. Qed.

(* exactly one batch response, sent when the last request member has its result, holding the
   error entries of the invalid members followed by one entry per request - for every order in
   which the results are supplied *)
Theorem C02_batch_one_reply : forall c p rs ctx,
  count ctx = length (parts ctx) + length rs -> rs <> [] ->
  let '(ms, ctx') := supply c p ctx rs in
  removelast ms = repeat None (length rs - 1) /\
  last ms None = Some (batch_text (parts ctx')) /\
  length (parts ctx') = count ctx /\ firstn (length (parts ctx)) (parts ctx') = parts ctx.
Proof. exact batch_one_reply. Qed.

(* The clause "plus one error entry per invalid member" fails when the batch holds no request
   member at all but a notification: nothing ever triggers the reply (known finding F9). *)
Theorem C02_refuted :
  exists msg items ctx c',
    receive_message (new_conn (Some V2)) msg = (RItems items (Some ctx), c') /\
    parts ctx <> [] /\
    filter (fun t => match t with TRequest _ _ _ _ => true | _ => false end) items = [].
Proof.
  exists (print (JArr [JObj [(k_jsonrpc, JStr s_2_0); (k_method, JStr [110]%N)];
                       JObj [(k_jsonrpc, JStr s_2_0); (k_method, JInt 5); (k_id, JInt 1)]])).
  eexists. eexists. eexists. split; [vm_compute; reflexivity|]. split; [discriminate|reflexivity].
Qed.

Example C02_ex :
  let ctx := {| parts := [[101]%N]; count := 3; bsize := 0 |} in
  fst (supply (new_conn (Some V2)) V2 ctx [(JInt 7, RResult (JInt 1)); (JStr [97]%N, RError (JInt 5) [])])
  = [None; Some (batch_text [[101]%N; print (response_payload V2 (JInt 1) (JInt 7));
                              print (error_payload V2 (JInt 5) [] (JStr [97]%N))])].
Proof. vm_compute. reflexivity. Qed.

(* the reply side is translated from the Python source on every run: item_send_result - the closure through which each
   request of a batch is answered (size accounting, replacement of the entry that takes the response over the limit,
   the batch message once every member has its result) - and _send_result for single requests; nothing was left
   untranslated, and run by the interpreter of model/ConnCode.v they give what the model's batch_send_result /
   send_result give, for every accumulator, limit, id and result *)
Theorem C02_reply_code_known : bknown 4 item_send_result_code && bknown 4 send_result_code = true.
Proof. exact reply_code_known. Qed.

Theorem C02_batch_send_result_from_source : forall c p ctx rid v,
  match batch_send_result_generated c p ctx rid v with
  | BReturned r msg =>
      batch_send_result c p ctx rid v = ({| parts := b_parts r; count := count ctx; bsize := b_size r |}, msg)
  | _ => False
  end.
Proof. exact generated_batch_send_result. Qed.

Theorem C02_send_result_from_source : forall c p rid v,
  match send_result_generated c p rid v with
  | BReturned _ msg => msg = Some (send_result c p rid v)
  | _ => False
  end.
Proof. exact generated_send_result. Qed.

Print Assumptions C02_single_one_reply.
Print Assumptions C02_request_batch_count.
Print Assumptions C02_entry_under_own_id.
Print Assumptions C02_batch_one_reply.
Print Assumptions C02_refuted.
Print Assumptions C02_reply_code_known.
Print Assumptions C02_batch_send_result_from_source.
Print Assumptions C02_send_result_from_source.
