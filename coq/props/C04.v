(* C04 - The JSON-RPC codec is loss-free and conforms to each version's wire format.
   Models: lib/Json.v (json.dumps / json.loads as used), model/Codec.v (jsonrpc.py:40-575).
   Tier 1 (payload level), tier 2 (every encoded message is printable ASCII without newline) and
   tier 3 (the text level: json.loads (json.dumps v) = v, down to the bytes of the message) are proved.
   Tier 3 holds for every value within the limits the decoder enforces (nesting depth, digits of an
   integer), whose strings do not contain a high surrogate immediately followed by a low one (such a
   pair of escapes is read back as ONE astral character - Python's json does the same), whose object
   keys are distinct, and whose float tokens satisfy [FloatOk] (the token is read back as itself) -
   which is a THEOREM for every token of the shape float.__repr__ produces ([FloatShape]: optional
   minus, an integer part without leading zero, a fraction and/or an exponent with explicit sign) and
   for nan / inf / -inf; what remains assumed is that repr(x) has that shape and float(repr x) = x.  That json.dumps / json.loads ARE lib/Json.v's print / loads is
   tied by the byte-exact correspondence in both directions. *)
From AV Require Import Base Utf8 Json Gen_jsonrpc Codec CodecProofs JsonRoundTrip CodecText CodecCode CodecCodeProofs.

Theorem C04_facts :
  allow_batches V1 = false /\ allow_batches V2 = true /\ allow_batches Loose = true /\
  encode_payload (JObj [([97]%N, JArr [JInt 1; JStr [233; 10]%N; JNull]); ([98]%N, JObj [])]) = encode_probe.
Proof. repeat split. Qed.

(* loss-free: what encoder [e] writes, decoder [d] (same version, or Loose) reads back *)
Theorem C04_roundtrip_request : forall e d meth args rid payload,
  compat e d = true -> is_args args = true -> ok_id d rid = true ->
  request_payload e meth args rid = Some payload ->
  payload_to_item d payload = MItem (if is_null rid then INotification meth args else IRequest meth args rid).
Proof. exact roundtrip_request. Qed.

Theorem C04_roundtrip_result : forall e d v rid, compat e d = true -> ok_id d rid = true ->
  payload_to_item d (response_payload e v rid) = MItem (IResponse (RResult v) rid).
Proof. exact roundtrip_result. Qed.

Theorem C04_roundtrip_error : forall e d code msg rid,
  compat e d = true -> ok_id d rid = true -> is_int code = true ->
  payload_to_item d (error_payload e code msg rid) = MItem (IResponse (RError code msg) rid).
Proof. exact roundtrip_error. Qed.

Theorem C04_roundtrip_batch : forall e d ms ps,
  compat e d = true -> allow_batches d = true ->
  all_some (map (fun m => request_payload e (fst (fst m)) (snd (fst m)) (snd m)) ms) = Some ps -> ps <> [] ->
  payload_to_item d (JArr ps) = MItem (IBatch ps) /\
  (Forall (fun m => is_args (snd (fst m)) = true /\ ok_id d (snd m) = true) ms ->
   Forall2 (fun m p => process_request d p =
                       MItem (if is_null (snd m) then INotification (fst (fst m)) (snd (fst m))
                              else IRequest (fst (fst m)) (snd (fst m)) (snd m))) ms ps).
Proof. exact roundtrip_batch. Qed.

(* the loose decoder gives every message of either strict encoder the same meaning:
   instances of the theorems above with d = Loose (compat e Loose holds for every e) *)
Theorem C04_loose_agrees : forall e, compat e Loose = true.
Proof. intros []; reflexivity. Qed.

(* wire formats *)
Theorem C04_v2_format : forall e meth args rid v code msg, out_proto e = V2 ->
  (forall p, request_payload e meth args rid = Some p -> get k_jsonrpc p = Some (JStr s_2_0)) /\
  v2_format_response (response_payload e v rid) /\ v2_format_response (error_payload e code msg rid).
Proof. exact v2_formats. Qed.

Theorem C04_v1_format : forall meth args rid v code msg,
  v1_format_response (response_payload V1 v rid) /\ v1_format_response (error_payload V1 code msg rid) /\
  (forall p, is_args args = true -> request_payload V1 meth args rid = Some p ->
             is_list args = true /\ get k_params p = Some args) /\
  (forall ms, batch_message V1 ms = None).
Proof. exact v1_formats. Qed.

(* auto-detection settles on a protocol that decodes the first message as its originating
   version would (it is compat with the encoder, so the round trips above apply) *)
Theorem C04_autodetect_request : forall e meth args rid p,
  request_payload e meth args rid = Some p -> compat e (detect_protocol p) = true.
Proof. exact autodetect_request. Qed.
Theorem C04_autodetect_response : forall e v code msg rid,
  compat e (detect_protocol (response_payload e v rid)) = true /\
  compat e (detect_protocol (error_payload e code msg rid)) = true.
Proof. exact autodetect_response. Qed.
Theorem C04_autodetect_batch : forall e ms ps, out_proto e = V2 ->
  all_some (map (fun m => request_payload e (fst (fst m)) (snd (fst m)) (snd m)) ms) = Some ps -> ps <> [] ->
  detect_protocol (JArr ps) = V2.
Proof. exact autodetect_batch. Qed.

(* every encoded message is one line of printable ASCII: no raw newline can occur *)
Theorem C04_print_ascii_no_newline : forall v, wf_json v = true ->
  forallb printable (encode_payload v) = true /\ ~ In 10%N (encode_payload v).
Proof. intros v H. split; [now apply print_ascii|now apply print_no_newline]. Qed.

(* tier 3: the printer and the parser are inverse on the text level ... *)
Theorem C04_text_roundtrip : forall md, (1 <= md)%nat -> forall v depth,
  RT md v -> (jdepth v <= depth)%nat -> loads md depth (print v) = POk v [].
Proof. intros md Hmd v depth. exact (loads_print md Hmd v depth). Qed.

(* ... in particular for strings: every escape the printer writes is read back, lone surrogates included *)
Theorem C04_string_roundtrip : forall s fuel acc rest,
  forallb (fun c => (c <? 1114112)%N) s = true -> no_pair s = true -> (length s < fuel)%nat ->
  scan_string fuel (flat_map esc_char s ++ 34%N :: rest) acc = POk (rev acc ++ s) rest.
Proof. exact scan_string_print. Qed.

(* ... and down to the bytes of a message: what encode_payload writes, message_to_item reads back *)
Theorem C04_wire_roundtrip : forall d j,
  RT json_max_digits j -> wf_json j = true -> (jdepth j <= json_max_depth)%nat ->
  message_to_item d (encode_payload j) = DRes (payload_to_item d j).
Proof. exact item_text_roundtrip. Qed.

Theorem C04_wire_roundtrip_request : forall e d meth args rid payload,
  compat e d = true -> is_args args = true -> ok_id d rid = true ->
  request_payload e meth args rid = Some payload ->
  RT json_max_digits payload -> wf_json payload = true -> (jdepth payload <= json_max_depth)%nat ->
  message_to_item d (encode_payload payload) =
  DRes (MItem (if is_null rid then INotification meth args else IRequest meth args rid)).
Proof.
  intros e d meth args rid payload H1 H2 H3 H4 H5 H6 H7.
  rewrite (item_text_roundtrip d payload H5 H6 H7). f_equal. exact (roundtrip_request e d meth args rid payload H1 H2 H3 H4).
Qed.

Theorem C04_wire_roundtrip_result : forall e d v rid, compat e d = true -> ok_id d rid = true ->
  RT json_max_digits (response_payload e v rid) -> wf_json (response_payload e v rid) = true ->
  (jdepth (response_payload e v rid) <= json_max_depth)%nat ->
  message_to_item d (encode_payload (response_payload e v rid)) = DRes (MItem (IResponse (RResult v) rid)).
Proof.
  intros e d v rid H1 H2 H3 H4 H5. rewrite (item_text_roundtrip d _ H3 H4 H5). f_equal. exact (roundtrip_result e d v rid H1 H2).
Qed.

(* the float oracle is a theorem for every token of the shape float.__repr__ produces *)
Theorem C04_float_shape : forall md t, FloatShape t -> FloatOk md t.
Proof. exact float_shape_ok. Qed.

(* ... and for the special values (instances) *)
Example C04_float_oracle_instances : forall md,
  FloatOk md [49; 46; 53]%N /\ FloatOk md [45; 50; 46; 53; 101; 45; 48; 55]%N /\ FloatOk md [49; 101; 43; 50; 50]%N /\
  FloatOk md [110; 97; 110]%N /\ FloatOk md [105; 110; 102]%N /\ FloatOk md [45; 105; 110; 102]%N.
Proof.
  intros md. split; [apply float_ok_1_5|]. split; [apply float_ok_neg_2_5em07|]. split; [apply float_ok_1ep22|].
  split; [apply float_ok_nan|]. split; [apply float_ok_inf|apply float_ok_neg_inf].
Qed.

(* non-vacuity of tier 3: a nested value with escapes, a lone surrogate, an astral character, a negative integer *)
Example C04_ex_text :
  let v := JObj [([107]%N, JArr [JInt (-42); JStr [34; 10; 233; 55357; 128512]%N; JNull; JBool true; JFloat [49; 46; 53]%N]);
                 ([120; 34]%N, JObj [])] in
  loads 4300 100 (print v) = POk v [].
Proof. vm_compute. reflexivity. Qed.

(* non-vacuity *)
Example C04_ex :
  let args := JObj [([107]%N, JArr [JStr [55296; 233]%N; JInt (-5); JFloat [49; 46; 53]%N])] in
  is_args args = true /\ wf_json args = true /\
  exists p, request_payload Loose [109]%N args (JStr []) = Some p /\
            payload_to_item V2 p = MItem (IRequest [109]%N args (JStr [])) /\ detect_protocol p = V2.
Proof. repeat split. eexists. repeat split. Qed.

(* the decoding side of the codec is translated from the Python source on every run (gen/Gen_jsonrpc.v): for each of
   JSONRPCv1, JSONRPCv2, JSONRPCLoose the functions _message_id, _validate_message, _request_args, response_value;
   JSONRPCv1._best_effort_error; the base class's _process_request, _process_response and message_to_item (after the
   text is decoded); JSONRPCAutoDetect.detect_protocol with its nested protocol_for_payload.  Nothing was left
   untranslated.  model/CodecCode.v gives the statements their meaning over JSON values ('k' in x, x['k'], x.get('k'),
   isinstance with bool being an int, None = null, try / except ProtocolError) and the runs are the model's functions: *)
Theorem C04_decoder_code_known :
  forallb (fun c => vknown 6 c)
    [v1_message_id_code; v1_validate_code; v1_request_args_code; v1_response_value_code;
     v2_message_id_code; v2_validate_code; v2_request_args_code; v2_response_value_code;
     loose_message_id_code; loose_validate_code; loose_request_args_code; loose_response_value_code; best_effort_code;
     protocol_for_payload_code] = true /\
  pknown 6 process_request_code && pknown 6 process_response_code && pknown 6 message_to_item_code = true /\
  dknown 4 detect_protocol_code = true.
Proof. exact (conj decoder_code_known (conj process_code_known detect_code_known)). Qed.

Theorem C04_message_id_from_source : forall pr l req,
  run_code (code_of_message_id pr) (JObj l) req = id_result (message_id pr (JObj l) req).
Proof. exact generated_message_id_dict. Qed.

Theorem C04_validate_from_source : forall pr l,
  run_code (code_of_validate pr) (JObj l) false = match validate pr (JObj l) with Some c => VRaised c | None => VRetNone end.
Proof. exact generated_validate. Qed.

Theorem C04_request_args_from_source : forall pr l,
  run_code (code_of_request_args pr) (JObj l) false = id_result (request_args pr (JObj l)).
Proof. exact generated_request_args. Qed.

Theorem C04_best_effort_from_source : forall e, best_effort_generated e = Some (best_effort_error e).
Proof. exact generated_best_effort. Qed.

Theorem C04_response_value_from_source : forall pr l,
  response_value_generated pr (JObj l) = Some (response_value pr (JObj l)).
Proof. exact generated_response_value. Qed.

(* ... a request / a response object, and - for the classes that have batches - any JSON value a batch may hold *)
Theorem C04_process_request_from_source : forall pr l, process_request_generated pr (JObj l) = Some (process_request pr (JObj l)).
Proof. exact generated_process_request_dict. Qed.

Theorem C04_process_response_from_source : forall pr l, process_response_generated pr (JObj l) = Some (process_response pr (JObj l)).
Proof. exact generated_process_response_dict. Qed.

Theorem C04_process_member_from_source : forall pr m, pr <> V1 ->
  process_request_generated pr m = Some (process_request pr m) /\ process_response_generated pr m = Some (process_response pr m).
Proof. exact (fun pr m H => conj (generated_process_request_any pr m H) (generated_process_response_any pr m H)). Qed.

(* ... message_to_item after the text is decoded, for every class and every JSON value ... *)
Theorem C04_payload_to_item_from_source : forall pr m, payload_to_item_generated pr m = Some (payload_to_item pr m).
Proof. exact generated_payload_to_item. Qed.

(* ... and auto-detection *)
Theorem C04_detect_protocol_from_source : forall m, detect_protocol_generated m = Some (detect_protocol m).
Proof. exact generated_detect_protocol. Qed.

(* the encoding side: request_payload, response_payload and error_payload of the three classes are translated too (dict
   displays, the conditional members "id" and "params", the refusal of named arguments by 1.0) and build the model's payloads *)
Theorem C04_builder_code_known :
  forallb bst_known [v1_request_payload_code; v1_response_payload_code; v1_error_payload_code; v2_request_payload_code;
                     v2_response_payload_code; v2_error_payload_code; loose_request_payload_code; loose_response_payload_code;
                     loose_error_payload_code] = true.
Proof. exact builder_code_known. Qed.

Theorem C04_request_payload_from_source : forall pr meth args rid res c m, is_list args || is_dict args = true ->
  bsexec {| b_meth := meth; b_args := args; b_rid := rid; b_result := res; b_ecode := c; b_emsg := m |} None (code_of_request_payload pr)
  = Some (request_payload pr meth args rid).
Proof. exact generated_request_payload. Qed.

Theorem C04_response_payload_from_source : forall pr meth args rid res c m,
  bsexec {| b_meth := meth; b_args := args; b_rid := rid; b_result := res; b_ecode := c; b_emsg := m |} None (code_of_response_payload pr)
  = Some (Some (response_payload pr res rid)).
Proof. exact generated_response_payload. Qed.

Theorem C04_error_payload_from_source : forall pr meth args rid res c m,
  bsexec {| b_meth := meth; b_args := args; b_rid := rid; b_result := res; b_ecode := c; b_emsg := m |} None (code_of_error_payload pr)
  = Some (Some (error_payload pr c m rid)).
Proof. exact generated_error_payload. Qed.

Print Assumptions C04_facts.
Print Assumptions C04_roundtrip_request.
Print Assumptions C04_roundtrip_result.
Print Assumptions C04_roundtrip_error.
Print Assumptions C04_roundtrip_batch.
Print Assumptions C04_loose_agrees.
Print Assumptions C04_v2_format.
Print Assumptions C04_v1_format.
Print Assumptions C04_autodetect_request.
Print Assumptions C04_autodetect_response.
Print Assumptions C04_autodetect_batch.
Print Assumptions C04_print_ascii_no_newline.
Print Assumptions C04_text_roundtrip.
Print Assumptions C04_string_roundtrip.
Print Assumptions C04_wire_roundtrip.
Print Assumptions C04_wire_roundtrip_request.
Print Assumptions C04_wire_roundtrip_result.
Print Assumptions C04_float_shape.
Print Assumptions C04_decoder_code_known.
Print Assumptions C04_message_id_from_source.
Print Assumptions C04_validate_from_source.
Print Assumptions C04_request_args_from_source.
Print Assumptions C04_best_effort_from_source.
Print Assumptions C04_response_value_from_source.
Print Assumptions C04_process_request_from_source.
Print Assumptions C04_process_response_from_source.
Print Assumptions C04_process_member_from_source.
Print Assumptions C04_payload_to_item_from_source.
Print Assumptions C04_detect_protocol_from_source.
Print Assumptions C04_builder_code_known.
Print Assumptions C04_request_payload_from_source.
Print Assumptions C04_response_payload_from_source.
Print Assumptions C04_error_payload_from_source.
