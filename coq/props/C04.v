From AV Require Import Base Utf8 Json Codec.
Theorem C04_placeholder : True. Proof. exact I. Qed.
