(* C11 - Timeouts fire at their deadline, at the right level, and leave nothing armed.
   Model: model/Timeout.v, a big-step semantics of ONE task running nested
   timeout_after / timeout_at / ignore_after / ignore_at blocks (curio.py:318-487); which
   exception classes __aexit__ reacts to is re-extracted from the running code
   (gen/Gen_curio.v).  Partial: timers with EQUAL expiry instants (asyncio's heap order) and
   the event loop itself are not modelled. *)
From AV Require Import Base Gen_curio Timeout TimeoutProofs TimeoutCode TimeoutCodeProofs TimeoutCleanup.
Local Open Scope Z_scope.

Theorem C11_facts :
  aexit_handles_Cancelled = true /\ aexit_handles_TaskTimeout = true /\
  aexit_handles_TimeoutCancellation = true /\ aexit_handles_Uncaught = false /\
  aexit_handles_User = false /\ TimeoutCancellation_is_Cancelled = true /\
  TaskTimeout_is_Cancelled = false.
Proof. repeat split. Qed.

(* a block whose body is not interrupted is transparent: it yields the body's outcome *)
Theorem C11_early_unaffected : forall k (ab : bool) t body s,
  let deadline := if ab then t else now s + t in
  cancelish_res (fst (eval body (set_deadline s deadline))) = false ->
  fst (eval (Block k ab t body) s) = fst (eval body (set_deadline s deadline)).
Proof. exact block_transparent. Qed.

(* a suspension is interrupted by a deadline only at the minimum of the active deadlines (or
   at once if that is already past) - never earlier *)
Theorem C11_fires_not_earlier : forall d s r s' a,
  ArmedInv s -> await d s = (r, s') -> timed_out s' = Some a -> timed_out s <> Some a ->
  r = Exc ECancelled /\ armed s = Some a /\ minl (deadlines s) = Some a /\
  now s' = Z.max a (now s) /\ armed s' = None.
Proof. exact fires_on_time. Qed.

(* ... and a suspension that outlasts the armed deadline IS interrupted at it *)
Theorem C11_fires_on_time : forall d s a,
  armed s = Some a -> Z.max a (now s) <= now s + d ->
  (forall e, ext s = Some e -> now s <= e -> Z.max a (now s) <= e) ->
  fst (await d s) = Exc ECancelled /\ now (snd (await d s)) = Z.max a (now s) /\
  timed_out (snd (await d s)) = Some a.
Proof. exact interrupted_at_deadline. Qed.

(* the armed timer is always the minimum of the active deadlines (for every program) *)
Theorem C11_armed_is_min : forall p s, ArmedInv s -> ArmedInv (snd (eval p s)).
Proof. exact eval_inv. Qed.

(* when a block exits, its deadline is popped and the timer re-armed for the minimum of the
   REMAINING deadlines: no cancellation caused by the exited block's deadline can follow *)
Theorem C11_block_exit_rearms : forall k (ab : bool) t body s,
  let s' := snd (eval (Block k ab t body) s) in
  deadlines s' = deadlines s /\ armed s' = minl (deadlines s).
Proof. exact block_exit_rearms. Qed.

Theorem C11_nothing_left_armed : forall p e, armed (snd (eval p (init e))) = None.
Proof. exact nothing_left_armed. Qed.

Theorem C11_no_stray_cancel : forall p d, 0 <= d ->
  let s' := snd (eval p (init None)) in ext s' = None -> fst (await d s') = Ok.
Proof. exact no_stray_cancel. Qed.

(* who reports: outer deadline first / inner deadline first / body first *)
Theorem C11_outer_deadline_first : forall k1 k2 t1 t2 d,
  0 <= t1 -> t1 < t2 -> t1 < d ->
  let '(r, s) := eval (two k1 t1 k2 t2 d) (init None) in
  r = match k1 with KTimeout => Exc ETaskTimeout | KIgnore => Ok end /\
  log s = [(Exc ETimeoutCancellation, false); (r, true)] /\ now s = t1 /\ armed s = None.
Proof. exact outer_deadline_first. Qed.

Theorem C11_inner_deadline_first : forall k1 k2 t1 t2 d,
  0 <= t2 -> t2 < t1 -> t2 < d ->
  let '(r, s) := eval (two k1 t1 k2 t2 d) (init None) in
  match k2 with
  | KTimeout => r = Exc EUncaught /\ log s = [(Exc ETaskTimeout, true); (Exc EUncaught, false)]
  | KIgnore => r = Ok /\ log s = [(Ok, true); (Ok, false)]
  end /\ now s = t2 /\ armed s = None.
Proof. exact inner_deadline_first. Qed.

Theorem C11_body_first : forall k1 k2 t1 t2 d,
  0 <= d -> d < t1 -> d < t2 ->
  let '(r, s) := eval (two k1 t1 k2 t2 d) (init None) in
  r = Ok /\ log s = [(Ok, false); (Ok, false)] /\ now s = d /\ armed s = None.
Proof. exact body_first. Qed.

(* non-vacuity: zero and past deadlines, a caught inner timeout, follow-on code *)
Example C11_ex :
  let p := Seq (Try (Block KTimeout false 0 (Await 5)) [ETaskTimeout] Skip)
               (Block KIgnore true (-3) (Seq (Await 2) (Await 2))) in
  let '(r, s) := eval p (init None) in
  r = Ok /\ log s = [(Exc ETaskTimeout, true); (Ok, true)] /\ now s = 0 /\ fst (await 7 s) = Ok.
Proof. vm_compute. repeat split. Qed.

(* the level at which an expiry is reported, for ANY program in the body (any nesting below) and any state:
   UncaughtTimeoutError leaves a block only when a TaskTimeout or that very error left its body (an inner
   timeout nobody handled - never a stale record of one that was); TaskTimeout leaves a block only when it
   left the body or the block itself expired; an ignore block ends quietly only when its body did or the block
   itself expired; and a block that reports expiry raises TaskTimeout / ends quietly *)
Theorem C11_reporting_level : forall k (ab : bool) t body s,
  let r := fst (eval (Block k ab t body) s) in
  let rb := body_result k ab t body s in
  (r = Exc EUncaught -> rb = Exc ETaskTimeout \/ rb = Exc EUncaught) /\
  (r = Exc ETaskTimeout -> rb = Exc ETaskTimeout \/ block_expired k ab t body s = true) /\
  (r = Ok -> rb = Ok \/ (k = KIgnore /\ block_expired k ab t body s = true)) /\
  (block_expired k ab t body s = true -> r = match k with KIgnore => Ok | KTimeout => Exc ETaskTimeout end).
Proof. exact reporting_level. Qed.

(* non-vacuity: an inner timeout that was handled, then a cancellation that belongs to no deadline: it passes
   through the outer block unchanged (not UncaughtTimeoutError) *)
Example C11_ex_stale_record :
  fst (eval (Block KTimeout false 100 (Seq (Try (Block KTimeout false 2 (Await 10)) [ETaskTimeout] Skip) (Raise ECancelled)))
            (init None))
  = Exc ECancelled.
Proof. vm_compute. reflexivity. Qed.

(* TimeoutAfter.__aexit__ is translated from the Python source on every run into a list of decisions
   (gen/Gen_curio.v: aexit_code); nothing was left untranslated, and for EVERY exception in flight (or none), kind
   of block, recorded timeout and "uncaught" flag, running the generated decisions gives what the model's aexit
   gives: which exception leaves the block (or that it is swallowed) and whether the block reports expiry *)
Theorem C11_aexit_code_known : dknown 6 aexit_code = true /\ hd DSUnknown aexit_code = DUnset.
Proof. exact aexit_code_known. Qed.

Theorem C11_aexit_from_source : forall k dl r s,
  let '(tod, uncaught, s') := unset_deadline s in
  exists r' e, aexit k dl r s = (r', add_log s' r' e) /\
    aexit_generated {| d_kind := k; d_deadline := dl; d_inflight := r; d_timed_out := tod; d_uncaught := uncaught |} = DDone r' e.
Proof.
  intros k dl r s. pose proof (aexit_is_decide k dl r s) as H. destruct (unset_deadline s) as [[tod unc] s'].
  pose proof (generated_aexit_is_model k dl r tod unc) as G. destruct (decide k dl r tod unc) as [r' e].
  exists r', e. split; [exact H|exact G].
Qed.

(* ... and so are _set_task_deadline and _unset_task_deadline (the stack of deadlines, the recorded timeout, the
   armed timer): translated statement by statement, run by an interpreter, equal to the model's set_deadline /
   unset_deadline for every state *)
Theorem C11_deadline_code_known : tknown 5 set_deadline_code && tknown 5 unset_deadline_code = true.
Proof. exact deadline_code_known. Qed.

Theorem C11_set_deadline_from_source : forall s d,
  exists x, trun 12 d (tctx_of s) set_deadline_code = Some x /\
    t_ds x = deadlines (set_deadline s d) /\ t_tod x = timed_out (set_deadline s d) /\ t_armed x = armed (set_deadline s d).
Proof. exact generated_set_deadline. Qed.

Theorem C11_unset_deadline_from_source : forall s,
  exists x, trun 12 0 (tctx_of s) unset_deadline_code = Some x /\
    let '(tod, uncaught, s') := unset_deadline s in
    t_read x = tod /\ t_unc x = uncaught /\ t_ds x = deadlines s' /\ t_armed x = armed s' /\ t_tod x = timed_out s'.
Proof. exact generated_unset_deadline. Qed.

(* (F19, repaired) entering a block forgets a stale record of an earlier timeout, but not the record of an ENCLOSING block
   that is still active - its cancellation is being delivered and this block was entered while it unwinds, e.g. in a
   finally clause; the enclosing block then still recognises its own timeout (C11_reporting_level is about aexit) *)
Theorem C11_entry_keeps_inflight_record : forall s d,
  timed_out (set_deadline s d) = if opt_in (timed_out s) (deadlines s) then timed_out s else None.
Proof. exact entry_keeps_inflight_record. Qed.

(* ---- known finding F21: the clauses below do NOT extend to cleanup code that keeps running after a timeout has fired
   (finally clauses - outside the program DSL the theorems above quantify over).  Each statement refutes one clause of the
   property for such a program, given as a history of the translated primitives (proof/TimeoutCleanup.v); the harness runs
   the same four programs on the implementation on every run and compares the outcomes with these. ---- *)

(* "one still running at its deadline is interrupted then" - refuted for a block entered in a finally clause *)
Theorem C11_F21_cleanup_block_never_armed_refuted :
  exists s d w, In d (deadlines s) /\ now s < d /\ d < now s + w /\ ext s = None /\
                armed s = None /\ fst (await w s) = Ok /\ now (snd (await w s)) = now s + w.
Proof. exists h1_inner, 12, 50. vm_compute. repeat split; try reflexivity. right; left; reflexivity. Qed.

(* ... and for an enclosing block while an inner block that timed out is still in its finally clause *)
Theorem C11_F21_enclosing_deadline_unguarded_refuted :
  exists s d w, In d (deadlines s) /\ now s < d /\ d < now s + w /\ ext s = None /\
                fst (await w s) = Ok /\ fst h2_outer_exit = Ok /\ log (snd h2_outer_exit) = [(Ok, true); (Ok, false)].
Proof. exists h2_fired, 20, 50. vm_compute. repeat split; try reflexivity. left; reflexivity. Qed.

(* "an inner timeout that nobody handles surfaces as UncaughtTimeoutError in the enclosing block" - refuted when a
   timeout block is entered and left in a finally clause on the way *)
Theorem C11_F21_unhandled_inner_timeout_refuted :
  fst h3_inner_exit = Exc ETaskTimeout /\ fst h3_outer_exit = Exc ETaskTimeout /\
  fst (aexit KTimeout 20 (fst h3_inner_exit) (snd h3_inner_exit)) = Exc EUncaught.
Proof. split; [|split]; [apply unhandled_inner_timeout_record_lost | apply unhandled_inner_timeout_record_lost | exact unhandled_inner_timeout_without_cleanup_block]. Qed.

(* "the block whose deadline passed is the one that reports the timeout" - refuted when its finally clause runs a block
   that times out itself *)
Theorem C11_F21_cleanup_block_timeout_refuted :
  fst h4_outer_exit = Exc ECancelled /\ log (snd h4_outer_exit) = [(Ok, true); (Exc ECancelled, false)].
Proof. split; apply cleanup_block_timeout_overwrites_record. Qed.

(* the four histories in full *)
Theorem C11_F21_histories :
  (now fired_outer = 8 /\ armed h1_inner = None /\ deadlines h1_inner = [8; 12] /\ fst h1_sleep = Ok /\ now (snd h1_sleep) = 58 /\
   fst (aexit KIgnore 12 Ok (snd h1_sleep)) = Ok /\ log (snd (aexit KIgnore 12 Ok (snd h1_sleep))) = [(Ok, false)]) /\
  (now h2_fired = 8 /\ armed h2_fired = None /\ deadlines h2_fired = [20; 8] /\ fst h2_cleanup = Ok /\ now (snd h2_cleanup) = 58 /\
   fst h2_inner_exit = Ok /\ fst h2_outer_exit = Ok /\ log (snd h2_outer_exit) = [(Ok, true); (Ok, false)]).
Proof. split; [exact cleanup_block_never_armed | exact enclosing_deadline_unguarded_during_cleanup]. Qed.

Print Assumptions C11_facts.
Print Assumptions C11_early_unaffected.
Print Assumptions C11_fires_not_earlier.
Print Assumptions C11_fires_on_time.
Print Assumptions C11_armed_is_min.
Print Assumptions C11_block_exit_rearms.
Print Assumptions C11_nothing_left_armed.
Print Assumptions C11_no_stray_cancel.
Print Assumptions C11_outer_deadline_first.
Print Assumptions C11_inner_deadline_first.
Print Assumptions C11_body_first.
Print Assumptions C11_reporting_level.
Print Assumptions C11_aexit_code_known.
Print Assumptions C11_aexit_from_source.
Print Assumptions C11_deadline_code_known.
Print Assumptions C11_set_deadline_from_source.
Print Assumptions C11_unset_deadline_from_source.
Print Assumptions C11_entry_keeps_inflight_record.
Print Assumptions C11_F21_cleanup_block_never_armed_refuted.
Print Assumptions C11_F21_enclosing_deadline_unguarded_refuted.
Print Assumptions C11_F21_unhandled_inner_timeout_refuted.
Print Assumptions C11_F21_cleanup_block_timeout_refuted.
Print Assumptions C11_F21_histories.
