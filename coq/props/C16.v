(* C16 - SOCKS requests are byte-exact per SOCKS4, SOCKS4a, RFC 1928 and RFC 1929.
   Model: model/Socks.v (socks.py:71-276), literals/tables from gen/Gen_socks.v.
   The specification side is a set of independent *server-side parsers* (srv_parse4,
   srv_parse_greeting, srv_parse_auth, srv_parse_connect): each theorem says the server reads
   back exactly the intended fields from the bytes the client sends. *)
From AV Require Import Base Gen_socks Socks SocksProofs SocksCode SocksCodeProofs.

(* the literals extracted from the running code are the protocol constants *)
Theorem C16_literals :
  s4_request_prefix = [4; 1]%N /\ s4a_marker_ip = [0; 0; 0; 1]%N /\ s5_version = 5%N /\
  s5_methods_noauth = [0]%N /\ s5_methods_auth = [0; 2]%N /\ s5_auth_version = 1%N /\
  s5_connect_prefix = [5; 1; 0]%N /\ s5_atyp_v4 = 1%N /\ s5_atyp_host = 3%N /\ s5_atyp_v6 = 4%N /\
  s5_auth_len_bound = 256.
Proof. repeat split. Qed.

Theorem C16_socks4_exact : forall c a,
  c_dest c = DV4 a -> length a = 4 -> is_marker a = false ->
  (c_port c < 65536)%N -> no_nul (user_of c) ->
  srv_parse4 (start4 c) =
    Some {| r4_cmd := 1; r4_port := c_port c; r4_ip := a; r4_user := user_of c; r4_host := None |}.
Proof. exact socks4_exact. Qed.

Theorem C16_socks4a_exact : forall c h,
  c_dest c = DHost h -> (c_port c < 65536)%N -> no_nul (user_of c) -> no_nul h ->
  srv_parse4 (start4 c) =
    Some {| r4_cmd := 1; r4_port := c_port c; r4_ip := [0; 0; 0; 1]%N; r4_user := user_of c;
            r4_host := Some h |}.
Proof. exact socks4a_exact. Qed.

(* SOCKS4/4a send exactly one message: that request *)
Theorem C16_socks4_sent : forall c s, c_proto c <> P5 -> o_sent (handshake_spec c s) = [start4 c].
Proof. exact socks4_sent. Qed.

(* a constructed SOCKS4/4a client has a NUL-free user id (the constructor rejects the
   others since the fix of F16), so for constructed clients the hypothesis above holds *)
Theorem C16_constructed_user_no_nul : forall c,
  c_proto c <> P5 -> construct c = None -> no_nul (user_of c).
Proof. exact constructed_user_no_nul. Qed.

Theorem C16_socks5_greeting_exact : forall c,
  srv_parse_greeting (start5 c) = Some (match c_auth c with Some _ => [0; 2]%N | None => [0]%N end).
Proof. exact socks5_greeting_exact. Qed.

Theorem C16_socks5_auth_exact : forall a,
  authentication (Some a) = None ->
  srv_parse_auth (auth_bytes (Some a)) = Some (a_user a, a_pass a).
Proof. exact socks5_auth_exact. Qed.

Theorem C16_socks5_connect_exact : forall c,
  dest_wf (c_dest c) -> (c_port c < 65536)%N ->
  srv_parse_connect (request_connection c) = Some (1%N, c_dest c, c_port c).
Proof. exact socks5_connect_exact. Qed.

(* the messages sent, as a function of the proxy's replies: greeting; RFC 1929 message only
   if the proxy selected method 2 (possible only when credentials were given); CONNECT *)
Theorem C16_socks5_sent : forall c s, c_proto c = P5 ->
  o_sent (handshake_spec c s) = expected_sent5 c s.
Proof. exact socks5_sent. Qed.

Theorem C16_auth_only_if_selected : forall c s, c_proto c = P5 ->
  nth_error (o_sent (handshake_spec c s)) 1 = Some (auth_bytes (c_auth c)) ->
  auth_bytes (c_auth c) <> request_connection c ->
  exists rest, s = 5%N :: 2%N :: rest /\ c_auth c <> None.
Proof. exact auth_only_if_selected. Qed.

(* destinations / credentials a protocol cannot express are rejected by the constructor *)
Theorem C16_rejections : forall c,
  construct c = Some ProtoErr <->
  match c_proto c, c_dest c with
  | P4, DV4 _ => user_has_nul c
  | P4, _ => True
  | P4a, DV6 _ => True
  | P4a, _ => user_has_nul c
  | P5, _ => match c_auth c with
             | Some a => length (a_user a) = 0 \/ 256 <= length (a_user a) \/
                         length (a_pass a) = 0 \/ 256 <= length (a_pass a)
             | None => False
             end
  end.
Proof. exact rejections. Qed.

(* non-vacuity *)
Example C16_ex4 :
  let c := {| c_proto := P4; c_dest := DV4 [10; 0; 0; 7]%N; c_port := 8080;
              c_auth := Some {| a_user := [117; 115; 101; 114]%N; a_pass := [] |} |} in
  start4 c = [4; 1; 31; 144; 10; 0; 0; 7; 117; 115; 101; 114; 0]%N /\ no_nul (user_of c).
Proof. split; reflexivity. Qed.
Example C16_ex5 :
  let c := {| c_proto := P5; c_dest := DHost [97; 46; 98]%N; c_port := 443; c_auth := None |} in
  request_connection c = [5; 1; 0; 3; 3; 97; 46; 98; 1; 187]%N /\ dest_wf (c_dest c).
Proof. split; [reflexivity|cbn; lia]. Qed.

(* ---- the request builders as the SOURCE has them: SOCKS4._start (SOCKS4a inherits it), SOCKS5._destination_bytes and
   SOCKS5._authentication are translated statement by statement on every run (gen/Gen_socks.v); model/SocksCode.v runs the
   statements; for every destination, port and credential the run gives the bytes of the model's builders, about which the
   theorems above speak.  A construct the translator does not know makes the first theorem fail. ---- *)
Theorem C16_builder_code_known :
  sknown 6 socks4_start_code && sknown 6 socks5_destination_code && sknown 6 socks5_authentication_code
  && socks4a_inherits_start && random_auth_is_user_auth = true.
Proof. exact builders_known. Qed.

Theorem C16_socks4_request_from_source : forall p d port a, (forall x, d <> DV6 x) ->
  run_builder socks4_start_code {| i_dest := d; i_port := port; i_auth := a |} =
  RBytes (start4 {| c_proto := p; c_dest := d; c_port := port; c_auth := a |}).
Proof. exact start4_generated. Qed.

Theorem C16_socks5_destination_from_source : forall d port a,
  match d with DHost h => length h <= 255 | _ => True end ->
  run_builder socks5_destination_code {| i_dest := d; i_port := port; i_auth := a |} = RBytes (destination_bytes d port).
Proof. exact destination_generated. Qed.

Theorem C16_socks5_long_name_refused_from_source : forall h port a, 255 < length h ->
  run_builder socks5_destination_code {| i_dest := DHost h; i_port := port; i_auth := a |} = RAssert.
Proof. exact destination_long_name_asserts. Qed.

Theorem C16_socks5_authentication_from_source : forall d port a,
  run_builder socks5_authentication_code {| i_dest := d; i_port := port; i_auth := a |} =
  match authentication a with
  | Some _ => RProto
  | None => RPair (auth_bytes a) (auth_methods a)
  end.
Proof. exact authentication_generated. Qed.

(* SOCKS5._start (the greeting) and _request_connection (the CONNECT request: reached through the translated
   _first_response / _auth_response, whose runs inline it) *)
Theorem C16_socks5_greeting_from_source : forall c, c_proto c = P5 ->
  run_reply socks5_start_code c [] = RAct (Send (start5 c) S5First) None.
Proof. intros c H. rewrite (socks5_start_generated c H). cbn. rewrite H. reflexivity. Qed.

Theorem C16_socks5_connect_from_source : forall c d,
  N.eqb (nth0 d 0) 1 = true -> N.eqb (nth0 d 1) 0 = true ->
  run_reply socks5_auth_response_code c d = RAct (Send (request_connection c) S5Conn) (Some 2).
Proof.
  intros c d H0 H1. rewrite socks5_auth_response_generated. cbn. change s5_auth_version with 1%N. rewrite H0, H1. reflexivity.
Qed.

(* composed with the exactness theorems: the server-side parser reads the intended fields back from the bytes the
   TRANSLATED SOCKS4a code builds - the host name octet for octet, whatever its letters *)
Theorem C16_socks4a_source_request_parses : forall h port a,
  (port < 65536)%N -> no_nul (match a with Some x => a_user x | None => [] end) -> no_nul h ->
  exists m, run_builder socks4_start_code {| i_dest := DHost h; i_port := port; i_auth := a |} = RBytes m /\
            srv_parse4 m = Some {| r4_cmd := 1; r4_port := port; r4_ip := [0; 0; 0; 1]%N;
                                   r4_user := match a with Some x => a_user x | None => [] end; r4_host := Some h |}.
Proof.
  intros h port a Hp Hu Hh. eexists. split.
  - apply (start4_generated P4a). intros x E. discriminate E.
  - exact (socks4a_exact {| c_proto := P4a; c_dest := DHost h; c_port := port; c_auth := a |} h eq_refl Hp Hu Hh).
Qed.

Print Assumptions C16_literals.
Print Assumptions C16_socks4_exact.
Print Assumptions C16_socks4a_exact.
Print Assumptions C16_socks4_sent.
Print Assumptions C16_constructed_user_no_nul.
Print Assumptions C16_socks5_greeting_exact.
Print Assumptions C16_socks5_auth_exact.
Print Assumptions C16_socks5_connect_exact.
Print Assumptions C16_socks5_sent.
Print Assumptions C16_auth_only_if_selected.
Print Assumptions C16_rejections.
Print Assumptions C16_builder_code_known.
Print Assumptions C16_socks4_request_from_source.
Print Assumptions C16_socks5_destination_from_source.
Print Assumptions C16_socks5_long_name_refused_from_source.
Print Assumptions C16_socks5_authentication_from_source.
Print Assumptions C16_socks4a_source_request_parses.
Print Assumptions C16_socks5_greeting_from_source.
Print Assumptions C16_socks5_connect_from_source.
