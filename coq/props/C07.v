(* C07 - Bitcoin framing round-trips, never delivers a corrupt payload, stays in sync.
   Model: model/Bitcoin.v (framing.py:119-267; session.py:283-316); constants from
   gen/Gen_framing.v.  The checksum function is universally quantified: the theorems hold
   for every 4-byte checksum (the real one is the first four bytes of double SHA-256). *)
From AV Require Import Base Sha256 Bitcoin BitcoinProofs Gen_framing BitcoinCode BitcoinCodeProofs.

Definition the_params : params :=
  {| p_magic := btc_magic; p_max_payload := btc_max_payload_size;
     p_max_block := btc_max_block_size; p_block_cmd := btc_block_command |}.

Definition cks4 (cks : bytes -> bytes) := forall p, length (cks p) = 4.
Definition magic4 (P : params) := length (p_magic P) = 4.

(* the extracted header layout is the one the model parses: '<4s12sI4s', 24 bytes *)
Theorem C07_header_facts :
  btc_header_widths = [4; 12; 4; 4] /\ btc_header_size = 24 /\
  btc_header_little_endian = true /\ magic4 the_params /\ btc_strip_byte = 0%N.
Proof. repeat split. Qed.

(* 1. header = magic, zero-padded command, little-endian length, checksum *)
Theorem C07_frame_layout : forall cks P, magic4 P -> forall c p c12,
  pad_command c = Some c12 ->
  frame cks P c p = Some ((p_magic P ++ c12 ++ le_bytes 4 (N.of_nat (length p)) ++ cks p) ++ p) /\
  length c12 = 12 /\ rstrip0 c12 = rstrip0 c.
Proof. exact frame_layout. Qed.

Theorem C07_frame_rejects_long : forall cks P c p, 12 < length c -> frame cks P c p = None.
Proof.
  intros cks P c p H. unfold frame, pad_command.
  destruct (length c <=? 12) eqn:E; [apply Nat.leb_le in E; lia|reflexivity].
Qed.

(* a command ending with NUL cannot be represented in the zero-padded field: it is refused
   (before the fix: commit for F17 it was framed, and read back without the NUL) *)
Theorem C07_frame_rejects_trailing_nul : forall cks P c p, frame cks P (c ++ [0%N]) p = None.
Proof.
  intros cks P c p. unfold frame, pad_command, ends_nul. rewrite rev_app_distr. cbn.
  now destruct (length (c ++ [0%N]) <=? 12).
Qed.

(* 2. chunking independence of the reader: it equals the parser of the concatenated stream *)
Theorem C07_chunking_independent : forall cks P, magic4 P -> forall cs cs',
  concat cs = concat cs' ->
  let '(r, b, c) := receive_message cks P [] cs in
  let '(r', b', c') := receive_message cks P [] cs' in
  r = r' /\ b ++ concat c = b' ++ concat c'.
Proof. exact receive_message_chunking_independent. Qed.

(* 3. round trip, any chunking, any bytes following; and whole sequences of messages *)
Theorem C07_roundtrip_any_chunking : forall cks P, cks4 cks -> magic4 P ->
  forall c p rest f chunks,
  admissible P c p -> frame cks P c p = Some f -> concat chunks = f ++ rest ->
  let '(r, b, cs) := receive_message cks P [] chunks in
  r = Delivered c p /\ b ++ concat cs = rest.
Proof. exact roundtrip_any_chunking. Qed.

Theorem C07_roundtrip_sequence : forall cks P, cks4 cks -> magic4 P ->
  forall msgs fs, Forall2 (framed cks P) msgs fs ->
  forall chunks fuel, concat chunks = concat fs -> length msgs < fuel ->
  run cks P fuel [] chunks = map (fun m => Delivered (fst m) (snd m)) msgs.
Proof.
  intros cks P H1 H2 msgs fs HF chunks fuel E Hf.
  exact (roundtrip_sequence cks P H1 H2 msgs fs HF [] chunks fuel E Hf).
Qed.

(* ... and for EVERYTHING frame accepts (payload below 2^32 bytes and within the receiver's size
   limits): no side condition on the command is left *)
Theorem C07_roundtrip_full : forall cks P, cks4 cks -> magic4 P ->
  forall c p rest f,
  (N.of_nat (length p) < 4294967296)%N -> oversized P c (N.of_nat (length p)) = false ->
  frame cks P c p = Some f -> parse_one cks P (f ++ rest) = (Delivered c p, rest).
Proof. exact roundtrip_stream_full. Qed.

(* 4. a payload is delivered only if its checksum matches the header's *)
Theorem C07_delivered_only_if_checksum : forall cks P, magic4 P -> forall s c p rest,
  parse_one cks P s = (Delivered c p, rest) ->
  exists c12 lenb,
    s = p_magic P ++ c12 ++ lenb ++ cks p ++ p ++ rest /\
    length c12 = 12 /\ length lenb = 4 /\ rstrip0 c12 = c /\
    le_value lenb = N.of_nat (length p) /\ oversized P c (N.of_nat (length p)) = false.
Proof. exact delivered_only_if_checksum. Qed.

(* with a good header and enough bytes the outcome is decided by the checksum alone, and
   in both cases exactly header + declared payload are consumed: the stream stays in sync *)
Theorem C07_checksum_decides : forall cks P, magic4 P -> forall c12 lenb sum payload rest,
  length c12 = 12 -> length lenb = 4 -> length sum = 4 ->
  le_value lenb = N.of_nat (length payload) ->
  oversized P (rstrip0 c12) (le_value lenb) = false ->
  parse_one cks P (p_magic P ++ c12 ++ lenb ++ sum ++ payload ++ rest) =
    if bytes_eqb (cks payload) sum then (Delivered (rstrip0 c12) payload, rest) else (BadChecksum, rest).
Proof. exact parse_one_payload. Qed.

Theorem C07_badchecksum_keeps_sync : forall cks P, magic4 P -> forall s rest,
  parse_one cks P s = (BadChecksum, rest) ->
  exists h p, s = h ++ p ++ rest /\ length h = 24 /\
    N.of_nat (length p) = le_value (firstn 4 (skipn 16 h)).
Proof. exact badchecksum_keeps_sync. Qed.

(* 5. wrong magic / over-limit length deliver nothing and consume only the header *)
Theorem C07_magic_oversize_deliver_nothing : forall cks P s r rest,
  parse_one cks P s = (r, rest) -> r = BadMagic \/ r = Oversized -> rest = skipn 24 s.
Proof. exact magic_oversize_consume_header. Qed.

Theorem C07_limits : forall P cmd len,
  oversized P cmd len = true <->
  (p_max_payload P < len)%N /\ (cmd <> p_block_cmd P \/ (p_max_block P < len)%N).
Proof. exact limits. Qed.

(* 6. message session: every framing error is counted; magic and size errors close *)
Theorem C07_session_policy : forall rs,
  errors (session rs) = count_true is_err rs /\
  closes (session rs) = count_true is_fatal rs /\
  recv_count (session rs) = count_true is_msg rs.
Proof. exact session_policy. Qed.

(* non-vacuity *)
Example C07_ex_admissible : admissible the_params [118; 101; 114]%N [1; 2; 3]%N.
Proof.
  unfold admissible. split; [cbn; lia|]. split; [reflexivity|]. split; [reflexivity|]. vm_compute. reflexivity.
Qed.
Example C07_ex_roundtrip :
  match frame sha256d_4 the_params [118; 101; 114]%N [1; 2; 3]%N with
  | Some f => run sha256d_4 the_params 5 [] [firstn 7 f; skipn 7 f ++ [9]%N] = [Delivered [118; 101; 114]%N [1; 2; 3]%N]
  | None => False end.
Proof. vm_compute. reflexivity. Qed.

(* the reading path - BitcoinFramer._receive_header and BinaryFramer.receive_message - and the writing path -
   pad_command, _build_header, frame - are translated from the Python source on every run (gen/Gen_framing.v:
   btc_header_code, btc_message_code, btc_pad_code, btc_build_header_parts, btc_frame_parts); nothing was left
   untranslated.  Run over the byte queue the translated reading path is the model's receive_message - for every checksum
   function, parameter set and queue state (an await that cannot be satisfied blocks: Starved, nothing consumed) - and
   the translated writing path is the model's frame *)
Theorem C07_framer_code_known : fknown 4 btc_header_code && fknown 4 btc_message_code = true.
Proof. exact framer_code_known. Qed.

Theorem C07_receive_message_from_source : forall cks P buf chunks, p_block_cmd P = btc_block_command ->
  receive_message_generated cks P buf chunks = FDone (receive_message cks P buf chunks).
Proof. exact generated_receive_message. Qed.

Theorem C07_pad_command_from_source : forall c, pad_generated c = Some (pad_command c).
Proof. exact generated_pad_command. Qed.

Theorem C07_frame_from_source : forall cks P c p, frame_generated cks P c p = Some (frame cks P c p).
Proof. exact generated_frame. Qed.

Print Assumptions C07_header_facts.
Print Assumptions C07_frame_layout.
Print Assumptions C07_chunking_independent.
Print Assumptions C07_roundtrip_any_chunking.
Print Assumptions C07_roundtrip_sequence.
Print Assumptions C07_roundtrip_full.
Print Assumptions C07_frame_rejects_trailing_nul.
Print Assumptions C07_delivered_only_if_checksum.
Print Assumptions C07_checksum_decides.
Print Assumptions C07_badchecksum_keeps_sync.
Print Assumptions C07_magic_oversize_deliver_nothing.
Print Assumptions C07_limits.
Print Assumptions C07_session_policy.
Print Assumptions C07_framer_code_known.
Print Assumptions C07_receive_message_from_source.
Print Assumptions C07_pad_command_from_source.
Print Assumptions C07_frame_from_source.
