(* C13 - Concurrent request handling never exceeds the session's concurrency limit
   (the limiter on its own).  Model: model/Limiter.v - session.py:57-89 on CPython 3.12's
   asyncio.Semaphore.  Every theorem is over ALL label sequences (labels that are not enabled
   are no-ops); the only hypothesis is the property's own: targets are at least 1. *)
From AV Require Import Base Limiter LimiterProofs LimiterOrder LimiterProgress Gen_session Throttle ThrottleProofs LimiterCode LimiterCodeProofs.
Local Open Scope Z_scope.

Definition targets_ge_1 (ls : list label) : Prop := Forall ok_label ls.

(* permits are neither lost nor duplicated:
   holders + free permits + permits handed to woken waiters = _sem_value *)
Theorem C13_conservation : forall t ls, 1 <= t -> targets_ge_1 ls ->
  let st := run t ls in
  nhold st + value st + wokenZ (waiters st) = semv st /\ 0 <= value st /\
  Z.of_nat (length (holders st)) <= nhold st.
Proof.
  intros t ls Ht Hl st. destruct (run_inv t ls Ht Hl) as [(Hc & Hv & _ & _ & _ & Hh) _].
  unfold tot in Hc. repeat split; auto. fold st in Hc. lia.
Qed.

(* never more holders than the largest target that has been in force *)
Theorem C13_bound : forall t ls, 1 <= t -> targets_ge_1 ls ->
  let st := run t ls in Z.of_nat (length (holders st)) <= maxt st.
Proof.
  intros t ls Ht Hl st. pose proof (run_inv t ls Ht Hl) as H. fold st in H.
  pose proof (inv_holders_le_semv st H). destruct H as [(_ & _ & Hs & _) _]. lia.
Qed.

(* a lowered limit retires one excess permit per exit: holders <= target + excess, the excess
   (permits above the target) never grows except by set_target, and every exit of a holder
   while there is excess reduces it by exactly one *)
Theorem C13_lowering : forall t ls, 1 <= t -> targets_ge_1 ls ->
  let st := run t ls in
  Z.of_nat (length (holders st)) <= target st + excess st /\
  (forall l, (forall n, l <> SetTarget n) -> excess (step st l) <= excess st) /\
  (forall w, memN w (holders st) = true -> 0 < excess st -> excess (step st (Exit w)) = excess st - 1).
Proof.
  intros t ls Ht Hl st. pose proof (run_inv t ls Ht Hl) as H. fold st in H. split; [|split].
  - now apply holders_le_target_plus_excess.
  - intros l Hn. now apply excess_no_raise.
  - intros w. apply excess_exit.
Qed.

(* a raised limit admits the extra holders from the next entry on *)
Theorem C13_raising : forall st w, 1 <= target st -> known st w = false -> locked st = false ->
  semv (step st (Start w)) = Z.max (semv st) (target st) /\ holders (step st (Start w)) = w :: holders st.
Proof. exact admission_reaches_target. Qed.

(* waiters are handed permits in arrival order: the permit goes to the FIRST pending waiter *)
Theorem C13_fifo : forall l l', wake_first l = Some l' ->
  exists a w b, l = a ++ (w, Pending) :: b /\ l' = a ++ (w, Woken) :: b /\
                forallb (fun x => negb (is_pending (snd x))) a = true.
Proof. exact wake_first_spec. Qed.

(* ... and globally: nobody overtakes a waiting worker.  For every label sequence in which every worker
   enters at most once (limits of at least 1): whenever x is still queued, whoever holds a permit, has ever
   been admitted, or has been handed a permit entered BEFORE x - whatever the cancellations, the limit
   changes and the order in which resumed tasks run *)
Theorem C13_no_overtaking : forall t ls, 1 <= t -> targets_ge_1 ls -> NoDup (starts ls) ->
  let st := run t ls in
  forall x y, find_waiter x (waiters st) = Some Pending ->
              (In y (holders st) \/ In y (admitted st) \/ find_waiter y (waiters st) = Some Woken) ->
              exists a b, starts ls = a ++ b /\ In y a /\ In x b.
Proof. exact no_overtaking. Qed.

(* "... and are all eventually served": for a queued worker x let mu = excess + the number of workers queued in
   front of x.  No step other than set_target makes mu larger while x stays queued, and every exit of a holder
   makes mu smaller by exactly one while mu > 0 and hands x its permit when mu = 0: x is served after at most
   excess + position + 1 exits, whatever else happens in between *)
Theorem C13_not_delayed : forall st l x, InvN st -> ok_label l -> (forall n, l <> SetTarget n) ->
  In x (pend (waiters st)) -> In x (pend (waiters (step st l))) ->
  (idx x (pend (waiters (step st l))) <= idx x (pend (waiters st)))%nat /\ excess (step st l) <= excess st.
Proof. exact not_delayed. Qed.

Theorem C13_exit_progress : forall st h x, InvN st -> memN h (holders st) = true -> In x (pend (waiters st)) ->
  let st' := step st (Exit h) in
  (0 < excess st -> excess st' = excess st - 1 /\ pend (waiters st') = pend (waiters st)) /\
  (excess st = 0 ->
     (idx x (pend (waiters st)) = O -> In x (wok (waiters st'))) /\
     (forall k, idx x (pend (waiters st)) = S k -> In x (pend (waiters st')) /\ idx x (pend (waiters st')) = k)).
Proof. exact exit_progress. Qed.

(* (the hypothesis InvN holds in every reachable state: C13_conservation is its first half) *)
Theorem C13_reachable_inv : forall t ls, 1 <= t -> targets_ge_1 ls -> InvN (run t ls).
Proof. exact run_inv. Qed.

Theorem C13_exit_serves_head : forall st w ws, memN w (holders st) = true -> semv st <= target st ->
  wake_first (waiters st) = Some ws ->
  waiters (step st (Exit w)) = ws /\ value (step st (Exit w)) = value st.
Proof. exact exit_serves_head. Qed.

(* a limit of zero or less refuses entry - at once, whether or not a permit is free, and without
   touching the semaphore (on the original tree an entry made while no permit was free was queued, and
   stayed queued while the limit stayed at zero: F18, repaired by a fix: commit) *)
Theorem C13_zero_refuses : forall st w, target st <= 0 -> known st w = false ->
  refused (step st (Start w)) = w :: refused st /\ holders (step st (Start w)) = holders st /\
  nhold (step st (Start w)) = nhold st /\ waiters (step st (Start w)) = waiters st /\
  value (step st (Start w)) = value st /\ semv (step st (Start w)) = semv st.
Proof. exact zero_refuses. Qed.

(* non-vacuity: two permits, three workers, a lowered limit *)
Example C13_ex :
  let st := run 2 [Start 1; Start 2; Start 3; SetTarget 1; Exit 1; Exit 2; Wake 3]%N in
  holders st = [3%N] /\ semv st = 1 /\ waiters st = [] /\ value st = 0 /\ targets_ge_1 [SetTarget 1].
Proof. cbn. repeat split. constructor; [cbn; lia|constructor]. Qed.

(* ---------- the code of the Concurrency class itself, regenerated from the source ---------- *)
(* _retarget_semaphore, __aenter__, __aexit__ and set_target are translated statement by statement on every
   run (gen/Gen_session.v: conc_retarget, conc_aenter, conc_aexit, conc_set_target); nothing was left
   untranslated, and running the generated code on the model's state does exactly what the primitives of the
   hand-written model do: __aexit__ retires one permit above the target or releases; _retarget_semaphore
   refuses at a target <= 0 and otherwise releases target - _sem_value permits one by one; __aenter__ refuses at
   once or waits for a permit with _retarget_semaphore still to run; the labels Exit / SetTarget and the
   model's [retarget] are built from exactly these pieces *)
Theorem C13_code_known :
  stmts_known 5 conc_retarget && stmts_known 5 conc_aenter && stmts_known 5 conc_aexit && stmts_known 5 conc_set_target = true.
Proof. exact concurrency_code_known. Qed.

Theorem C13_code_aexit : forall st,
  cexec 4 0 st conc_aexit = CNormal (if target st <? semv st then set_semv st (semv st - 1) else release st).
Proof. exact aexit_code. Qed.

Theorem C13_code_retarget : forall st,
  let n := Z.to_nat (target st - semv st) in
  cexec (3 * n + 4) 0 st conc_retarget = if target st <=? 0 then CRaised st else CNormal (release_n n st).
Proof. exact retarget_code. Qed.

Theorem C13_code_aenter : forall st,
  cexec 3 0 st conc_aenter = if target st <=? 0 then CRaised st else CSuspend st [SRetarget].
Proof. exact aenter_code. Qed.

Theorem C13_code_set_target : forall st n, cexec 2 n st conc_set_target = CNormal (set_target st n).
Proof. exact set_target_code. Qed.

Theorem C13_model_built_from_code : forall st w,
  (memN w (holders st) = true ->
   CNormal (step st (Exit w)) = cexec 4 0 (set_holders st (removeN w (holders st)) (nhold st - 1) (admitted st)) conc_aexit) /\
  (0 < target st ->
   exists st', cexec (3 * Z.to_nat (target st - semv st) + 4) 0 st conc_retarget = CNormal st' /\
               retarget st w = set_holders st' (w :: holders st') (nhold st' + 1) (admitted st' ++ [w])) /\
  (forall n, CNormal (step st (SetTarget n)) = cexec 2 n st conc_set_target).
Proof.
  intros st w. split; [apply exit_is_aexit|]. split; [apply retarget_is_code|]. intros n. apply settarget_is_code.
Qed.

(* ---------- the session level: the request-processing coroutines against the limiter (model/Throttle.v) ---------- *)
(* the shape of RPCSession._throttled_request and MessageSession._throttled_message - regenerated from
   the source on every run - is the one the theorems below need: the handler is awaited only inside the
   limiter's block, the block is entered once, as the very first thing a request does, and is left again *)
Theorem C13_session_shape :
  bracketed throttled_request_ops = true /\ bracketed throttled_message_ops = true /\
  acquire_first_once throttled_request_ops = true /\ acquire_first_once throttled_message_ops = true /\
  existsb is_handle throttled_request_ops = true /\ existsb is_handle throttled_message_ops = true.
Proof. vm_compute. repeat split. Qed.

(* for EVERY well-bracketed coroutine and every sequence of arrivals, first steps, resumptions, wake-ups,
   cancellations of queued and of running requests and limit changes (limits of at least 1):
   every running handler holds a permit, so the handlers running at once are never more than the largest
   limit that has been in force, nor more than the current limit plus the excess a lowering left
   (which every exit retires by one: C13_lowering) *)
Theorem C13_session_bound : forall ops t ls, bracketed ops = true -> 1 <= t -> Forall tok_label ls ->
  let st := trun ops t ls in
  incl (running st) (holders (lim st)) /\ NoDup (running st) /\
  Z.of_nat (length (running st)) <= maxt (lim st) /\
  Z.of_nat (length (running st)) <= target (lim st) + excess (lim st).
Proof.
  intros ops t ls Hb Ht Hl st. pose proof (trun_inv ops t ls Hb Ht Hl) as H. fold st in H.
  pose proof (running_le_holders st H) as Hlen. pose proof (i_lim _ _ H) as Hi.
  pose proof (inv_holders_le_semv _ Hi). pose proof (holders_le_target_plus_excess _ Hi).
  destruct Hi as [(_ & _ & Hs & _) _].
  split; [now apply running_hold|]. split; [apply (i_running_nodup _ _ H)|]. split; lia.
Qed.

Theorem C13_request_handlers_bounded : forall t ls, 1 <= t -> Forall tok_label ls ->
  let st := trun throttled_request_ops t ls in Z.of_nat (length (running st)) <= maxt (lim st).
Proof. intros t ls Ht Hl. refine (proj1 (proj2 (proj2 (C13_session_bound throttled_request_ops t ls _ Ht Hl)))). apply C13_session_shape. Qed.

Theorem C13_message_handlers_bounded : forall t ls, 1 <= t -> Forall tok_label ls ->
  let st := trun throttled_message_ops t ls in Z.of_nat (length (running st)) <= maxt (lim st).
Proof. intros t ls Ht Hl. refine (proj1 (proj2 (proj2 (C13_session_bound throttled_message_ops t ls _ Ht Hl)))). apply C13_session_shape. Qed.

(* no permit is leaked: every holder is a request that is still there (suspended inside the block) *)
Theorem C13_session_no_leak : forall ops t ls, bracketed ops = true -> 1 <= t -> Forall tok_label ls ->
  let st := trun ops t ls in forall w, In w (holders (lim st)) -> In w (map fst (reqs st)).
Proof. intros ops t ls Hb Ht Hl st. apply holders_live. now apply trun_inv. Qed.

(* the unanswered-request count: every request that has arrived is, exactly once, either not yet started,
   suspended somewhere in its coroutine, or ended - so the number of requests received whose handling has
   not finished is arrived - ended (the snapshots compare it with unanswered_request_count()) *)
Theorem C13_session_unanswered : forall ops t ls, bracketed ops = true -> 1 <= t -> Forall tok_label ls ->
  let st := trun ops t ls in
  Permutation.Permutation (arrived st) (ready st ++ map fst (reqs st) ++ ended st) /\
  (unfinished st + length (ended st) = length (arrived st))%nat.
Proof. exact trun_unanswered. Qed.

(* requests ask the limiter for their permit in the order in which they arrived (and the limiter hands
   permits to its queue first come, first served: C13_fifo, C13_exit_serves_head) *)
Theorem C13_session_arrival_order : forall t ls,
  (let st := trun throttled_request_ops t ls in arrived st = asked st ++ ready st) /\
  (let st := trun throttled_message_ops t ls in arrived st = asked st ++ ready st).
Proof. intros t ls. split; apply trun_arrival_order; apply C13_session_shape. Qed.

(* non-vacuity: limit 2, three requests; the third waits until the first has finished and left the block *)
Example C13_session_ex :
  let ls := [TArrive 1; TArrive 2; TArrive 3; TFirst; TFirst; TFirst; TResume 1; TResume 2; TResume 1]%N in
  let st := trun [TAcquire; TSleep; THandle; TRelease; TAwait] 2 ls in
  running st = [2%N] /\ holders (lim st) = [2%N] /\ waiting st = [3%N] /\ asked st = [1; 2; 3]%N /\
  running (tstep [TAcquire; TSleep; THandle; TRelease; TAwait] st (TWake 3)) = [2%N] /\
  holders (lim (tstep [TAcquire; TSleep; THandle; TRelease; TAwait] st (TWake 3))) = [3; 2]%N /\
  Forall tok_label ls.
Proof. vm_compute. repeat split; repeat constructor. Qed.

(* non-vacuity of C13_no_overtaking: worker 3 is still queued, 1 and 2 hold permits and entered before it *)
Example C13_no_overtaking_ex :
  let ls := [Start 1; Start 2; Start 3; Start 4; Cancel 4; Exit 1; Start 5]%N in
  let st := run 2 ls in
  find_waiter 3 (waiters st) = Some Woken /\ find_waiter 5 (waiters st) = Some Pending /\
  holders st = [2%N] /\ NoDup (starts ls) /\ targets_ge_1 ls.
Proof. vm_compute. repeat split; repeat constructor; cbn; intuition discriminate. Qed.

(* non-vacuity of the progress theorems: limit lowered from 3 to 1 with three holders and two queued workers:
   two exits retire the excess, the third hands worker 4 its permit, worker 5 moves up *)
Example C13_progress_ex :
  let st := run 3 [Start 1; Start 2; Start 3; Start 4; Start 5; SetTarget 1]%N in
  excess st = 2 /\ pend (waiters st) = [4; 5]%N /\
  let st3 := fold_left step [Exit 1; Exit 2; Exit 3]%N st in
  excess st3 = 0 /\ wok (waiters st3) = [4%N] /\ pend (waiters st3) = [5%N].
Proof. vm_compute. repeat split. Qed.

Print Assumptions C13_conservation.
Print Assumptions C13_bound.
Print Assumptions C13_lowering.
Print Assumptions C13_raising.
Print Assumptions C13_fifo.
Print Assumptions C13_no_overtaking.
Print Assumptions C13_not_delayed.
Print Assumptions C13_exit_progress.
Print Assumptions C13_reachable_inv.
Print Assumptions C13_exit_serves_head.
Print Assumptions C13_zero_refuses.
Print Assumptions C13_code_known.
Print Assumptions C13_code_aexit.
Print Assumptions C13_code_retarget.
Print Assumptions C13_code_aenter.
Print Assumptions C13_code_set_target.
Print Assumptions C13_model_built_from_code.
Print Assumptions C13_session_shape.
Print Assumptions C13_session_bound.
Print Assumptions C13_request_handlers_bounded.
Print Assumptions C13_message_handlers_bounded.
Print Assumptions C13_session_no_leak.
Print Assumptions C13_session_unanswered.
Print Assumptions C13_session_arrival_order.
