(* C17 - SOCKS handshake outcome depends only on reply bytes; never over-reads.
   Model: model/Socks.v - SOCKSProxy._handshake (socks.py:296-312) driving the client state
   machines, the socket returning between 1 and `count` bytes per sock_recv (list [ks]).
   Specification: rfc4 / rfc5 (proof/SocksProofs.v), an independent reading of the reply
   formats of the SOCKS4 note, RFC 1928 and RFC 1929. *)
From AV Require Import Base Gen_socks Socks SocksProofs SocksCode SocksCodeProofs.

Theorem C17_tables :
  s4_granted = 90%N /\ s5_atyps = [1; 3; 4]%N /\ s5_version = 5%N /\ s5_auth_version = 1%N.
Proof. repeat split. Qed.

(* 1. the outcome (result, messages sent, bytes left on the socket) does not depend on how
      the socket segments the reply stream *)
Theorem C17_segmentation_independent : forall c stream ks ks',
  handshake c stream ks = handshake c stream ks'.
Proof. exact segmentation_independent. Qed.

(* ... because the handshake performs exact reads: it equals the socket-free reference *)
Theorem C17_exact_reads : forall c stream ks, handshake c stream ks = handshake_spec c stream.
Proof. exact handshake_is_spec. Qed.

(* 2. every handshake ends: success, SOCKSFailure or SOCKSProtocolError (incl. EOF) *)
Theorem C17_total : forall c stream ks, o_res (handshake c stream ks) <> OutOfFuel.
Proof. exact handshake_total. Qed.

(* 3. success iff the replies are well formed and grant the request; a refusal is a
      SOCKSFailure; malformed or truncated replies are SOCKSProtocolErrors; on success the
      bytes left unread are exactly what follows the reply ([RGrant rest]), i.e. the client
      consumed 8 bytes (SOCKS4) or 2 [+2] + 4 + address + 2 bytes (SOCKS5), for every
      bound-address length 0..255 *)
Theorem C17_socks4_outcome : forall c s ks, c_proto c <> P5 ->
  rfc_of (handshake c s ks) = rfc4 s.
Proof. intros c s ks H. rewrite handshake_is_spec. now apply socks4_outcome. Qed.

Theorem C17_socks5_outcome : forall c s ks, c_proto c = P5 ->
  rfc_of (handshake c s ks) = rfc5 (auth_methods (c_auth c)) s.
Proof. intros c s ks H. rewrite handshake_is_spec. now apply socks5_outcome. Qed.

(* trailing application bytes are untouched: a granting reply followed by anything *)
Example C17_ex_trailing :
  let c := {| c_proto := P5; c_dest := DV4 [1; 2; 3; 4]%N; c_port := 80; c_auth := None |} in
  let o := handshake c ([5; 0] ++ [5; 0; 0; 3; 2; 120; 121; 0; 80] ++ [71; 69; 84])%N [1; 1; 3; 1] in
  o_res o = Done /\ o_left o = [71; 69; 84]%N.
Proof. split; reflexivity. Qed.
Example C17_ex_refusal :
  let c := {| c_proto := P4; c_dest := DV4 [1; 2; 3; 4]%N; c_port := 80; c_auth := None |} in
  o_res (handshake c [0; 91; 0; 0; 0; 0; 0; 0]%N []) = Raised Failure.
Proof. reflexivity. Qed.

(* ---- the state methods as the SOURCE has them: SOCKS4._first_response (inherited by SOCKS4a), SOCKS5._first_response,
   _auth_response, _connect_response, _connect_response_rest are translated statement by statement on every run
   (gen/Gen_socks.v); model/SocksCode.v runs the statements on the bytes _read() delivered.  For every configuration and every
   reply: each method asks _read() for exactly the number of bytes `need` says and decides exactly as `decide` - the
   function the handshake theorems above are about - says: exception class, message and next state, or completion. ---- *)
Theorem C17_socks4_first_response_from_source : forall c d,
  run_reply socks4_first_response_code c d = RAct (decide c S4First d) (Some (need S4First)).
Proof. exact socks4_first_response_generated. Qed.

Theorem C17_socks5_first_response_from_source : forall c d,
  run_reply socks5_first_response_code c d = RAct (decide c S5First d) (Some (need S5First)).
Proof. exact socks5_first_response_generated. Qed.

Theorem C17_socks5_auth_response_from_source : forall c d,
  run_reply socks5_auth_response_code c d = RAct (decide c S5Auth d) (Some (need S5Auth)).
Proof. exact socks5_auth_response_generated. Qed.

Theorem C17_socks5_connect_response_from_source : forall c d,
  run_reply socks5_connect_response_code c d = RAct (decide c S5Conn d) (Some (need S5Conn)).
Proof. exact socks5_connect_response_generated. Qed.

Theorem C17_socks5_connect_response_rest_from_source : forall c n d,
  run_rest c n d = RAct (decide c (S5Rest n) d) (Some (need (S5Rest n))).
Proof. exact socks5_connect_response_rest_generated. Qed.

Theorem C17_socks4a_inherits_first_response : socks4a_inherits_first_response = true.
Proof. exact reply_known. Qed.

Print Assumptions C17_tables.
Print Assumptions C17_segmentation_independent.
Print Assumptions C17_exact_reads.
Print Assumptions C17_total.
Print Assumptions C17_socks4_outcome.
Print Assumptions C17_socks5_outcome.
Print Assumptions C17_socks4_first_response_from_source.
Print Assumptions C17_socks5_first_response_from_source.
Print Assumptions C17_socks5_auth_response_from_source.
Print Assumptions C17_socks5_connect_response_from_source.
Print Assumptions C17_socks5_connect_response_rest_from_source.
Print Assumptions C17_socks4a_inherits_first_response.
