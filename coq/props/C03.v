(* C03 - Any handler outcome yields one well-formed reply; the session survives.
   Model: model/Handler.v, the tail of RPCSession._throttled_request (session.py:436-476) on top
   of the codec and connection models.  Partial: user code inside a handler is represented by
   its outcome; handlers that swallow cancellation are outside the model. *)
From Coq Require Import QArith.
From AV Require Import Base Utf8 Json Gen_jsonrpc Gen_session Codec Conn Handler HandlerProofs.

Theorem C03_codes : INTERNAL_ERROR = (-32603)%Z /\ SERVER_BUSY = (-102)%Z /\
  EXCESSIVE_RESOURCE_USAGE = (-101)%Z /\ (sb_error_base_cost == 100)%Q.
Proof. repeat split. Qed.

(* exactly one reply per request, under its id: the value, the handler's own code and message,
   internal error (-32603) for any other exception or a non-encodable result, server busy (-102)
   for an overrun, -101 for a refusal; nothing for a notification *)
Theorem C03_one_wellformed_reply : forall p rid o,
  reply_of p (Some rid) o = Some (respval_payload p (expected o) rid) /\
  getn k_id (respval_payload p (expected o) rid) = rid /\ reply_of p None o = None.
Proof. exact one_wellformed_reply. Qed.

(* isolation, error count and cost: for every assignment of behaviours to any number of
   requests / notifications and every completion order *)
Theorem C03_isolation : forall base p xs s,
  let s' := fold_left (handler_ends base p) xs s in
  s_alive s' = s_alive s /\
  s_wire s' = s_wire s ++ flat_map (fun x => match reply_of p (fst x) (snd x) with Some r => [r] | None => [] end) xs /\
  s_errors s' = (s_errors s + Z.of_nat (length (filter (fun x => failed (is_req x) (snd x)) xs)))%Z /\
  s_closing s' = (s_closing s || existsb (fun x => f_disconnect (finish (is_req x) (snd x))) xs).
Proof. exact isolation. Qed.

Theorem C03_cost_per_failure : forall rq o,
  f_failed (finish rq o) = if failed rq o then Some (extra_cost o) else None.
Proof. exact finish_failed. Qed.

(* the except ladder is regenerated from the source of RPCSession._throttled_request on every run (clauses
   in order, what each does with the exception, which exceptions each catches - probed with issubclass on the
   running classes): for every handler outcome that is an exception, the first clause that catches it is the
   one the model implements; a cancellation is caught by none *)
Theorem C03_ladder_from_source : forall o,
  match raised o with Some x => handler_for x = ladder_expect o | None => ladder_expect o = None end.
Proof. exact ladder_from_source. Qed.

Theorem C03_cancellation_not_caught : handler_for XCancelled = None.
Proof. exact cancellation_not_caught. Qed.

Theorem C03_finish_follows_ladder : forall rq o,
  match ladder_expect o with
  | Some (LCode c, d, _) => f_result (finish rq o) = RError (JInt c) [] /\ f_disconnect (finish rq o) = d
  | Some (LOwn, d, _) => (exists c m, f_result (finish rq o) = RError (JInt c) m) /\ f_disconnect (finish rq o) = d
  | Some (LPayload, d, _) => f_disconnect (finish rq o) = d
  | _ => f_disconnect (finish rq o) = false
  end.
Proof. exact finish_follows_ladder. Qed.

Theorem C03_session_survives : forall base p xs, s_alive (serve_all base p xs) = true.
Proof. exact survives. Qed.

Example C03_ex :
  let s := serve_all 100 V2 [(Some (JInt 1), ORetBad); (None, OOther); (Some (JInt 2), ORPC 7 [] 25); (Some (JInt 3), ORet JNull)] in
  (s_errors s = 3)%Z /\ (s_cost s == 325)%Q /\ length (s_wire s) = 3%nat /\ s_closing s = false.
Proof. vm_compute. repeat split; discriminate || reflexivity. Qed.

Print Assumptions C03_codes.
Print Assumptions C03_one_wellformed_reply.
Print Assumptions C03_isolation.
Print Assumptions C03_cost_per_failure.
Print Assumptions C03_session_survives.
Print Assumptions C03_ladder_from_source.
Print Assumptions C03_cancellation_not_caught.
Print Assumptions C03_finish_follows_ladder.
