(* C12 - External cancellation passes through timeouts unchanged (timeout part; the group
   part is the LTS of C09/C10).  Model: model/Timeout.v.  For every program that does not
   itself catch CancelledError / TimeoutCancellationError, every history of inner timeouts
   that expired and were caught or ignored, and every instant of the external cancel: if the
   cancel was delivered, what reaches the top level is CancelledError - never TaskTimeout,
   TimeoutCancellationError or UncaughtTimeoutError - and no timer is left armed. *)
From AV Require Import Base Gen_curio Timeout TimeoutProofs TimeoutCode TimeoutCodeProofs.
From AV Require TaskGroup TaskGroupProofs.
Local Open Scope Z_scope.

Theorem C12_external_cancel_propagates : forall p e,
  no_catch_cancel p = true -> pos_awaits p = true ->
  ext (snd (eval p (init (Some e)))) = None ->
  fst (eval p (init (Some e))) = Exc ECancelled.
Proof. exact external_cancel_propagates. Qed.

(* the general form, from any state reached in normal execution *)
Theorem C12_post : forall p s,
  no_catch_cancel p = true -> pos_awaits p = true -> K s -> J s -> ArmedInv s ->
  Post s (fst (eval p s)) (snd (eval p s)).
Proof. exact eval_post. Qed.

(* the clean-up still takes place: whatever the cancel instant, no timer stays armed *)
Theorem C12_cleanup : forall p e, armed (snd (eval p (init (Some e)))) = None.
Proof. intros p e. apply nothing_left_armed. Qed.

(* non-vacuity, and the regression witness of F10: outer timeout_after(40); an inner
   timeout_after(1) expires and is caught; the task is cancelled at tick 10 *)
Definition f10 : prog :=
  Block KTimeout false 40 (Seq (Try (Block KTimeout false 1 (Await 8)) [ETaskTimeout] Skip) (Await 20)).
Example C12_f10 :
  no_catch_cancel f10 = true /\ pos_awaits f10 = true /\
  ext (snd (eval f10 (init (Some 10)))) = None /\
  fst (eval f10 (init (Some 10))) = Exc ECancelled /\
  log (snd (eval f10 (init (Some 10)))) = [(Exc ETaskTimeout, true); (Exc ECancelled, false)].
Proof. vm_compute. repeat split. Qed.

(* the task-group part (model/TaskGroup.v, the LTS of C09): once task.cancel() has been called on a
   joining task that had not ended - in join(), in `async with`, while the body's failure is being
   handled, at any instant - whatever happens afterwards it can only end cancelled: the
   CancelledError is never swallowed by join's finally clause *)
Theorem C12_group_join_stays_cancelled : forall g ls, TaskGroupProofs.ended g = false ->
  forall c e j, TaskGroup.pc (fold_left TaskGroup.step ls (TaskGroup.step g TaskGroup.LCancelJoiner)) = TaskGroup.JEnded c e j ->
  c = true.
Proof. exact TaskGroupProofs.cancelled_join_ends_cancelled. Qed.

(* the block-exit logic these theorems are about is the one in the source: TimeoutAfter.__aexit__ is translated on
   every run (gen/Gen_curio.v: aexit_code) and decides, for every input, as the model's aexit does (see props/C11.v) *)
Theorem C12_aexit_from_source : forall k dl r tod uncaught,
  aexit_generated {| d_kind := k; d_deadline := dl; d_inflight := r; d_timed_out := tod; d_uncaught := uncaught |} =
  let '(r', e) := decide k dl r tod uncaught in DDone r' e.
Proof. exact generated_aexit_is_model. Qed.

Print Assumptions C12_external_cancel_propagates.
Print Assumptions C12_group_join_stays_cancelled.
Print Assumptions C12_post.
Print Assumptions C12_cleanup.
Print Assumptions C12_aexit_from_source.
