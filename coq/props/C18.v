(* C18 - Host, port, protocol validation is exact and addresses survive print/parse.
   Model: model/Util.v (util.py:39-248).  The regular expressions are regenerated from the
   source on every run (gen/Gen_util.v: AST, classes expanded by the real re engine under the
   pattern's flags, anchor kind, call style) - the exactness theorems are re-proved against what
   the code says now by a verified bisimulation check (lib/Rx.v).
   Partial: the NetAddress / Service round trip is proved for its parsing core
   (_split_address on the three printed shapes, the decimal port text); ipaddress.ip_address
   and the composition are tied by the correspondence only. *)
From AV Require Import Base Utf8 Json Rx Gen_util Util UtilSpec UtilProofs.
Local Open Scope N_scope.

(* what re.match accepts with the extracted pattern / flags / anchor = the English definition *)
Theorem C18_label_regex_exact : forall s, matchb label_rx s = label_ok s.
Proof. exact label_regex_exact. Qed.
Theorem C18_numeric_regex_exact : forall s, matchb numeric_rx s = numeric_ok s.
Proof. exact numeric_regex_exact. Qed.
Theorem C18_protocol_regex_exact : forall s, matchb protocol_rx s = protocol_ok s.
Proof. exact protocol_regex_exact. Qed.

(* a string is accepted as a host name exactly when, ignoring one trailing dot, it is 1-253
   characters of dot-separated labels of 1-63 letters, digits, hyphens or underscores that
   neither begin nor end with a hyphen and whose last label is not all digits *)
Theorem C18_hostname_exact : forall s, is_valid_hostname s = hostname_ok s.
Proof. exact hostname_exact. Qed.

Theorem C18_protocol_exact : forall s,
  validate_protocol s = if protocol_ok s then Some (map lower s) else None.
Proof. exact protocol_exact. Qed.

(* ports: only 1..65535 is ever returned; integers exactly in range; every port printed in
   decimal is read back *)
Theorem C18_port_range : forall p z, validate_port p = Some z -> (1 <= z <= 65535)%Z.
Proof. exact port_range. Qed.
Theorem C18_port_int_exact : forall z,
  validate_port (PInt z) = if ((1 <=? z)%Z && (z <=? 65535)%Z) then Some z else None.
Proof. exact port_int_exact. Qed.
Theorem C18_port_text_roundtrip : forall p, 1 <= p <= 65535 ->
  validate_port (PStr (print_nat p)) = Some (Z.of_N p).
Proof. exact port_text_roundtrip. Qed.

(* the parsing core of the print / parse round trip *)
Theorem C18_split_plain : forall s p, hd 0 s <> 91 -> find_char 58 s 0 = None ->
  split_address (s ++ 58 :: p) = (s, p).
Proof. exact split_plain. Qed.
Theorem C18_split_bracket : forall a p, split_uses_rfind = true -> find_char 93 p 0 = None ->
  split_address (91 :: a ++ 93 :: 58 :: p) = (a, p).
Proof. exact split_bracket. Qed.
Theorem C18_split_uses_rfind : split_uses_rfind = true.
Proof. reflexivity. Qed.

(* non-vacuity *)
Example C18_ex :
  is_valid_hostname [97; 45; 98; 46; 99; 95; 49; 46]%N = true /\ is_valid_hostname [97; 46; 49; 50]%N = false /\
  is_valid_hostname [97; 10]%N = false /\ is_valid_hostname [8490]%N = false /\
  validate_protocol [116; 44; 112]%N = None /\ validate_protocol [84; 99; 43; 46]%N = Some [116; 99; 43; 46]%N /\
  split_address [91; 102; 101; 56; 48; 58; 58; 49; 37; 93; 93; 58; 56; 48]%N = ([102; 101; 56; 48; 58; 58; 49; 37; 93], [56; 48])%N.
Proof. vm_compute. repeat split. Qed.

Print Assumptions C18_label_regex_exact.
Print Assumptions C18_numeric_regex_exact.
Print Assumptions C18_protocol_regex_exact.
Print Assumptions C18_hostname_exact.
Print Assumptions C18_protocol_exact.
Print Assumptions C18_port_range.
Print Assumptions C18_port_int_exact.
Print Assumptions C18_port_text_roundtrip.
Print Assumptions C18_split_plain.
Print Assumptions C18_split_bracket.
Print Assumptions C18_split_uses_rfind.
