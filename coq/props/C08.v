(* C08 - Losing or closing a connection releases every waiter and leaves no task behind.
   Model: model/Lifecycle.v - the life cycle of a session as an LTS over the events of the real
   run: link lost, message loop ended (its finally runs the connection-lost hook, which cancels
   the pending requests), the body of process_messages raising (the TaskGroup cancels the message
   loop and every handler), handlers finishing, the group block left (_closed_event set), close()
   calls (from the application, concurrently, repeatedly, inside a handler) returning, and the
   force_after deadline.  It is coarser than a loop handle: the TaskGroup and the timeout block
   inside close() appear through what props/C09.v and props/C11.v prove of them.
   Proved, for every sequence of events the LTS allows: the safety statements, and - the part
   that matters - PROGRESS: once the link is lost, as long as anything is left (a caller waiting,
   a handler or the loop running, _closed_event unset, a close() not returned) an internal step
   is enabled (assuming only that a handler whose cancellation was requested finishes), every
   internal step decreases a measure, hence every maximal internal run is finite and ends with
   nothing left.  Partial: that the real objects follow the LTS is checked by the projected
   trace acceptance after every loop handle (harness/props/c08.py), with faults injected at every
   point of scripted conversations; real transports' close semantics and SSL are not modelled. *)
From AV Require Import Base Lifecycle LifecycleProofs.

(* the hook runs at most once, and exactly when the message loop has ended *)
Theorem C08_hook_exactly_once : forall ls s, lrun linit ls = Some s ->
  hook s <= 1 /\ (hook s = 1 <-> lp s = TDone).
Proof. exact hook_once. Qed.

(* once the loop has ended no caller registered before is left waiting *)
Theorem C08_waiters_released : forall ls s, lrun linit ls = Some s -> lp s = TDone ->
  forall w, lookup w (waiters s) <> Some WPend.
Proof. exact waiters_released. Qed.

(* _closed_event set: the loop has ended, the hook ran, every handler task has finished *)
Theorem C08_closed_means_no_task_left : forall ls s, lrun linit ls = Some s -> closed s = true ->
  lp s = TDone /\ hook s = 1 /\ forall h st r, lookup h (handlers s) = Some (st, r) -> st = TDone.
Proof. exact closed_means_no_task_left. Qed.

(* an application's close() returns only once everything is closed *)
Theorem C08_close_returns_after_closed : forall ls s, lrun linit ls = Some s ->
  forall c, lookup c (closers s) = Some (CReturned, None) -> closed s = true.
Proof. exact close_returns_after_closed. Qed.

(* while a graceful close has not finished, the force_after deadline forces an abort *)
Theorem C08_close_forces_abort : forall s c ow, lookup c (closers s) = Some (CWaiting, ow) -> closed s = false ->
  exists s', lstep s (LForce c) = Some s' /\ aborted s' = true /\ lookup c (closers s') = Some (CForcing, ow).
Proof. exact close_forces. Qed.

(* progress: link lost and something left => an internal step is enabled *)
Theorem C08_progress : forall ls s, lrun linit ls = Some s -> link s = Lost -> clean s = false ->
  exists l, internal s l = true /\ lstep s l <> None.
Proof. intros ls s H. apply progress. exact (reachable_inv _ _ H). Qed.

(* quiescent and lost => nothing is left *)
Theorem C08_quiescent_clean : forall ls s, lrun linit ls = Some s -> link s = Lost ->
  (forall l, internal s l = true -> lstep s l = None) -> clean s = true.
Proof. intros ls s H. apply quiescent_clean. exact (reachable_inv _ _ H). Qed.

(* every run of internal steps is bounded by the measure ... *)
Theorem C08_internal_runs_bounded : forall ls s s', internal_run s ls = Some s' -> length ls + lmeasure s' <= lmeasure s.
Proof. exact internal_runs_bounded. Qed.

(* ... and can be continued to a state where nothing is left *)
Theorem C08_lost_leads_to_clean : forall ls s, lrun linit ls = Some s -> link s = Lost ->
  exists ls' s', internal_run s ls' = Some s' /\ clean s' = true.
Proof. intros ls s H. apply lost_leads_to_clean. exact (reachable_inv _ _ H). Qed.

(* non-vacuity: two handlers, a waiting caller, a close() from the application and one from inside
   a handler; the link is lost; everything is released *)
Example C08_ex :
  let ls := [LArrive 1; LArrive 2; LWaiter 1; LCloseCall 1 None; LCloseCall 2 (Some 2); LLost; LLoopEnd; LGroupCancel;
             LHandlerDone 1 false; LCloseReturn 2; LHandlerDone 2 false; LGroupExit; LCloseReturn 1]%N in
  option_map clean (lrun linit ls) = Some true /\
  option_map clean (lrun linit (firstn 9 ls)) = Some false.
Proof. vm_compute. split; reflexivity. Qed.

Print Assumptions C08_hook_exactly_once.
Print Assumptions C08_waiters_released.
Print Assumptions C08_closed_means_no_task_left.
Print Assumptions C08_close_returns_after_closed.
Print Assumptions C08_close_forces_abort.
Print Assumptions C08_progress.
Print Assumptions C08_quiescent_clean.
Print Assumptions C08_internal_runs_bounded.
Print Assumptions C08_lost_leads_to_clean.
