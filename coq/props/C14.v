(* C14 - Session cost accounting throttles and finally disconnects an expensive peer.
   Model: model/Cost.v (session.py:98-230, 440-447) over exact rationals; every constant is
   re-read from the running code (gen/Gen_session.v).  Theorems hold for ALL configurations
   (the only hypotheses are the sign conditions stated) and all label sequences. *)
From Coq Require Import QArith Qround.
From AV Require Import Base Gen_session Cost CostProofs.
Local Open Scope Q_scope.

Definition default_config : config :=
  {| bw := sb_bw_cost_per_byte; soft := sb_cost_soft_limit; hard := sb_cost_hard_limit;
     decay := sb_cost_decay_per_sec; cost_sleep := sb_cost_sleep; error_base := sb_error_base_cost;
     initial := sb_initial_concurrent |}.

(* the extracted configuration satisfies the sign conditions used below *)
Theorem C14_default_config_sane :
  soft default_config < hard default_config /\ (0 < initial default_config)%Z /\
  0 <= cost_sleep default_config /\ 0 < bw default_config /\ 0 < decay default_config /\
  0 <= error_base default_config /\ recalc_threshold == 100.
Proof. vm_compute. repeat split; discriminate || reflexivity. Qed.

Theorem C14_cost_nonneg : forall c t0 ls, 0 <= cost (crun c t0 ls).
Proof. exact cost_nonneg. Qed.

(* every charge: cost moves by exactly the stated amount (clamped at 0); the re-evaluation
   is lazy - it happens exactly when the cost drifted by more than the threshold - and then
   the cost decays by elapsed time x decay rate *)
Theorem C14_charges_and_lazy_recalc : forall c e d s,
  let charged := qmax 0 (cost s + d) in
  (qabs (charged - cost_last s) <= recalc_threshold ->
     cost (bump c e d s) == charged /\ cost_last (bump c e d s) = cost_last s /\
     ctarget (bump c e d s) = ctarget s /\ fraction (bump c e d s) = fraction s) /\
  (recalc_threshold < qabs (charged - cost_last s) ->
     cost (bump c e d s) == qmax 0 (charged - (now s - cost_time s) * decay c) /\
     cost_last (bump c e d s) = cost (bump c e d s)).
Proof. exact bump_charges. Qed.

Theorem C14_decay : forall c e s,
  cost (recalc c e s) == qmax 0 (cost s - (now s - cost_time s) * decay c) /\
  cost_last (recalc c e s) = cost (recalc c e s) /\ cost_time (recalc c e s) = now s.
Proof. exact recalc_decays. Qed.

(* the permitted concurrency is a non-increasing function of the evaluated cost, equals the
   initial value at or below the soft limit and zero at or above the hard limit *)
Theorem C14_target_monotone : forall c x y, soft c < hard c -> (0 <= initial c)%Z -> x <= y ->
  (target_of c y <= target_of c x)%Z.
Proof. exact target_monotone. Qed.
Theorem C14_target_below_soft : forall c x, soft c < hard c -> (0 <= initial c)%Z -> x <= soft c ->
  target_of c x = initial c /\ fraction_of c x == 0.
Proof. exact target_below_soft. Qed.
Theorem C14_target_above_hard : forall c x, soft c < hard c -> (0 <= initial c)%Z -> hard c <= x ->
  target_of c x = 0%Z /\ 1 <= fraction_of c x.
Proof. exact target_above_hard. Qed.

(* an admitted request is delayed fraction x cost_sleep, at most cost_sleep *)
Theorem C14_sleep_proportional_bounded : forall c t0 ls d,
  (0 < initial c)%Z -> 0 <= cost_sleep c ->
  admission c (crun c t0 ls) = Some d ->
  d == fraction (crun c t0 ls) * cost_sleep c /\ 0 <= d /\ d <= cost_sleep c.
Proof. exact sleep_proportional_bounded. Qed.

(* once a re-evaluation saw the hard limit reached, admission is refused (-101, hook, close);
   at or below the soft limit nothing is delayed or refused *)
Theorem C14_refused_after_hard : forall c e s, soft c < hard c -> (0 <= initial c)%Z ->
  hard c <= cost (recalc c e s) + e -> admission c (recalc c e s) = None.
Proof. exact refused_after_hard. Qed.
Theorem C14_unthrottled_below_soft : forall c e s, soft c < hard c -> (0 < initial c)%Z ->
  cost (recalc c e s) + e <= soft c ->
  (exists d, admission c (recalc c e s) = Some d /\ d == 0) /\ ctarget (recalc c e s) = initial c.
Proof. exact unthrottled_below_soft. Qed.

(* a client session (hard <= soft; the library sets hard = 0) is never throttled or refused *)
Theorem C14_client_never_throttled : forall c t0 ls, hard c <= soft c -> (0 < initial c)%Z ->
  let s := crun c t0 ls in
  fraction s == 0 /\ ctarget s = initial c /\ exists d, admission c s = Some d /\ d == 0.
Proof. exact client_never_throttled. Qed.

(* non-vacuity: an expensive history with the default configuration ends refused *)
Example C14_ex :
  let s := crun default_config 0 [(Error 0, 0); (Bump 12000, 0); (Advance 10, 0); (Recv 100000, 0)] in
  admission default_config s = None /\ (errors s = 1)%Z /\ hard default_config <= cost s.
Proof. vm_compute. repeat split; discriminate. Qed.

(* the arithmetic itself is regenerated from the source on every run: the expressions of data_received,
   _send_message, _bump_errors, bump_cost, recalc_concurrency and the cost sleep of _throttled_request are
   translated term by term (gen/Gen_session.v, the definitions gen_...), every one of them was understood by the translator, and
   evaluated over exact rationals they are the formulas the model is built from - for every configuration,
   state and argument *)
Theorem C14_generated_known :
  forallb aknown [gen_recv_charge; gen_send_charge; gen_error_charge; gen_bump_cost; gen_bump_drift; gen_recalc_decayed;
                  gen_soft_range; gen_eval_cost; gen_fraction; gen_target; gen_sleep] = true.
Proof. exact generated_known. Qed.

Theorem C14_generated_arithmetic : forall c s delta len exc extra x,
  let env := aenv c s delta len exc extra x in
  aeval env gen_recv_charge = len * bw c /\
  aeval env gen_send_charge = len * bw c /\
  aeval env gen_error_charge = error_base c + exc /\
  aeval env gen_bump_cost = qmax 0 (cost s + delta) /\
  aeval env gen_bump_drift = qabs (cost s - cost_last s) /\
  aeval env gen_recalc_decayed = qmax 0 (cost s - (now s - cost_time s) * decay c) /\
  aeval env gen_soft_range = hard c - soft c /\
  aeval env gen_eval_cost = cost s + extra /\
  aeval env gen_fraction = fraction_of c x /\
  aeval env gen_target == inject_Z (Z.max 0 (Qceiling ((1 - fraction s) * inject_Z (initial c)))) /\
  aeval env gen_sleep = fraction s * cost_sleep c.
Proof. exact generated_arithmetic. Qed.

Theorem C14_recalc_uses_generated : forall c extra s,
  cost (recalc c extra s) == aeval (aenv c s 0 0 0 extra 0) gen_recalc_decayed /\
  (Qle_bool (aeval (aenv c s 0 0 0 extra 0) gen_soft_range) 0 = false ->
   let s1 := recalc c extra s in
   fraction s1 == aeval (aenv c s 0 0 0 extra (cost s1 + extra)) gen_fraction /\
   inject_Z (ctarget s1) == aeval (aenv c s1 0 0 0 extra 0) gen_target).
Proof. exact recalc_uses_generated. Qed.

Print Assumptions C14_default_config_sane.
Print Assumptions C14_cost_nonneg.
Print Assumptions C14_charges_and_lazy_recalc.
Print Assumptions C14_decay.
Print Assumptions C14_target_monotone.
Print Assumptions C14_target_below_soft.
Print Assumptions C14_target_above_hard.
Print Assumptions C14_sleep_proportional_bounded.
Print Assumptions C14_refused_after_hard.
Print Assumptions C14_unthrottled_below_soft.
Print Assumptions C14_client_never_throttled.
Print Assumptions C14_generated_known.
Print Assumptions C14_generated_arithmetic.
Print Assumptions C14_recalc_uses_generated.
