(* C10 - TaskGroup join follows its wait policy and reports the first finisher.
   Model: model/TaskGroup.v (see props/C09.v).  The theorems are over ALL label sequences -
   members spawned running (TaskGroup.spawn) and tasks added when they had already finished (constructor,
   add_task), in any number, with any outcomes, daemons or not, in any interleaving with the steps of the
   joining task; only the statement about the ORDER of completion is restricted to members spawned running
   (a task that was finished when added has no completion instant inside the trace: it enters _done at
   the instant of the addition).
   Proved here: the members the application took with next_done() before the join began, the members
   consumed by join, those queued in _done and those whose _on_done
   callback is still in the loop's ready queue are - in this order, without repetition - exactly
   the non-daemon members in the order in which they finished; `completed` is the first consumed
   member that counts (under the object policy: that did not return None); what a finished
   member was is never rewritten and the policy never changes.
   the semaphore of next_done counts the queue of finished members (so next_done returns None only
   when nothing is pending and nothing is queued); join leaves its loop - other than by a
   cancellation - only under the none policy, or after a member that stops it (failed / cancelled;
   policy any; policy object and a member counts), or when nothing is pending and nothing is queued;
   and it never goes on consuming after a member that stops it.
   The application's own next_done() calls are in the model as far as they do not have to wait: label
   LAppNext, enabled before the joining task has run while a finished member is queued; what it takes does
   not count for `completed`.
   NOT proved (tied to the code by the per-handle correspondence and checked on the real runs by
   the harness oracle only): next_done called by the application while it would have to wait, or between
   the iterations of join;
   the result / exception / results / exceptions properties (they read Task objects). *)
From AV Require Import Base Gen_curio TaskGroup TaskGroupProofs TaskGroupOrder TaskGroupPolicy TaskGroupCode TaskGroupCodeProofs.

(* every non-daemon member is yielded exactly once, in completion order *)
Theorem C10_completion_order_exactly_once : forall p m ls, forallb fresh_label ls = true ->
  let g := run p m ls in
  app_consumed g ++ consumed g ++ doneq g ++ ondone_q (queue g) = log_done g /\ NoDup (log_done g) /\
  (forall t, In t (log_done g) <->
             exists mem, get t (members g) = Some mem /\ m_daemon mem = false /\ is_fin mem = true).
Proof. intros p m ls H. destruct (reachable_ord p m ls H) as [O1 O2 O3 _]. auto. Qed.

(* exactly once, whatever the labels: the members consumed by join, queued in _done, and those whose
   _on_done callback is still in the ready queue never repeat and are exactly the finished non-daemon members *)
Theorem C10_exactly_once : forall p m ls,
  let g := run p m ls in
  NoDup (app_consumed g ++ consumed g ++ doneq g ++ ondone_q (queue g)) /\
  (forall t, In t (app_consumed g ++ consumed g ++ doneq g ++ ondone_q (queue g)) <->
             exists mem, get t (members g) = Some mem /\ m_daemon mem = false /\ is_fin mem = true).
Proof. intros p m ls. destruct (reachable_once p m ls) as [O1 O2 _]. split; [exact O1|exact O2]. Qed.

(* completed is the first member consumed by join that counts *)
Theorem C10_completed_is_first : forall p m ls,
  completed (run p m ls) = find (counts (run p m ls)) (consumed (run p m ls)).
Proof. exact reachable_cf. Qed.

(* a finished member's outcome is never rewritten and the policy is fixed: one step *)
Theorem C10_outcomes_stable : forall g l,
  pol (step g l) = pol g /\ (forall t, finished g t = true -> status (step g l) t = status g t).
Proof. intros g l. destruct (step_frame g l) as (H1 & H2 & _). split; [exact H1|exact H2]. Qed.

(* only the joining task consumes and sets completed *)
Theorem C10_only_join_consumes : forall g l, joiner_runs g l = false ->
  completed (step g l) = completed g /\ consumed (step g l) = consumed g.
Proof. intros g l. destruct (step_frame g l) as (_ & _ & H). exact H. Qed.

(* the decisions of the model's loop (does the member just consumed become `completed`? does the loop
   stop?) are those the running join() takes at every decision point that can be reached - the table
   is probed on the real class on every run (a falsy result such as 0 counts, None does not) *)
Theorem C10_probe_join_decisions : decisions_agree = true /\ length join_decisions = 20.
Proof. split; [exact decisions_agree_true|reflexivity]. Qed.

(* the semaphore counts the queue of finished members (next_done's acquire never blocks on a
   non-empty queue and never succeeds on an empty one) *)
Theorem C10_semaphore_counts_done : forall p m ls,
  let g := run p m ls in semv g + b2n (granted g) = length (doneq g).
Proof. intros p m ls. apply (reachable_sem p m ls). Qed.

(* the wait policy, the "waits" side: in the step of the joining task in which the loop is left
   without a cancellation, a reason holds *)
Theorem C10_loop_left_only_by_policy : forall p m ls h order rest,
  let g := run p m ls in
  queue g = HJoiner :: rest -> must_cancel g = false -> wake g <> Some true ->
  (pc g = JNot \/ pc g = JCancelRem \/ pc g = JNextDone) ->
  let g' := step g (LRun h order) in
  pc g' = JNextDone \/ pc g' = JCancelRem \/ Reason g'.
Proof. exact reachable_loop_left_by_policy. Qed.

(* ... and the "stops early" side: no member but the last one consumed stops the loop, and while the
   loop is still going neither does the last one *)
Theorem C10_never_past_a_stop : forall p m ls,
  let g := run p m ls in
  (forall pre t post, consumed g = pre ++ t :: post -> post <> [] -> stop_at g pre t = false) /\
  (pc g = JNextDone -> forall pre t, consumed g = pre ++ [t] -> stop_at g pre t = false) /\
  ((pc g = JNot \/ pc g = JCancelRem) -> consumed g = []).
Proof. intros p m ls. destruct (reachable_post p m ls) as (_ & _ & Hp). exact Hp. Qed.

(* non-vacuity: all policy - a value, then a failure: the loop goes on after the first, stops after the second *)
Example C10_ex_all_stops_on_failure :
  let ls := [LSpawn 1 false None; LSpawn 2 false None; LSpawn 3 false None; LStart; LRun HJoiner [];
             LFinish 1 RetVal; LRun (HCb (OnDone 1)) []; LRun HJoiner []; LFinish 2 Exc; LRun (HCb (OnDone 2)) []]%N in
  let g := run PAll MJoin ls in
  queue g = [HJoiner] /\ pc g = JNextDone /\ consumed g = [1]%N /\ stop_at g [] 1%N = false /\
  let g' := step g (LRun HJoiner [3]%N) in
  pc g' = JCancelAll /\ consumed g' = [1; 2]%N /\ stop_after g' 2%N = true /\ status g' 3%N = Some RunC.
Proof. vm_compute. repeat split. Qed.

(* non-vacuity: object policy - None, then a value: the second member is reported, the third is cancelled *)
Example C10_ex_object :
  let g := run PObject MJoin
    [LSpawn 1 false None; LSpawn 2 false None; LSpawn 3 false None; LStart; LRun HJoiner [];
     LFinish 2 RetNone; LFinish 1 RetVal; LRun (HCb (OnDone 2)) []; LRun (HCb (OnDone 1)) [];
     LRun HJoiner [3]]%N in
  consumed g = [2; 1]%N /\ completed g = Some 1%N /\ status g 3%N = Some RunC /\ pc g = JCancelAll /\
  log_done g = [2; 1]%N.
Proof. vm_compute. repeat split. Qed.

(* non-vacuity: tasks handed over when already finished (one failed) - consumed once each, join stops at the failure *)
Example C10_ex_already_finished :
  let g := run PAll MJoin
    [LSpawn 7 false (Some RetVal); LSpawn 8 true (Some RetVal); LSpawn 1 false None; LSpawn 9 false (Some Exc);
     LStart; LRun HJoiner []; LRun HJoiner [1]]%N in
  consumed g = [7; 9]%N /\ completed g = Some 7%N /\ status g 1%N = Some RunC /\ pc g = JCancelAll.
Proof. vm_compute. repeat split. Qed.

(* non-vacuity: the application takes the first finisher before the join; join reports the next one *)
Example C10_ex_app_next :
  let g := run PAny MJoin
    [LSpawn 1 false None; LSpawn 2 false None; LFinish 2 RetVal; LRun (HCb (OnDone 2)) []; LAppNext; LAppNext;
     LFinish 1 RetVal; LRun (HCb (OnDone 1)) []; LStart; LRun HJoiner []]%N in
  app_consumed g = [2%N] /\ consumed g = [1%N] /\ completed g = Some 1%N /\ log_done g = [2; 1]%N.
Proof. vm_compute. repeat split. Qed.

(* TaskGroup._on_done and TaskGroup._add_task are translated from the Python source on every run, statement by
   statement (gen/Gen_curio.v: on_done_code, add_task_code); nothing was left untranslated, and run on the model's
   state the generated code does exactly what the model's on_done / add_task do - for every group state, every
   task (daemon or not, running / cancel-requested / already finished with any outcome) *)
Theorem C10_code_known : gknown 6 on_done_code && gknown 6 add_task_code = true.
Proof. exact taskgroup_code_known. Qed.

Theorem C10_on_done_from_source : forall g t m, get t (members g) = Some m ->
  grun 12 (view g t) g {| c_t := t; c_daemon := m_daemon m; c_status := m_status m |} on_done_code = GOk (on_done g t).
Proof. exact generated_on_done. Qed.

Theorem C10_add_task_from_source : forall g t d st,
  grun 20 (view g t) g {| c_t := t; c_daemon := d; c_status := st |} add_task_code =
  if snd (add_task g t d st) then GOk (fst (add_task g t d st)) else GRaised.
Proof. exact generated_add_task. Qed.

Print Assumptions C10_completion_order_exactly_once.
Print Assumptions C10_exactly_once.
Print Assumptions C10_completed_is_first.
Print Assumptions C10_probe_join_decisions.
Print Assumptions C10_semaphore_counts_done.
Print Assumptions C10_loop_left_only_by_policy.
Print Assumptions C10_never_past_a_stop.
Print Assumptions C10_outcomes_stable.
Print Assumptions C10_only_join_consumes.
Print Assumptions C10_code_known.
Print Assumptions C10_on_done_from_source.
Print Assumptions C10_add_task_from_source.
