(* C10 - TaskGroup join follows its wait policy and reports the first finisher.
   Model: model/TaskGroup.v (see props/C09.v).  The theorems are over ALL label sequences in
   which members are spawned running (TaskGroup.spawn).
   Proved here: the members consumed by join, those queued in _done and those whose _on_done
   callback is still in the loop's ready queue are - in this order, without repetition - exactly
   the non-daemon members in the order in which they finished; `completed` is the first consumed
   member that counts (under the object policy: that did not return None); what a finished
   member was is never rewritten and the policy never changes.
   NOT proved (tied to the code by the per-handle correspondence and checked on the real runs by
   the harness oracle only): that the loop leaves exactly when the policy says so; next_done
   called by the application between the iterations of join; the result / exception /
   results / exceptions properties (they read Task objects). *)
From AV Require Import Base Gen_curio TaskGroup TaskGroupProofs TaskGroupOrder.

(* every non-daemon member is yielded exactly once, in completion order *)
Theorem C10_completion_order_exactly_once : forall p m ls, forallb fresh_label ls = true ->
  let g := run p m ls in
  consumed g ++ doneq g ++ ondone_q (queue g) = log_done g /\ NoDup (log_done g) /\
  (forall t, In t (log_done g) <->
             exists mem, get t (members g) = Some mem /\ m_daemon mem = false /\ is_fin mem = true).
Proof. intros p m ls H. destruct (reachable_ord p m ls H) as [O1 O2 O3 _]. auto. Qed.

(* completed is the first member consumed by join that counts *)
Theorem C10_completed_is_first : forall p m ls, forallb fresh_label ls = true ->
  completed (run p m ls) = find (counts (run p m ls)) (consumed (run p m ls)).
Proof. exact reachable_cf. Qed.

(* a finished member's outcome is never rewritten and the policy is fixed: one step *)
Theorem C10_outcomes_stable : forall g l,
  pol (step g l) = pol g /\ (forall t, finished g t = true -> status (step g l) t = status g t).
Proof. intros g l. destruct (step_frame g l) as (H1 & H2 & _). split; [exact H1|exact H2]. Qed.

(* only the joining task consumes and sets completed *)
Theorem C10_only_join_consumes : forall g l, joiner_runs g l = false ->
  completed (step g l) = completed g /\ consumed (step g l) = consumed g.
Proof. intros g l. destruct (step_frame g l) as (_ & _ & H). exact H. Qed.

(* non-vacuity: object policy - None, then a value: the second member is reported, the third is cancelled *)
Example C10_ex_object :
  let g := run PObject MJoin
    [LSpawn 1 false None; LSpawn 2 false None; LSpawn 3 false None; LStart; LRun HJoiner [];
     LFinish 2 RetNone; LFinish 1 RetVal; LRun (HCb (OnDone 2)) []; LRun (HCb (OnDone 1)) [];
     LRun HJoiner [3]]%N in
  consumed g = [2; 1]%N /\ completed g = Some 1%N /\ status g 3%N = Some RunC /\ pc g = JCancelAll /\
  log_done g = [2; 1]%N.
Proof. vm_compute. repeat split. Qed.

Print Assumptions C10_completion_order_exactly_once.
Print Assumptions C10_completed_is_first.
Print Assumptions C10_outcomes_stable.
Print Assumptions C10_only_join_consumes.
