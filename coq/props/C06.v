(* C06 - Newline framing is independent of chunking and resynchronises after oversize.
   Nothing but statements: every proof is `exact <lemma>` (proof/NewlineProofs.v).
   Model: model/Newline.v (transcription of framing.py:62-116), default limit from
   gen/Gen_framing.v. *)
From AV Require Import Base Newline NewlineProofs Gen_framing.

(* 1. For EVERY chunking the results are explained, left to right, by the stream:
      a segment is delivered whole at its newline unless a MemoryError was signalled
      while it was being received, and a MemoryError is signalled only while the partial
      segment received so far already exceeds the limit (see [Expl]). *)
Theorem C06_explained : forall max (chunks : list bytes),
  Expl max (outs (run max chunks)) (concat chunks) (sync (run max chunks)).
Proof. exact run_explained. Qed.

(* 2. Whole, in order, never truncated, split or merged: the delivered messages are a
      subsequence of the newline-terminated segments of the concatenated stream. *)
Theorem C06_delivered_are_segments : forall max chunks,
  sublist (msgs_of (outs (run max chunks))) (segments (concat chunks)).
Proof. intros max chunks. exact (Expl_sublist _ _ _ _ (run_explained max chunks)). Qed.

(* 3. Exactly once / dropped only if oversize / dropped entirely and signalled:
      there is a delivery mask over the segments such that the delivered messages are
      exactly the selected segments (so each at most once, in order), a segment is
      deselected only if it exceeds a non-zero limit, and there are at least as many
      MemoryErrors as dropped segments.  In particular the segment after a dropped one
      is delivered normally when it fits. *)
Theorem C06_mask : forall max chunks,
  exists mask, length mask = length (segments (concat chunks)) /\
    msgs_of (outs (run max chunks)) = select mask (segments (concat chunks)) /\
    Forall2 (fun (m : bool) s => m = false -> fits max s = false)
            mask (segments (concat chunks)) /\
    dropped mask <= count_mem (outs (run max chunks)).
Proof.
  intros max chunks.
  destruct (Expl_mask _ _ _ _ (run_explained max chunks)) as (mask & L & E & F & C).
  exists mask. repeat split; auto. lia.
Qed.

(* 4. Independence from the chunking: when no segment of the stream (complete or still
      open) exceeds the limit - always the case for max = 0 - the results are exactly
      the segments, whatever the chunking; hence two chunkings of one stream agree. *)
Theorem C06_small_always_delivered : forall max chunks,
  Forall (fun s => fits max s = true) (segments (concat chunks)) ->
  fits max (tail_of (concat chunks)) = true ->
  outs (run max chunks) = map Msg (segments (concat chunks)).
Proof.
  intros max chunks H1 H2.
  exact (proj1 (Expl_all_fit _ _ _ _ (run_explained max chunks) H1 H2)).
Qed.

Theorem C06_chunking_independent : forall max cs cs',
  concat cs = concat cs' ->
  Forall (fun s => fits max s = true) (segments (concat cs)) ->
  fits max (tail_of (concat cs)) = true ->
  outs (run max cs) = outs (run max cs').
Proof.
  intros max cs cs' E H1 H2.
  rewrite (C06_small_always_delivered max cs H1 H2).
  rewrite E in H1, H2. now rewrite (C06_small_always_delivered max cs' H1 H2), E.
Qed.

Theorem C06_unlimited : forall chunks,
  outs (run 0 chunks) = map Msg (segments (concat chunks)).
Proof.
  intros chunks. apply C06_small_always_delivered; [|unfold fits; apply orb_true_r].
  apply Forall_forall. intros s _. unfold fits. apply orb_true_r.
Qed.

(* 5. Framing a message and feeding the bytes back, in any chunking, returns it. *)
Theorem C06_frame_roundtrip : forall max m chunks,
  no_nl m -> fits max m = true -> concat chunks = frame m ->
  outs (run max chunks) = [Msg m].
Proof.
  intros max m chunks Hm Hf E. destruct (segments_frame m Hm) as [Hs Ht].
  rewrite C06_small_always_delivered; rewrite E, ?Hs, ?Ht; auto.
Qed.

(* 6. A delivered message never exceeds the limit by more than its final chunk: every
      message delivered while chunk c is processed is shorter than max + length c. *)
Theorem C06_overshoot_bound : forall max chunks c,
  max <> 0 ->
  let before := run max chunks in
  Forall (fun m => length m < max + length c)
         (skipn (length (msgs_of (outs before)))
                (msgs_of (outs (feed max before c)))).
Proof. exact feed_overshoot. Qed.

(* non-vacuity: concrete chunkings meeting the hypotheses, and an oversize drop *)
Example C06_ex1 :
  outs (run 3 [[97; 98]; [10; 99; 10; 100]; []; [10]])%N = [Msg [97; 98]; Msg [99]; Msg [100]]%N.
Proof. vm_compute. reflexivity. Qed.
Example C06_ex2 : (* oversize segment dropped, the next one delivered *)
  outs (run 2 [[97; 97; 97]; [97; 10; 98; 10]])%N = [MemErr; Msg [98]]%N.
Proof. vm_compute. reflexivity. Qed.
Example C06_ex3 : newline_default_max_size_Z = 1000000%Z.
Proof. vm_compute. reflexivity. Qed.

Print Assumptions C06_explained.
Print Assumptions C06_delivered_are_segments.
Print Assumptions C06_mask.
Print Assumptions C06_small_always_delivered.
Print Assumptions C06_chunking_independent.
Print Assumptions C06_unlimited.
Print Assumptions C06_frame_roundtrip.
Print Assumptions C06_overshoot_bound.
