(* C09 - No task outlives its TaskGroup's join.
   Model: model/TaskGroup.v - an LTS of aiorpcx.curio.TaskGroup with one joining task (join(),
   `async with`, or `async with` whose body raised) over abstract members that finish when the
   environment lets them (so a cancelled member may be arbitrarily slow, end with any outcome,
   and spawn further members at any time, also while being cancelled), every wait policy, and
   the joining task cancelled at any instant.  The theorems are over ALL label sequences.
   Two facts of the model are probed on the running class on every run (gen/Gen_curio.v).
   Refuted part (known finding F12): when the joining task is cancelled WHILE the finally
   clause of join() - or cancel_remaining() in __aexit__ - waits for cancelled members, it
   ends at once with members still running; C09_refuted_* give the witnesses, which the
   harness replays on the real class. *)
From AV Require Import Base Gen_curio TaskGroup TaskGroupProofs TaskGroupCode TaskGroupCodeProofs.

Theorem C09_probe_recancels : join_recancels_late_members = true.
Proof. reflexivity. Qed.
Theorem C09_probe_refused : add_refused_after_join = true.
Proof. reflexivity. Qed.

(* when join / the context-manager exit has finished (set joined) - returning, or re-raising
   the CancelledError that interrupted its wait for the next member - every task ever placed in
   the group, daemonic or not, has finished *)
Theorem C09_join_complete : forall p m ls c e,
  pc (run p m ls) = JEnded c e true -> joined (run p m ls) = true /\ AllFin (run p m ls).
Proof. exact join_complete. Qed.

(* a joining task that ends in any way other than a CancelledError has completed the join:
   normal return, a member failed, the body raised *)
Theorem C09_not_cancelled_complete : forall p m ls e j,
  pc (run p m ls) = JEnded false e j ->
  j = true /\ e = true /\ joined (run p m ls) = true /\ AllFin (run p m ls).
Proof. exact join_not_cancelled_complete. Qed.

(* whenever joined is set, every member has finished and an addition is refused ... *)
Theorem C09_joined_closed : forall p m ls, joined (run p m ls) = true ->
  AllFin (run p m ls) /\ forall t d st, add_task (run p m ls) t d st = (run p m ls, false).
Proof. exact joined_closed. Qed.

(* ... and this stays so whatever happens afterwards: the set of members never changes again *)
Theorem C09_no_add_after_join : forall p m ls ls', joined (run p m ls) = true ->
  joined (run p m (ls ++ ls')) = true /\ keys (run p m (ls ++ ls')) = keys (run p m ls).
Proof. exact no_add_after_join. Qed.

(* the invariant behind them, for every reachable state: every unfinished member is tracked in
   _pending or daemons, so the finally clause of join() cannot miss one *)
Theorem C09_unfinished_are_tracked : forall p m ls t mem,
  get t (members (run p m ls)) = Some mem -> is_fin mem = false ->
  In t (pending (run p m ls)) \/ In t (daemons (run p m ls)).
Proof. intros p m ls. exact (proj1 (proj1 (reachable_good p m ls))). Qed.

(* REFUTED (F12): the joining task cancelled while join()'s finally waits for a slow member *)
Definition f12_join : list label :=
  [LSpawn 1 false None; LSpawn 2 false None; LStart; LRun HJoiner []; LFinish 2 Exc;
   LRun (HCb (OnDone 2)) []; LRun HJoiner [1]; LCancelJoiner; LRun HJoiner []]%N.
Theorem C09_refuted_cancel_during_finally :
  pc (run PAll MJoin f12_join) = JEnded true true false /\ ~ AllFin (run PAll MJoin f12_join).
Proof.
  split; [vm_compute; reflexivity|]. intros H.
  specialize (H 1%N {| m_daemon := false; m_status := RunC; m_cbs := [OnDone 1; Pop 1]%N |} eq_refl). discriminate.
Qed.
(* ... and while cancel_remaining() in __aexit__ does *)
Definition f12_aexit : list label :=
  [LSpawn 1 false None; LStart; LRun HJoiner [1]; LCancelJoiner; LRun HJoiner []]%N.
Theorem C09_refuted_cancel_during_cancel_remaining :
  pc (run PAll MAexitExc f12_aexit) = JEnded true false false /\ ~ AllFin (run PAll MAexitExc f12_aexit).
Proof.
  split; [vm_compute; reflexivity|]. intros H.
  specialize (H 1%N {| m_daemon := false; m_status := RunC; m_cbs := [OnDone 1; Pop 1]%N |} eq_refl). discriminate.
Qed.

(* non-vacuity: a join that completes over a member and a daemon; one that waits for a member
   spawned while the others were being cancelled (the F11 scenario) *)
Example C09_ex_complete :
  let g := run PAll MAexit [LSpawn 1 false None; LSpawn 2 true None; LStart; LRun HJoiner []; LFinish 1 RetVal;
                            LRun (HCb (OnDone 1)) []; LRun HJoiner [2]; LFinish 2 Canc; LRun (HCb (Pop 2)) [];
                            LRun HJoiner []]%N in
  pc g = JEnded false true true /\ keys g = [1; 2]%N /\ joined g = true.
Proof. vm_compute. repeat split. Qed.
Example C09_ex_late_member :
  let ls := [LSpawn 1 false None; LSpawn 2 false None; LStart; LRun HJoiner []; LFinish 2 Exc;
             LRun (HCb (OnDone 2)) []; LRun HJoiner [1]; LSpawn 7 false None; LFinish 1 Canc;
             LRun (HCb (OnDone 1)) []; LRun (HCb (Pop 1)) []; LRun HJoiner [7]]%N in
  pc (run PAll MJoin ls) = JCancelAll /\ status (run PAll MJoin ls) 7%N = Some RunC /\
  pc (run PAll MJoin (ls ++ [LFinish 7 Canc; LRun (HCb (OnDone 7)) []; LRun (HCb (Pop 7)) []; LRun HJoiner []]%N))
    = JEnded false true true.
Proof. vm_compute. repeat split. Qed.

(* TaskGroup._on_done and TaskGroup._add_task are translated from the Python source on every run, statement by
   statement (gen/Gen_curio.v: on_done_code, add_task_code); nothing was left untranslated, and run on the model's
   state the generated code does exactly what the model's on_done / add_task do - for every group state, every
   task (daemon or not, running / cancel-requested / already finished with any outcome) *)
Theorem C09_code_known : gknown 6 on_done_code && gknown 6 add_task_code = true.
Proof. exact taskgroup_code_known. Qed.

Theorem C09_on_done_from_source : forall g t m, get t (members g) = Some m ->
  grun 12 (view g t) g {| c_t := t; c_daemon := m_daemon m; c_status := m_status m |} on_done_code = GOk (on_done g t).
Proof. exact generated_on_done. Qed.

Theorem C09_add_task_from_source : forall g t d st,
  grun 20 (view g t) g {| c_t := t; c_daemon := d; c_status := st |} add_task_code =
  if snd (add_task g t d st) then GOk (fst (add_task g t d st)) else GRaised.
Proof. exact generated_add_task. Qed.

Print Assumptions C09_probe_recancels.
Print Assumptions C09_probe_refused.
Print Assumptions C09_join_complete.
Print Assumptions C09_not_cancelled_complete.
Print Assumptions C09_joined_closed.
Print Assumptions C09_no_add_after_join.
Print Assumptions C09_unfinished_are_tracked.
Print Assumptions C09_refuted_cancel_during_finally.
Print Assumptions C09_refuted_cancel_during_cancel_remaining.
Print Assumptions C09_code_known.
Print Assumptions C09_on_done_from_source.
Print Assumptions C09_add_task_from_source.
