From AV Require Import Base TaskGroup.
Theorem C09_placeholder : True. Proof. exact I. Qed.
