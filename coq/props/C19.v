(* C19 - Argument checking admits exactly the calls Python can bind.
   Model: model/Invoke.v (util.py:272-301, jsonrpc.py:751-797).  [py_bind] is the binding
   rule of the language reference for positional-only / named-only calls; it is itself
   validated against real Python calls by the correspondence (every case carries the
   outcome of the actual call). *)
From AV Require Import Base Invoke InvokeProofs Gen_jsonrpc InvokeCode InvokeCodeProofs.

(* soundness: whatever is accepted, Python can bind - for every signature and every call.
   (On the original tree this failed for a handler with a required keyword-only parameter: F13,
   repaired by a fix: commit; the counter-example is now refused.) *)
Theorem C19_sound : forall s c,
  handler_invocation (Some s) c = None -> py_bind s c = true.
Proof.
  intros s c H. unfold handler_invocation in H.
  destruct (accept (signature_info s) c) eqn:E; [|discriminate].
  destruct c; [now apply sound_pos | now apply sound_names].
Qed.

Definition f13_sig : sig := [ {| pk := PK; has_default := false; pname := 1 |};
                             {| pk := KO; has_default := false; pname := 2 |} ].
Theorem C19_f13_refused :
  handler_invocation (Some f13_sig) (ByPos 1) = Some (-32602)%Z /\
  handler_invocation (Some f13_sig) (ByName [1]%N) = Some (-32602)%Z /\
  handler_invocation (Some f13_sig) (ByName [1; 2]%N) = None.
Proof. repeat split. Qed.

(* exactness: every call Python can bind is accepted, except that named arguments are
   always refused for handlers with positional-only parameters *)
Theorem C19_exact : forall s c,
  py_bind s c = true ->
  handler_invocation (Some s) c = None \/
  (exists g, c = ByName g /\ has PO s = true).
Proof.
  intros s c H. unfold handler_invocation. destruct c as [n|g].
  - left. now rewrite (exact_pos s n H).
  - destruct (has PO s) eqn:E; [right; eauto|]. left. now rewrite (exact_names s g H E).
Qed.

(* refusals are -32602, a missing handler is -32601, nothing else *)
Theorem C19_codes : forall h c,
  match handler_invocation h c with
  | None => exists s, h = Some s /\ accept (signature_info s) c = true
  | Some code => (h = None /\ code = (-32601)%Z) \/
                 (exists s, h = Some s /\ accept (signature_info s) c = false /\ code = (-32602)%Z)
  end.
Proof. exact codes. Qed.

(* non-vacuity: def f(a, b=0, *, c=1) with f(1) and f(a=1, c=2) *)
Example C19_ex :
  let s := [ {| pk := PK; has_default := false; pname := 1 |};
             {| pk := PK; has_default := true; pname := 2 |};
             {| pk := KO; has_default := true; pname := 3 |} ] in
  handler_invocation (Some s) (ByPos 1) = None /\
  handler_invocation (Some s) (ByName [1; 3]%N) = None /\
  handler_invocation (Some s) (ByName [3]%N) = Some (-32602)%Z.
Proof. repeat split. Qed.

(* jsonrpc.handler_invocation is translated from the Python source on every run into a list of decisions
   (gen/Gen_jsonrpc.v: invocation_code: the order of the checks, what each raises, where an invocation is returned);
   nothing was left untranslated, and for EVERY handler signature (or no handler) and every call - positional with any
   number of arguments, or named with any set of names - running the generated decisions gives what the model's
   handler_invocation gives *)
Theorem C19_invocation_code_known : hknown 6 invocation_code = true.
Proof. exact invocation_code_known. Qed.

Theorem C19_invocation_from_source : forall handler c,
  invocation_generated handler c = HDone (handler_invocation handler c).
Proof. exact generated_invocation_is_model. Qed.

Print Assumptions C19_sound.
Print Assumptions C19_f13_refused.
Print Assumptions C19_exact.
Print Assumptions C19_codes.
Print Assumptions C19_invocation_code_known.
Print Assumptions C19_invocation_from_source.
