(* C20 - Outgoing requests always get an outcome and respect the adaptive in-flight cap.
   Models: model/Recalc.v (session.py:405-421, exact rationals), model/Limiter.v (the outgoing
   Concurrency), model/Timeout.v (the response wait under timeout_after).  Partial: that the
   awaited future is resolved/cancelled by the connection (C01/C08) and that asyncio timers
   fire is outside these models. *)
From Coq Require Import QArith Qround.
From AV Require Import Base Gen_session Cost Recalc RecalcProofs Limiter LimiterProofs Timeout TimeoutProofs Throttle ThrottleProofs.

(* the adaptive limit starts at 50; each recalibration - whatever the measured response times
   and the configured target response time - yields a limit in 1..250 that rose by at most
   ceil(max(3, 10%)) and fell by at most ceil(max(1, 20%)) *)
Theorem C20_initial : rs_initial_outgoing = 50%Z /\ (rc_cap == 250)%Q /\ (rc_floor == 1)%Q.
Proof. repeat split. Qed.

Theorem C20_recalc_range_and_step : forall c trt avg, (1 <= c <= 250)%Z ->
  let n := new_limit c trt avg in
  (1 <= n <= 250)%Z /\
  (n - c <= Qceiling (qmax 3 (inject_Z c * (1 # 10))))%Z /\
  (c - n <= Qceiling (qmax 1 (inject_Z c * (2 # 10))))%Z.
Proof. exact recalc_step. Qed.

(* the arithmetic of _recalc_concurrency is translated from the Python source on every run (cap, floor, the two
   branches of `if avg != 0`, the rounding - gen/Gen_session.v, the definitions gen_rc_...): every expression was
   understood, and evaluated over exact rationals (decimal literals as written) they are the model's formulas *)
Theorem C20_generated_known :
  forallb aknown [gen_rc_cap; gen_rc_floor; gen_rc_target_nonzero; gen_rc_target_zero; gen_rc_round] = true.
Proof. exact rc_generated_known. Qed.

Theorem C20_new_limit_uses_generated : forall current trt avg,
  let cap := aeval (renv current trt avg 0 0 0) gen_rc_cap in
  let floor := aeval (renv current trt avg 0 0 0) gen_rc_floor in
  let target := if Qeq_bool avg 0 then aeval (renv current trt avg cap floor 0) gen_rc_target_zero
                else aeval (renv current trt avg cap floor 0) gen_rc_target_nonzero in
  inject_Z (new_limit current trt avg) = aeval (renv current trt avg cap floor (clamp current trt avg)) gen_rc_round /\
  (target == clamp current trt avg)%Q.
Proof. exact new_limit_uses_generated. Qed.

Theorem C20_limit_always_in_range : forall h,
  Forall (fun l => (1 <= l <= 250)%Z) (limits rs_initial_outgoing h).
Proof. intros h. apply limits_in_range. unfold rs_initial_outgoing. lia. Qed.

(* requests awaiting a response = holders of the outgoing limiter: never more than the largest
   limit that has been in force (C13's bound, every interleaving), and a lowered limit takes
   effect one retired permit per completed request (C13's lowering) *)
Theorem C20_awaiting_le_max_limit : forall t ls, (1 <= t)%Z -> Forall ok_label ls ->
  (Z.of_nat (length (holders (run t ls))) <= maxt (run t ls))%Z.
Proof.
  intros t ls Ht Hl. pose proof (run_inv t ls Ht Hl) as H.
  pose proof (inv_holders_le_semv _ H). destruct H as [(_ & _ & Hs & _) _]. lia.
Qed.

Theorem C20_lowered_limit_takes_effect : forall t ls, (1 <= t)%Z -> Forall ok_label ls ->
  let st := run t ls in
  (Z.of_nat (length (holders st)) <= target st + excess st)%Z /\
  (forall w, memN w (holders st) = true -> (0 < excess st)%Z -> excess (step st (Exit w)) = (excess st - 1)%Z).
Proof.
  intros t ls Ht Hl st. pose proof (run_inv t ls Ht Hl) as H. fold st in H. split.
  - now apply holders_le_target_plus_excess.
  - intros w. apply excess_exit.
Qed.

(* ... and that identification is itself a theorem about the shape of RPCSession._send_concurrent, which is
   regenerated from the source on every run (send_concurrent_ops: THandle = `await future`): the wait for the
   response happens only inside the outgoing limiter's block, which is entered first, once, and left again.
   Hence, for every sequence of calls, resumptions, wake-ups, cancellations and limit changes, the requests
   awaiting their response all hold a permit - never more of them than the largest limit that has been in
   force, nor than the current limit plus the excess a lowering left - and no permit stays with a call that
   has ended (model/Throttle.v, theorems of props/C13.v instantiated) *)
Theorem C20_send_shape :
  bracketed send_concurrent_ops = true /\ acquire_first_once send_concurrent_ops = true /\
  existsb is_handle send_concurrent_ops = true.
Proof. vm_compute. repeat split. Qed.

Theorem C20_awaiting_hold_permits : forall t ls, (1 <= t)%Z -> Forall tok_label ls ->
  let st := trun send_concurrent_ops t ls in
  incl (running st) (holders (lim st)) /\
  (Z.of_nat (length (running st)) <= maxt (lim st))%Z /\
  (Z.of_nat (length (running st)) <= target (lim st) + excess (lim st))%Z /\
  (forall w, In w (holders (lim st)) -> In w (map fst (reqs st))) /\
  arrived st = asked st ++ ready st.
Proof.
  intros t ls Ht Hl st. assert (Hb : bracketed send_concurrent_ops = true) by apply C20_send_shape.
  pose proof (trun_inv _ t ls Hb Ht Hl) as H. fold st in H.
  pose proof (running_le_holders st H) as Hlen. pose proof (i_lim _ _ H) as Hi.
  pose proof (inv_holders_le_semv _ Hi). pose proof (holders_le_target_plus_excess _ Hi).
  destruct Hi as [(_ & _ & Hs & _) _].
  split; [now apply running_hold|]. split; [lia|]. split; [lia|]. split; [now apply holders_live|].
  apply trun_arrival_order. apply C20_send_shape.
Qed.

(* the wait for the response runs under timeout_after(T): whatever the peer does (answers after
   d ticks, d arbitrarily large = never) and whenever the waiter is cancelled (connection
   lost), the caller is released no later than T ticks after the request was written, with
   the response, TaskTimeout or the cancellation - never an indefinite wait *)
Theorem C20_outcome_by_deadline : forall T d e, (0 <= T)%Z -> (0 <= d)%Z ->
  let '(r, s) := eval (Block KTimeout false T (Await d)) (init e) in
  (now s <= Z.max T 0)%Z /\ (now s <= d \/ r <> Ok)%Z /\
  (r = Ok \/ r = Exc ETaskTimeout \/ r = Exc ECancelled) /\ armed s = None.
Proof. exact wait_bounded. Qed.

Example C20_ex :
  limits 50 [(3, 1 # 100); (3, 1 # 100); (3, 100 # 1)]%Q = [50; 55; 61; 49]%Z.
Proof. vm_compute. reflexivity. Qed.

Print Assumptions C20_initial.
Print Assumptions C20_generated_known.
Print Assumptions C20_new_limit_uses_generated.
Print Assumptions C20_send_shape.
Print Assumptions C20_awaiting_hold_permits.
Print Assumptions C20_recalc_range_and_step.
Print Assumptions C20_limit_always_in_range.
Print Assumptions C20_awaiting_le_max_limit.
Print Assumptions C20_lowered_limit_takes_effect.
Print Assumptions C20_outcome_by_deadline.
