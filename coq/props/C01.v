From AV Require Import Base Utf8 Json Codec Conn.
Theorem C01_placeholder : True. Proof. exact I. Qed.
