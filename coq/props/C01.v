(* C01 - A response completes exactly the request that caused it.
   Model: model/Conn.v (jsonrpc.py:578-749).  Histories = arbitrary lists of send_request,
   send_batch, receive_message(bytes), cancel_pending_requests on any protocol class. *)
From Coq Require Import Permutation Sorted.
From AV Require Import Base Utf8 Json Gen_jsonrpc Codec Conn ConnProofs ConnCode ConnCodeProofs.

(* ids outstanding at the same time are pairwise distinct (and below the counter), in every
   reachable state *)
Theorem C01_fresh_ids : forall p ops, Fresh (fold_left apply_op ops (new_conn p)).
Proof. exact fresh_ids. Qed.

(* a response resolves exactly the entry its id names - Python identifies 1, 1.0 and True -
   removes it and leaves every other entry alone; any other id (unknown, replayed, string, null,
   unhashable) is a ProtocolError and the table is untouched *)
Theorem C01_recv_exact : forall c v rid,
  match classify_id rid with
  | INum z =>
      if (0 <=? z)%Z && has_key (KOne (Z.to_N z)) c
      then receive_response c v rid =
             (RCompleted (KOne (Z.to_N z)) [v],
              set_reqs c (remove_key (KOne (Z.to_N z)) (reqs c)) (next_id c) (cproto c))
      else receive_response c v rid = (RProtoErr INVALID_REQUEST None, c)
  | _ => receive_response c v rid = (RProtoErr INVALID_REQUEST None, c)
  end.
Proof. exact recv_exact. Qed.

Theorem C01_others_untouched : forall k k' l, In k' (remove_key k l) <-> In k' l /\ k' <> k.
Proof. exact remove_key_In. Qed.

(* whatever arrives, the table changes by at most the removal of the one completed key *)
Theorem C01_receive_effect : forall c msg,
  let '(o, c') := receive_message c msg in
  next_id c' = next_id c /\
  ((reqs c' = reqs c /\ forall k vs, o <> RCompleted k vs) \/
   (exists k vs, has_key k c = true /\ o = RCompleted k vs /\ reqs c' = remove_key k (reqs c))).
Proof. exact receive_effect. Qed.

(* along any history no awaitable is completed twice *)
Theorem C01_resolved_once : forall p ops, NoDup (completions (new_conn p) ops).
Proof. exact resolved_once. Qed.

(* a batch yields one outcome per request member in the order the members were added, for
   EVERY permutation of the response members *)
Theorem C01_batch_order : forall rs rs',
  int_ids rs -> NoDup (map idz rs) -> Permutation rs rs' ->
  StronglySorted (fun a b => (idz a < idz b)%Z) rs ->
  exists l, sort_pairs rs' = Some l /\ map snd l = rs.
Proof. exact batch_order. Qed.

(* connection loss: every outstanding awaitable is released and the table emptied *)
Theorem C01_cancel_all : forall c, fst (cancel_all c) = reqs c /\ reqs (snd (cancel_all c)) = [].
Proof. exact cancel_all_releases. Qed.

Example C01_ex :
  let c0 := new_conn (Some V2) in
  let c1 := snd (send_request c0 [109]%N (JArr [])) in
  let c2 := snd (send_batch c1 [([97]%N, JArr [], true); ([98]%N, JArr [], false); ([99]%N, JArr [], true)]) in
  reqs c2 = [KOne 0; KMany [1; 2]]%N /\
  fst (receive_message c2 (print (JArr [response_payload V2 (JInt 20) (JFloat [50; 46; 48]%N);
                                         response_payload V2 (JInt 10) (JInt 1)])))
  = RCompleted (KMany [1; 2]%N) [inl (RResult (JInt 10)); inl (RResult (JInt 20))].
Proof. vm_compute. split; reflexivity. Qed.

(* JSONRPCConnection._receive_response and _receive_response_batch are translated from the Python source statement
   by statement on every run (gen/Gen_jsonrpc.v: receive_response_code, receive_response_batch_code); nothing was left
   untranslated.  Run by the interpreter of model/ConnCode.v they do exactly what the model's receive_response /
   receive_response_batch do - for every connection state, value and id (a live future) ... *)
Theorem C01_response_code_known : rknown 4 receive_response_code && rknown 4 receive_response_batch_code = true.
Proof. exact response_code_known. Qed.

Theorem C01_receive_response_from_source : forall c v rid,
  receive_response_generated c v rid false = let '(o, c') := receive_response c v rid in RFinished o c'.
Proof. exact generated_receive_response. Qed.

Theorem C01_receive_response_batch_from_source : forall c p payloads, payloads <> [] ->
  receive_response_batch_generated c p payloads false =
  let '(o, c') := receive_response_batch c p payloads in RFinished o c'.
Proof. exact generated_receive_response_batch. Qed.

(* ... so receive_message with its two response paths taken from the source is the model's receive_message, for every
   connection state and every byte string (an empty array never reaches the batch path) *)
Theorem C01_receive_message_from_source : forall c msg, receive_message_src c msg = receive_message c msg.
Proof. exact receive_message_from_source. Qed.

(* what the hand-written model does not have: the caller gave up (its future is finished) while the request was
   outstanding.  The late response is consumed quietly - no exception, nothing completes - and the id is no longer
   outstanding; a response to an id that is not outstanding is refused as before *)
Theorem C01_abandoned_response_consumed : forall c v rid k,
  single_key rid = Some k -> has_key k c = true ->
  receive_response_generated c v rid true =
  RFinished (RItems [] None) (set_reqs c (remove_key k (reqs c)) (next_id c) (cproto c)).
Proof. exact abandoned_response_consumed. Qed.

Theorem C01_abandoned_unknown_refused : forall c v rid,
  match single_key rid with Some k => has_key k c = false | None => True end ->
  receive_response_generated c v rid true = RFinished (RProtoErr INVALID_REQUEST None) c.
Proof. exact abandoned_unknown_refused. Qed.

(* send_request and send_batch are translated too: ids are taken first, then the message is encoded - which may
   refuse -, and only then is the awaitable registered; a refused send consumes its ids and leaves nothing outstanding *)
Theorem C01_send_code_known : qknown send_request_code && qknown send_batch_code = true.
Proof. exact send_code_known. Qed.

Theorem C01_send_request_from_source : forall c meth args,
  send_request_generated c meth args = let '(m, c') := send_request c meth args in QFinished m c'.
Proof. exact generated_send_request. Qed.

Theorem C01_send_batch_from_source : forall c ms,
  send_batch_generated c ms = let '(m, c') := send_batch c ms in QFinished m c'.
Proof. exact generated_send_batch. Qed.

(* ... and so is receive_message itself (the dispatcher): detection on the first message of an auto-detecting
   connection - and only then -, decoding, the ProtocolError that belongs to a response going to that request, the
   dispatch on the kind of item, the test that tells a response batch from a request batch.  Run over the translated
   response paths it is the model's receive_message, for every connection state and every byte string *)
Theorem C01_receive_message_code_known : mknown 4 receive_message_code = true.
Proof. exact receive_message_code_known. Qed.

Theorem C01_receive_message_dispatch_from_source : forall c msg,
  receive_message_generated c msg = MFinished (receive_message c msg).
Proof. exact generated_receive_message_is_model. Qed.

Print Assumptions C01_fresh_ids.
Print Assumptions C01_recv_exact.
Print Assumptions C01_others_untouched.
Print Assumptions C01_receive_effect.
Print Assumptions C01_resolved_once.
Print Assumptions C01_batch_order.
Print Assumptions C01_cancel_all.
Print Assumptions C01_response_code_known.
Print Assumptions C01_receive_response_from_source.
Print Assumptions C01_receive_response_batch_from_source.
Print Assumptions C01_receive_message_from_source.
Print Assumptions C01_abandoned_response_consumed.
Print Assumptions C01_abandoned_unknown_refused.
Print Assumptions C01_send_code_known.
Print Assumptions C01_send_request_from_source.
Print Assumptions C01_send_batch_from_source.
Print Assumptions C01_receive_message_code_known.
Print Assumptions C01_receive_message_dispatch_from_source.
