(* C01 - A response completes exactly the request that caused it.
   Model: model/Conn.v (jsonrpc.py:578-749).  Histories = arbitrary lists of send_request,
   send_batch, receive_message(bytes), cancel_pending_requests on any protocol class. *)
From Coq Require Import Permutation Sorted.
From AV Require Import Base Utf8 Json Gen_jsonrpc Codec Conn ConnProofs.

(* ids outstanding at the same time are pairwise distinct (and below the counter), in every
   reachable state *)
Theorem C01_fresh_ids : forall p ops, Fresh (fold_left apply_op ops (new_conn p)).
Proof. exact fresh_ids. Qed.

(* a response resolves exactly the entry its id names - Python identifies 1, 1.0 and True -
   removes it and leaves every other entry alone; any other id (unknown, replayed, string, null,
   unhashable) is a ProtocolError and the table is untouched *)
Theorem C01_recv_exact : forall c v rid,
  match classify_id rid with
  | INum z =>
      if (0 <=? z)%Z && has_key (KOne (Z.to_N z)) c
      then receive_response c v rid =
             (RCompleted (KOne (Z.to_N z)) [v],
              set_reqs c (remove_key (KOne (Z.to_N z)) (reqs c)) (next_id c) (cproto c))
      else receive_response c v rid = (RProtoErr INVALID_REQUEST None, c)
  | _ => receive_response c v rid = (RProtoErr INVALID_REQUEST None, c)
  end.
Proof. exact recv_exact. Qed.

Theorem C01_others_untouched : forall k k' l, In k' (remove_key k l) <-> In k' l /\ k' <> k.
Proof. exact remove_key_In. Qed.

(* whatever arrives, the table changes by at most the removal of the one completed key *)
Theorem C01_receive_effect : forall c msg,
  let '(o, c') := receive_message c msg in
  next_id c' = next_id c /\
  ((reqs c' = reqs c /\ forall k vs, o <> RCompleted k vs) \/
   (exists k vs, has_key k c = true /\ o = RCompleted k vs /\ reqs c' = remove_key k (reqs c))).
Proof. exact receive_effect. Qed.

(* along any history no awaitable is completed twice *)
Theorem C01_resolved_once : forall p ops, NoDup (completions (new_conn p) ops).
Proof. exact resolved_once. Qed.

(* a batch yields one outcome per request member in the order the members were added, for
   EVERY permutation of the response members *)
Theorem C01_batch_order : forall rs rs',
  int_ids rs -> NoDup (map idz rs) -> Permutation rs rs' ->
  StronglySorted (fun a b => (idz a < idz b)%Z) rs ->
  exists l, sort_pairs rs' = Some l /\ map snd l = rs.
Proof. exact batch_order. Qed.

(* connection loss: every outstanding awaitable is released and the table emptied *)
Theorem C01_cancel_all : forall c, fst (cancel_all c) = reqs c /\ reqs (snd (cancel_all c)) = [].
Proof. exact cancel_all_releases. Qed.

Example C01_ex :
  let c0 := new_conn (Some V2) in
  let c1 := snd (send_request c0 [109]%N (JArr [])) in
  let c2 := snd (send_batch c1 [([97]%N, JArr [], true); ([98]%N, JArr [], false); ([99]%N, JArr [], true)]) in
  reqs c2 = [KOne 0; KMany [1; 2]]%N /\
  fst (receive_message c2 (print (JArr [response_payload V2 (JInt 20) (JFloat [50; 46; 48]%N);
                                         response_payload V2 (JInt 10) (JInt 1)])))
  = RCompleted (KMany [1; 2]%N) [inl (RResult (JInt 10)); inl (RResult (JInt 20))].
Proof. vm_compute. split; reflexivity. Qed.

Print Assumptions C01_fresh_ids.
Print Assumptions C01_recv_exact.
Print Assumptions C01_others_untouched.
Print Assumptions C01_receive_effect.
Print Assumptions C01_resolved_once.
Print Assumptions C01_batch_order.
Print Assumptions C01_cancel_all.
