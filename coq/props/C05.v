From AV Require Import Base Utf8 Json Codec Conn.
Theorem C05_placeholder : True. Proof. exact I. Qed.
