(* C05 - No byte sequence from the peer can crash or wedge message processing.
   Model: model/Conn.v receive_message (jsonrpc.py:708-738) over lib/Json.v + model/Codec.v.
   What _message_to_payload does on each kind of decoder failure (invalid UTF-8, invalid JSON,
   nesting beyond the recursion limit, integers beyond the digit limit) is not hand-written: it
   is the table measured from the running code (gen/Gen_jsonrpc.v). *)
From AV Require Import Base Utf8 Json Gen_jsonrpc Codec Conn ConnProofs ConnCode ConnCodeProofs.

Theorem C05_decoder_failure_table :
  dfail_utf8 = Some (-32700)%Z /\ dfail_json = Some (-32700)%Z /\
  dfail_deep = Some (-32700)%Z /\ dfail_digits = Some (-32700)%Z.
Proof. repeat split. Qed.

(* for EVERY byte string, connection state and protocol class (incl. auto-detection not yet
   settled): a list of items, a completed awaitable, or a ProtocolError - nothing else *)
Theorem C05_receive_total : forall c msg, fst (receive_message c msg) <> REscape.
Proof. exact receive_total. Qed.

(* a ProtocolError without an error reply for the peer arises only when the bytes were a
   response (a dict without "method", or a batch of response payloads) *)
Theorem C05_reply_unless_response : forall c msg code c',
  receive_message c msg = (RProtoErr code None, c') ->
  exists m, message_to_payload msg = inl m /\ response_like m = true.
Proof. exact silent_error_only_for_responses. Qed.

(* every error reply is a well-formed error response of the protocol's wire format
   (payload level; its bytes are printable ASCII by C04) *)
Theorem C05_error_reply_wellformed : forall p code rid,
  err_reply p code rid = encode_payload (error_payload p (JInt code) [] rid) /\
  getn k_id (error_payload p (JInt code) [] rid) = rid.
Proof. intros p code rid. split; [reflexivity|destruct p; reflexivity]. Qed.

(* session level: the message loop survives every sequence of messages *)
Theorem C05_never_wedged : forall msgs c, fst (serve c msgs) = true.
Proof. exact never_wedged. Qed.

Example C05_ex :
  fst (receive_message (new_conn (Some V1)) (print (JObj [(k_result, JInt 1); (k_error, JNull); (k_id, JArr [])])))
  = RProtoErr (-32600)%Z None.
Proof. vm_compute. reflexivity. Qed.

(* receive_message as the SOURCE has it (translated on every run, gen/Gen_jsonrpc.v: receive_message_code and the two
   response paths) is the model's receive_message, for every connection state and every byte string - so the theorems
   above, which are about the model, speak about the dispatcher, the ProtocolError handler and the response paths as
   they are written today; in particular the run of the translated code never ends in an escaping exception *)
Theorem C05_receive_message_from_source : forall c msg,
  receive_message_generated c msg = MFinished (receive_message c msg).
Proof. exact generated_receive_message_is_model. Qed.

Theorem C05_translated_receive_total : forall c msg,
  exists o c', receive_message_generated c msg = MFinished (o, c') /\ o <> REscape.
Proof. exact translated_receive_total. Qed.

Print Assumptions C05_decoder_failure_table.
Print Assumptions C05_receive_total.
Print Assumptions C05_reply_unless_response.
Print Assumptions C05_error_reply_wellformed.
Print Assumptions C05_never_wedged.
Print Assumptions C05_receive_message_from_source.
Print Assumptions C05_translated_receive_total.
