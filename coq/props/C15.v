(* C15 - Back-pressure: blocked sends wait, go out whole once; a stalled peer is aborted.
   Model: model/WriteGate.v - the LTS of RSTransport / USTransport.write, pause_writing,
   resume_writing, connection_lost and SessionBase._send_message's timeout over asyncio.Event.
   A message is handed to the asyncio transport by ONE write() call (whole, never interleaved).
   Whether a woken writer re-checks the gate is not hand-written: it is probed on the running
   transports (gen/Gen_transport.v).  Every theorem is over ALL label sequences.
   Partial: the asyncio transports' own buffering and the FIFO order of Event waiters are
   CPython's; per-task order follows from a task awaiting each send before the next. *)
From AV Require Import Base Gen_transport WriteGate WriteGateProofs.

Theorem C15_probe : write_rechecks_gate = true.
Proof. reflexivity. Qed.

(* ... and a framed message of any size (probed on the running transports from 0 bytes to 1 MiB, around the
   64 KiB mark in particular) is handed to the socket in one write call: the model's "a write is one whole
   message" is what the code does *)
Theorem C15_probe_whole : write_hands_over_whole = true.
Proof. reflexivity. Qed.


(* while the transport reports its send buffer full nothing is written - in particular by
   writers released together when the first of them refills the buffer (this was F14) *)
Theorem C15_silent_while_full : forall ls, blind (wrun ls) = [].
Proof. exact silent_while_full. Qed.

(* ... and reading from the peer is paused exactly while the gate is closed *)
Theorem C15_reading_follows_gate : forall ls,
  let g := wrun ls in closing g = false -> reading g = can_send g.
Proof. exact reading_follows_gate. Qed.

(* each message reaches the transport at most once, and only from a completed write call *)
Theorem C15_whole_at_most_once : forall ls,
  NoDup (wire (wrun ls)) /\ incl (wire (wrun ls)) (done (wrun ls)).
Proof. exact whole_at_most_once. Qed.

(* when room is reported every blocked writer is released and reading resumes *)
Theorem C15_resume_releases : forall g, can_send g = false ->
  waiting (wstep g Resume) = [] /\ incl (waiting g) (released (wstep g Resume)) /\
  can_send (wstep g Resume) = true /\ reading (wstep g Resume) = true.
Proof. exact resume_releases. Qed.

(* a writer blocked for max_send_delay aborts the connection (and gets TaskTimeout) *)
Theorem C15_stall_aborts : forall g w, memN w (waiting g) || memN w (released g) = true ->
  closing (wstep g (Deadline w)) = true /\ In w (timed_out (wstep g (Deadline w))) /\
  waiting (wstep g (Deadline w)) = [].
Proof. exact stall_aborts. Qed.

(* writers blocked when the connection is lost are released, and write nothing *)
Theorem C15_lost_releases_writers : forall g,
  waiting (wstep g Lost) = [] /\ incl (waiting g) (released (wstep g Lost)) /\
  closing (wstep g Lost) = true /\
  (forall w, wire (do_write (wstep g Lost) w) = wire (wstep g Lost)).
Proof. exact lost_releases_writers. Qed.

(* non-vacuity: the F14 scenario - three blocked writers, one resume, the first refills *)
Example C15_ex :
  let g := wrun [Send 1; Pause; Send 2; Send 3; Send 4; Resume; Run 2; Pause; Run 3; Run 4; Resume; Run 3; Run 4]%N in
  wire g = [1; 2; 3; 4]%N /\ blind g = [] /\ waiting g = [] /\ released g = [].
Proof. vm_compute. repeat split. Qed.

Print Assumptions C15_probe.
Print Assumptions C15_probe_whole.
Print Assumptions C15_silent_while_full.
Print Assumptions C15_reading_follows_gate.
Print Assumptions C15_whole_at_most_once.
Print Assumptions C15_resume_releases.
Print Assumptions C15_stall_aborts.
Print Assumptions C15_lost_releases_writers.
