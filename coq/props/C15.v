(* C15 - Back-pressure: blocked sends wait, go out whole once; a stalled peer is aborted.
   Model: model/WriteGate.v - the LTS of RSTransport / USTransport.write, pause_writing,
   resume_writing, connection_lost and SessionBase._send_message's timeout over asyncio.Event.
   A message is handed to the asyncio transport by ONE write() call (whole, never interleaved).
   Whether a woken writer re-checks the gate is not hand-written: it is probed on the running
   transports (gen/Gen_transport.v).  Every theorem is over ALL label sequences.
   Partial: the asyncio transports' own buffering and the FIFO order of Event waiters are
   CPython's; per-task order follows from a task awaiting each send before the next. *)
From AV Require Import Base Gen_transport WriteGate WriteGateProofs WriteGateCode WriteGateCodeProofs.

Theorem C15_probe : write_rechecks_gate = true.
Proof. reflexivity. Qed.

(* ... and a framed message of any size (probed on the running transports from 0 bytes to 1 MiB, around the
   64 KiB mark in particular) is handed to the socket in one write call: the model's "a write is one whole
   message" is what the code does *)
Theorem C15_probe_whole : write_hands_over_whole = true.
Proof. reflexivity. Qed.


(* while the transport reports its send buffer full nothing is written - in particular by
   writers released together when the first of them refills the buffer (this was F14) *)
Theorem C15_silent_while_full : forall ls, blind (wrun ls) = [].
Proof. exact silent_while_full. Qed.

(* ... and reading from the peer is paused exactly while the gate is closed *)
Theorem C15_reading_follows_gate : forall ls,
  let g := wrun ls in closing g = false -> reading g = can_send g.
Proof. exact reading_follows_gate. Qed.

(* each message reaches the transport at most once, and only from a completed write call *)
Theorem C15_whole_at_most_once : forall ls,
  NoDup (wire (wrun ls)) /\ incl (wire (wrun ls)) (done (wrun ls)).
Proof. exact whole_at_most_once. Qed.

(* when room is reported every blocked writer is released and reading resumes *)
Theorem C15_resume_releases : forall g, can_send g = false ->
  waiting (wstep g Resume) = [] /\ incl (waiting g) (released (wstep g Resume)) /\
  can_send (wstep g Resume) = true /\ reading (wstep g Resume) = true.
Proof. exact resume_releases. Qed.

(* a writer blocked for max_send_delay aborts the connection (and gets TaskTimeout) *)
Theorem C15_stall_aborts : forall g w, memN w (waiting g) || memN w (released g) = true ->
  closing (wstep g (Deadline w)) = true /\ In w (timed_out (wstep g (Deadline w))) /\
  waiting (wstep g (Deadline w)) = [].
Proof. exact stall_aborts. Qed.

(* writers blocked when the connection is lost are released, and write nothing *)
Theorem C15_lost_releases_writers : forall g,
  waiting (wstep g Lost) = [] /\ incl (waiting g) (released (wstep g Lost)) /\
  closing (wstep g Lost) = true /\
  (forall w, wire (do_write (wstep g Lost) w) = wire (wstep g Lost)).
Proof. exact lost_releases_writers. Qed.

(* non-vacuity: the F14 scenario - three blocked writers, one resume, the first refills *)
Example C15_ex :
  let g := wrun [Send 1; Pause; Send 2; Send 3; Send 4; Resume; Run 2; Pause; Run 3; Run 4; Resume; Run 3; Run 4]%N in
  wire g = [1; 2; 3; 4]%N /\ blind g = [] /\ waiting g = [] /\ released g = [].
Proof. vm_compute. repeat split. Qed.

(* pause_writing, resume_writing, connection_lost and the coroutine write() of the transports are translated from
   the Python source statement by statement on every run (gen/Gen_transport.v: pause_code, resume_code, lost_code,
   write_code; both transport classes give the same lists); nothing was left untranslated.  With asyncio.Event's
   meaning written down once (model/WriteGateCode.v: set() wakes every waiter, a woken waiter continues after its
   wait() whatever the flag is by then) the model's labels are the runs of those statements ... *)
Theorem C15_transport_code_known :
  wknown 4 pause_code && wknown 4 resume_code && wknown 4 lost_code && wknown 4 write_code && transports_agree = true.
Proof. exact transport_code_known. Qed.

Theorem C15_pause_from_source : forall g, callback pause_code g = Some (wstep g Pause).
Proof. exact pause_from_source. Qed.

Theorem C15_resume_from_source : forall g, callback resume_code g = Some (wstep g Resume).
Proof. exact resume_from_source. Qed.

Theorem C15_lost_from_source : forall g, (can_send g = true -> waiting g = []) ->
  callback lost_code (set_closing g) = Some (wstep g Lost).
Proof. exact lost_from_source. Qed.

(* ... a call of write() is Send, a woken writer continuing is Run - and wherever a writer blocks it continues at
   the same place (the loop test), so the model needs no program counter per writer *)
Theorem C15_send_from_source : forall g w, known g w = false ->
  match write_call g w with
  | WDone g' => wstep g (Send w) = g'
  | WBlocked g' k => wstep g (Send w) = g' /\ k = resume_point
  | WStuck => False
  end.
Proof. exact send_from_source. Qed.

Theorem C15_run_from_source : forall g w, memN w (released g) = true ->
  match write_resume (take_released g w) w resume_point with
  | WDone g' => wstep g (Run w) = g'
  | WBlocked g' k => wstep g (Run w) = g' /\ k = resume_point
  | WStuck => False
  end.
Proof. exact run_from_source. Qed.

(* ... so over EVERY label sequence the model is the run of the source's statements *)
Theorem C15_model_from_source : forall ls, wrun_src ls = wrun ls.
Proof. exact wrun_from_source. Qed.

Print Assumptions C15_probe.
Print Assumptions C15_probe_whole.
Print Assumptions C15_silent_while_full.
Print Assumptions C15_reading_follows_gate.
Print Assumptions C15_whole_at_most_once.
Print Assumptions C15_resume_releases.
Print Assumptions C15_stall_aborts.
Print Assumptions C15_lost_releases_writers.
Print Assumptions C15_transport_code_known.
Print Assumptions C15_pause_from_source.
Print Assumptions C15_resume_from_source.
Print Assumptions C15_lost_from_source.
Print Assumptions C15_send_from_source.
Print Assumptions C15_run_from_source.
Print Assumptions C15_model_from_source.
