(* Proofs about the connection model (model/Conn.v): C01, C02, C05. *)
From AV Require Import Base Utf8 Json Gen_jsonrpc Codec Conn.
Local Open Scope N_scope.

(* ================= C05: nothing but ProtocolError leaves receive_message ================= *)
(* the measured decoder-failure table: every decoder failure is turned into a parse error *)
Lemma dfail_table : forall f, dfail_code f = Some PARSE_ERROR.
Proof. intros []; reflexivity. Qed.

Lemma receive_response_no_escape c v rid : fst (receive_response c v rid) <> REscape.
Proof.
  unfold receive_response, rout_unhashable. destruct (classify_id rid); cbn; try discriminate.
  destruct (z <? 0)%Z; [cbn; discriminate|]. destruct (has_key _ _); cbn; discriminate.
Qed.

Lemma receive_response_batch_no_escape c p l : fst (receive_response_batch c p l) <> REscape.
Proof.
  unfold receive_response_batch, rout_unsortable. destruct (batch_responses p l) as [rs|[code ?]]; [|cbn; discriminate].
  destruct (fold_left _ rs (Some [])); [|cbn; discriminate].
  destruct (all_some _); [|cbn; discriminate]. destruct (has_key _ _); cbn; discriminate.
Qed.

Theorem receive_total c msg : fst (receive_message c msg) <> REscape.
Proof.
  unfold receive_message. destruct (message_to_payload msg) as [m|f].
  - set (p := match cproto c with Some p => p | None => detect_protocol m end).
    destruct (payload_to_item p m) as [[meth args rid|meth args|v rid|payloads]|code rid|code rid]; cbn [fst]; try discriminate.
    + apply receive_response_no_escape.
    + destruct (forallb is_response_payload payloads); [apply receive_response_batch_no_escape|].
      destruct (request_batch p payloads [] [] 0) as [[items ps] cnt]. destruct items, ps; cbn; discriminate.
    + apply receive_response_no_escape.
  - rewrite dfail_table. cbn. discriminate.
Qed.

(* a ProtocolError without a reply arises only for response-like input: a dict without
   "method", or a batch made of response payloads *)
Definition response_like (m : json) : bool :=
  match m with
  | JObj _ => negb (has k_method m)
  | JArr l => forallb is_response_payload l
  | _ => false
  end.

Theorem silent_error_only_for_responses c msg code c' :
  receive_message c msg = (RProtoErr code None, c') ->
  exists m, message_to_payload msg = inl m /\ response_like m = true.
Proof.
  unfold receive_message. destruct (message_to_payload msg) as [m|f]; [|rewrite dfail_table; discriminate].
  intros H. exists m. split; auto.
  set (p := match cproto c with Some p => p | None => detect_protocol m end) in *.
  destruct m as [| | | | |l|l]; cbn [payload_to_item] in H; try discriminate.
  - destruct (allow_batches p); [|discriminate]. destruct l as [|x l]; [discriminate|]. cbn [response_like].
    destruct (forallb is_response_payload (x :: l)) eqn:E; [reflexivity|].
    destruct (request_batch p (x :: l) [] [] 0) as [[items ps] cnt]. destruct items, ps; discriminate.
  - cbn [response_like]. destruct (has k_method (JObj l)) eqn:E; [|reflexivity].
    exfalso. unfold process_request in H.
    destruct (message_id p (JObj l) false); [|discriminate].
    destruct (validate p (JObj l)); [discriminate|]. destruct (request_args p (JObj l)); [|discriminate].
    destruct (getn k_method (JObj l)); try discriminate. destruct (is_null j); discriminate.
Qed.

(* the serving loop of a session: a message either yields work / an error that is counted and
   answered, never an exception that would end the message task *)
Fixpoint serve (c : conn) (msgs : list bytes) : bool * conn :=
  match msgs with
  | [] => (true, c)
  | m :: r => match receive_message c m with
              | (REscape, _) => (false, c)          (* message task dies, transport still open *)
              | (_, c') => serve c' r
              end
  end.
Theorem never_wedged : forall msgs c, fst (serve c msgs) = true.
Proof.
  induction msgs as [|m r IH]; intros c; cbn; auto.
  pose proof (receive_total c m) as H. destruct (receive_message c m) as [o c']; cbn [fst] in H.
  destruct o; auto; contradiction.
Qed.

(* ================= C01: the table of outstanding requests ================= *)
Definition ids_of (k : key) : list N := match k with KOne i => [i] | KMany l => l end.
Definition all_ids (c : conn) : list N := flat_map ids_of (reqs c).
Definition Fresh (c : conn) : Prop :=
  NoDup (all_ids c) /\ Forall (fun i => i < next_id c) (all_ids c).

Lemma key_eqb_eq a b : key_eqb a b = true <-> a = b.
Proof.
  destruct a, b; cbn; try (split; discriminate).
  - rewrite N.eqb_eq. split; [intros ->; auto|intros H; now injection H].
  - split.
    + intros H. f_equal. apply (list_eqb_eq N.eqb); auto. intros x y E. now apply N.eqb_eq.
    + intros H. injection H as ->. apply list_eqb_refl. apply N.eqb_refl.
Qed.
Lemma has_key_In k c : has_key k c = true <-> In k (reqs c).
Proof.
  unfold has_key. rewrite existsb_exists. split.
  - intros (x & Hx & E). apply key_eqb_eq in E. now subst.
  - intros H. exists k. split; auto. now apply key_eqb_eq.
Qed.

Lemma NoDup_app_iff {A} (a b : list A) :
  NoDup (a ++ b) <-> NoDup a /\ NoDup b /\ (forall x, In x a -> ~ In x b).
Proof.
  induction a as [|x a IH]; cbn.
  - split; [intros H; repeat split; auto; constructor | intros (_ & H & _); exact H].
  - split.
    + intros H. inversion H as [|? ? Hx Hn]; subst. apply IH in Hn as (Ha & Hb & Hd). repeat split; auto.
      * constructor; auto. intros Hin. apply Hx, in_or_app. now left.
      * intros y [<-|Hy]; [intros Hin; apply Hx, in_or_app; now right | now apply Hd].
    + intros (Ha & Hb & Hd). inversion Ha as [|? ? Hx Hn]; subst. constructor.
      * intros Hin. apply in_app_or in Hin as [Hin|Hin]; [contradiction|]. apply (Hd x); auto.
      * apply IH. repeat split; auto.
Qed.

Lemma flat_map_filter_incl {A B} (f : A -> list B) (g : A -> bool) l y :
  In y (flat_map f (filter g l)) -> In y (flat_map f l).
Proof.
  intros Hy. apply in_flat_map in Hy as (z & Hz & Hy). apply filter_In in Hz as [Hz _].
  apply in_flat_map. eauto.
Qed.

Lemma NoDup_flat_map_filter {A B} (f : A -> list B) (g : A -> bool) l :
  NoDup (flat_map f l) -> NoDup (flat_map f (filter g l)).
Proof.
  induction l as [|x l IH]; cbn; auto. intros H. apply NoDup_app_iff in H as (H1 & H2 & H3).
  destruct (g x); cbn; auto. apply NoDup_app_iff. repeat split; auto.
  intros y Hy Hin. apply (H3 y Hy). eapply flat_map_filter_incl; eauto.
Qed.

(* ---- sending keeps the ids fresh ---- *)
Lemma assign_ids_spec : forall ms n,
  let '(ps, ids, n') := assign_ids ms n in
  n <= n' /\ NoDup ids /\ Forall (fun i => n <= i /\ i < n') ids.
Proof.
  induction ms as [|[[m a] isreq] ms IH]; intros n; cbn [assign_ids].
  - repeat split; [lia|constructor|constructor].
  - destruct isreq.
    + specialize (IH (n + 1)). destruct (assign_ids ms (n + 1)) as [[ps ids] n']. destruct IH as (H1 & H2 & H3).
      repeat split; [lia| |].
      * constructor; auto. intros Hin. rewrite Forall_forall in H3. specialize (H3 n Hin). lia.
      * constructor; [lia|]. eapply Forall_impl; [|exact H3]. cbn. intros; lia.
    + specialize (IH n). destruct (assign_ids ms n) as [[ps ids] n']. exact IH.
Qed.

Lemma fresh_add c ids n' :
  Fresh c -> next_id c <= n' -> NoDup ids -> Forall (fun i => next_id c <= i /\ i < n') ids ->
  forall k, ids_of k = ids -> Fresh (set_reqs c (reqs c ++ [k]) n' (cproto c)).
Proof.
  intros [Hn Hl] Hle Hd Hr k Hk. unfold Fresh, all_ids in *. cbn. rewrite flat_map_app. cbn. rewrite app_nil_r, Hk.
  split.
  - apply NoDup_app_iff. repeat split; auto. intros x Hx Hin. rewrite Forall_forall in Hl, Hr.
    specialize (Hl x Hx). specialize (Hr x Hin). lia.
  - apply Forall_app. split.
    + eapply Forall_impl; [|exact Hl]. cbn. intros; lia.
    + eapply Forall_impl; [|exact Hr]. cbn. intros; lia.
Qed.
Lemma fresh_bump c n' : Fresh c -> next_id c <= n' -> Fresh (set_reqs c (reqs c) n' (cproto c)).
Proof.
  intros [Hn Hl] Hle. split; auto. unfold all_ids in *. cbn. eapply Forall_impl; [|exact Hl]. cbn. intros; lia.
Qed.

Lemma send_request_fresh c m a : Fresh c -> Fresh (snd (send_request c m a)).
Proof.
  intros H. unfold send_request. destruct (request_payload _ _ _ _); cbn [snd].
  - apply (fresh_add c [next_id c] (next_id c + 1)); auto; try lia.
    + constructor; [intros []|constructor].
    + constructor; [lia|constructor].
  - apply fresh_bump; auto. lia.
Qed.

Lemma send_batch_fresh c ms : Fresh c -> Fresh (snd (send_batch c ms)).
Proof.
  intros H. unfold send_batch. pose proof (assign_ids_spec ms (next_id c)) as Hs.
  destruct (assign_ids ms (next_id c)) as [[ps ids] n']. destruct Hs as (H1 & H2 & H3).
  destruct (batch_message _ _); cbn [snd]; [|now apply fresh_bump].
  destruct ids as [|i ids]; [now apply fresh_bump|].
  apply (fresh_add c (i :: ids) n'); auto.
Qed.

(* ---- receiving: the table changes by at most the removal of the completed key ---- *)
Lemma receive_response_effect c v rid :
  let '(o, c') := receive_response c v rid in
  next_id c' = next_id c /\
  ((reqs c' = reqs c /\ forall k vs, o <> RCompleted k vs) \/
   (exists k, has_key k c = true /\ o = RCompleted k [v] /\ reqs c' = remove_key k (reqs c))).
Proof.
  unfold receive_response, rout_unhashable. destruct (classify_id rid); cbn; try (split; auto; left; split; auto; discriminate).
  destruct (z <? 0)%Z; [split; auto; left; split; auto; discriminate|].
  destruct (has_key (KOne (Z.to_N z)) c) eqn:E; cbn; split; auto.
  - right. eauto.
  - left. split; auto. discriminate.
Qed.

Lemma receive_response_batch_effect c p l :
  let '(o, c') := receive_response_batch c p l in
  next_id c' = next_id c /\
  ((reqs c' = reqs c /\ forall k vs, o <> RCompleted k vs) \/
   (exists k vs, has_key k c = true /\ o = RCompleted k vs /\ reqs c' = remove_key k (reqs c))).
Proof.
  unfold receive_response_batch, rout_unsortable.
  destruct (batch_responses p l) as [rs|[code ?]]; [|split; auto; left; split; auto; discriminate].
  destruct (fold_left _ rs (Some [])); [|split; auto; left; split; auto; discriminate].
  destruct (all_some _); [|split; auto; left; split; auto; discriminate].
  destruct (has_key (KMany l1) c) eqn:E; cbn; split; auto.
  - right. eauto.
  - left. split; auto. discriminate.
Qed.

Theorem receive_effect c msg :
  let '(o, c') := receive_message c msg in
  next_id c' = next_id c /\
  ((reqs c' = reqs c /\ forall k vs, o <> RCompleted k vs) \/
   (exists k vs, has_key k c = true /\ o = RCompleted k vs /\ reqs c' = remove_key k (reqs c))).
Proof.
  unfold receive_message. destruct (message_to_payload msg) as [m|f].
  2:{ rewrite dfail_table. split; auto. left. split; auto. discriminate. }
  set (p := match cproto c with Some p => p | None => detect_protocol m end).
  set (c1 := set_reqs c (reqs c) (next_id c) (Some p)).
  assert (Hk : forall k, has_key k c1 = has_key k c) by reflexivity.
  destruct (payload_to_item p m) as [[meth args rid|meth args|v rid|payloads]|code rid|code rid];
    try (split; auto; left; split; auto; discriminate).
  - pose proof (receive_response_effect c1 (inl v) rid) as H.
    destruct (receive_response c1 (inl v) rid) as [o c']. destruct H as (H1 & [H2|(k & H2 & H3 & H4)]); split; auto.
    right. exists k, [inl v]. rewrite <- Hk. auto.
  - destruct (forallb is_response_payload payloads).
    + pose proof (receive_response_batch_effect c1 p payloads) as H.
      destruct (receive_response_batch c1 p payloads) as [o c']. destruct H as (H1 & [H2|(k & vs & H2 & H3 & H4)]); split; auto.
      right. exists k, vs. rewrite <- Hk. auto.
    + destruct (request_batch p payloads [] [] 0) as [[items ps] cnt].
      destruct items, ps; split; auto; left; split; auto; discriminate.
  - pose proof (receive_response_effect c1 (inr code) rid) as H.
    destruct (receive_response c1 (inr code) rid) as [o c']. destruct H as (H1 & [H2|(k & H2 & H3 & H4)]); split; auto.
    right. exists k, [inr code]. rewrite <- Hk. auto.
Qed.

Lemma fresh_remove c k p : Fresh c -> Fresh (set_reqs c (remove_key k (reqs c)) (next_id c) p).
Proof.
  intros [Hn Hl]. unfold Fresh, all_ids, remove_key in *. cbn. split.
  - now apply NoDup_flat_map_filter.
  - apply Forall_forall. intros x Hx. rewrite Forall_forall in Hl. apply Hl. eapply flat_map_filter_incl; eauto.
Qed.

Lemma receive_fresh c msg : Fresh c -> Fresh (snd (receive_message c msg)).
Proof.
  intros H. pose proof (receive_effect c msg) as He. destruct (receive_message c msg) as [o c']. cbn [snd].
  destruct He as (Hn & [[Hr _]|(k & vs & _ & _ & Hr)]).
  - destruct H as [H1 H2]. unfold Fresh, all_ids in *. rewrite Hr, Hn. auto.
  - pose proof (fresh_remove c k (cproto c) H) as [H1 H2]. unfold Fresh, all_ids in *. cbn in *. rewrite Hr, Hn. auto.
Qed.

(* ---- histories ---- *)
Inductive aop :=
| ASend (meth : text) (args : json) | ASendBatch (ms : list (text * json * bool))
| AReceive (msg : bytes) | ACancelAll.
Definition apply_op (c : conn) (o : aop) : conn :=
  match o with
  | ASend m a => snd (send_request c m a)
  | ASendBatch ms => snd (send_batch c ms)
  | AReceive msg => snd (receive_message c msg)
  | ACancelAll => snd (cancel_all c)
  end.

Lemma apply_fresh c o : Fresh c -> Fresh (apply_op c o).
Proof.
  intros H. destruct o; cbn.
  - now apply send_request_fresh.
  - now apply send_batch_fresh.
  - now apply receive_fresh.
  - split; [constructor|constructor].
Qed.

(* ids outstanding at the same time are pairwise distinct, in every reachable state *)
Theorem fresh_ids p ops : Fresh (fold_left apply_op ops (new_conn p)).
Proof.
  assert (H : Fresh (new_conn p)) by (split; constructor). revert H. generalize (new_conn p).
  induction ops as [|o ops IH]; intros c H; cbn; auto. apply IH. now apply apply_fresh.
Qed.

(* ---- a response resolves exactly the entry it names, or nothing ---- *)
Lemma remove_key_In k k' l : In k' (remove_key k l) <-> In k' l /\ k' <> k.
Proof.
  unfold remove_key. rewrite filter_In. split; intros [H1 H2]; split; auto.
  - intros ->. rewrite (proj2 (key_eqb_eq k k) eq_refl) in H2. discriminate.
  - destruct (key_eqb k k') eqn:E; auto. apply key_eqb_eq in E. congruence.
Qed.

Theorem recv_exact c v rid :
  match classify_id rid with
  | INum z =>
      if (0 <=? z)%Z && has_key (KOne (Z.to_N z)) c
      then receive_response c v rid =
             (RCompleted (KOne (Z.to_N z)) [v],
              set_reqs c (remove_key (KOne (Z.to_N z)) (reqs c)) (next_id c) (cproto c))
      else receive_response c v rid = (RProtoErr INVALID_REQUEST None, c)
  | _ => receive_response c v rid = (RProtoErr INVALID_REQUEST None, c)
  end.
Proof.
  unfold receive_response, rout_unhashable. destruct (classify_id rid); auto.
  destruct (Z.ltb_spec z 0); destruct (Z.leb_spec 0 z); try lia; cbn [andb]; auto.
  destruct (has_key _ _); auto.
Qed.

(* ---- no request is completed twice ---- *)
Fixpoint completions (c : conn) (ops : list aop) : list key :=
  match ops with
  | [] => []
  | o :: r =>
      match o with
      | AReceive msg => match fst (receive_message c msg) with
                        | RCompleted k _ => k :: completions (apply_op c o) r
                        | _ => completions (apply_op c o) r
                        end
      | _ => completions (apply_op c o) r
      end
  end.

Definition Gone (c : conn) (k : key) : Prop :=
  ~ In k (reqs c) /\ ids_of k <> [] /\ Forall (fun i => i < next_id c) (ids_of k).
Definition NonEmpty (c : conn) : Prop := Forall (fun k => ids_of k <> []) (reqs c).

Lemma In_key_ids c k i : In k (reqs c) -> In i (ids_of k) -> In i (all_ids c).
Proof. intros H1 H2. unfold all_ids. apply in_flat_map. eauto. Qed.

Lemma apply_gone c o k : Fresh c -> Gone c k -> Gone (apply_op c o) k.
Proof.
  intros Hf (Hn & He & Hl). destruct o; cbn [apply_op].
  - unfold send_request. destruct (request_payload _ _ _ _); cbn [snd]; unfold Gone; cbn.
    + repeat split; auto.
      * intros Hin. apply in_app_or in Hin as [Hin|[<-|[]]]; auto. cbn in Hl. inversion Hl; subst. lia.
      * eapply Forall_impl; [|exact Hl]. cbn. intros; lia.
    + repeat split; auto. eapply Forall_impl; [|exact Hl]. cbn. intros; lia.
  - unfold send_batch. pose proof (assign_ids_spec ms (next_id c)) as Hs.
    destruct (assign_ids ms (next_id c)) as [[ps ids] n']. destruct Hs as (H1 & H2 & H3).
    assert (Hl' : Forall (fun i => i < n') (ids_of k)) by (eapply Forall_impl; [|exact Hl]; cbn; intros; lia).
    destruct (batch_message _ _); cbn [snd]; unfold Gone; cbn; [|repeat split; auto].
    destruct ids as [|i ids]; [repeat split; auto|]. repeat split; auto.
    intros Hin. apply in_app_or in Hin as [Hin|[<-|[]]]; auto. cbn in Hl. inversion Hl; subst.
    inversion H3; subst. lia.
  - pose proof (receive_effect c msg) as H. destruct (receive_message c msg) as [o c']. cbn [snd].
    destruct H as (Hnx & [[Hr _]|(k' & vs & _ & _ & Hr)]); unfold Gone; rewrite Hnx, Hr; repeat split; auto.
    intros Hin. apply remove_key_In in Hin as [Hin _]. contradiction.
  - unfold Gone. cbn. repeat split; auto.
Qed.

Lemma apply_nonempty c o : NonEmpty c -> NonEmpty (apply_op c o).
Proof.
  unfold NonEmpty. intros H. destruct o; cbn [apply_op].
  - unfold send_request. destruct (request_payload _ _ _ _); cbn; auto.
    apply Forall_app. split; auto. constructor; [discriminate|constructor].
  - unfold send_batch. destruct (assign_ids ms (next_id c)) as [[ps ids] n'].
    destruct (batch_message _ _); cbn; auto. destruct ids; auto.
    apply Forall_app. split; auto. constructor; [discriminate|constructor].
  - pose proof (receive_effect c msg) as He. destruct (receive_message c msg) as [o c']. cbn [snd].
    destruct He as (_ & [[Hr _]|(k' & vs & _ & _ & Hr)]); rewrite Hr; auto.
    apply Forall_forall. intros x Hx. apply remove_key_In in Hx as [Hx _]. rewrite Forall_forall in H. auto.
  - cbn. constructor.
Qed.

Lemma completions_spec : forall ops c done,
  Fresh c -> NonEmpty c -> Forall (Gone c) done -> NoDup done ->
  NoDup (done ++ completions c ops).
Proof.
  induction ops as [|o ops IH]; intros c done Hf Hne Hd Hnd; cbn [completions].
  - now rewrite app_nil_r.
  - assert (Step : forall done', Forall (Gone c) done' -> Forall (Gone (apply_op c o)) done').
    { intros d Hg. eapply Forall_impl; [|exact Hg]. intros k. now apply apply_gone. }
    destruct o as [m a|ms|msg|]; try (apply IH; auto using apply_fresh, apply_nonempty).
    pose proof (receive_effect c msg) as He. cbn [apply_op].
    destruct (receive_message c msg) as [out c'] eqn:Er. cbn [fst snd].
    assert (Hf' : Fresh c') by (pose proof (receive_fresh c msg Hf) as X; now rewrite Er in X).
    assert (Hne' : NonEmpty c') by (pose proof (apply_nonempty c (AReceive msg) Hne) as X; cbn in X; now rewrite Er in X).
    assert (Hd' : Forall (Gone c') done) by (pose proof (Step done Hd) as X; cbn in X; now rewrite Er in X).
    destruct out as [l ctx|k vs|code reply|]; try (apply IH; auto).
    (* a completion: k was outstanding, so it is not among the finished ones; afterwards it is gone *)
    destruct He as (Hnx & [[_ Hno]|(k' & vs' & Hk & Ho & Hr)]); [exfalso; eapply Hno; reflexivity|].
    injection Ho as <- <-. apply has_key_In in Hk.
    replace (done ++ k :: completions c' ops) with ((done ++ [k]) ++ completions c' ops) by (now rewrite <- app_assoc).
    apply IH; auto.
    + apply Forall_app. split; auto. constructor; [|constructor]. unfold Gone. rewrite Hr, Hnx. repeat split.
      * intros Hin. apply remove_key_In in Hin as [_ Hin]. contradiction.
      * unfold NonEmpty in Hne. rewrite Forall_forall in Hne. auto.
      * destruct Hf as [_ Hl]. apply Forall_forall. intros i Hi. rewrite Forall_forall in Hl. apply Hl.
        eapply In_key_ids; eauto.
    + apply NoDup_app_snoc; auto. intros Hin. rewrite Forall_forall in Hd. destruct (Hd k Hin) as (Hnot & _). contradiction.
Qed.

Theorem resolved_once p ops : NoDup (completions (new_conn p) ops).
Proof.
  assert (Hf : Fresh (new_conn p)) by (split; constructor).
  assert (Hn : NonEmpty (new_conn p)) by constructor.
  exact (completions_spec ops (new_conn p) [] Hf Hn (Forall_nil _) (NoDup_nil _)).
Qed.

(* cancel_pending_requests releases every outstanding awaitable and empties the table *)
Theorem cancel_all_releases c : fst (cancel_all c) = reqs c /\ reqs (snd (cancel_all c)) = [].
Proof. split; reflexivity. Qed.

(* ---- batch_order: any permutation of the response members yields the id order ---- *)
From Coq Require Import Permutation Sorted.

Section Sorting.
Context {A : Type}.
Definition zkey (x : ordkey * A) : Z := match fst x with ONum (z, _) => z | _ => 0%Z end.
Definition AllNum (l : list (ordkey * A)) : Prop := Forall (fun x => exists z d, fst x = ONum (z, d)) l.
Definition SSorted (l : list (ordkey * A)) : Prop := StronglySorted (fun a b => (zkey a < zkey b)%Z) l.

Lemma insert_num z d v l :
  AllNum l -> SSorted l -> ~ In z (map zkey l) ->
  exists l', insert_sorted (ONum (z, d)) v l = Some l' /\
             Permutation l' ((ONum (z, d), v) :: l) /\ AllNum l' /\ SSorted l'.
Proof.
  induction l as [|[k' v'] l IH]; intros Ha Hs Hn.
  - exists [(ONum (z, d), v)]. cbn. repeat split; auto.
    + constructor; auto. cbn. eauto.
    + constructor; constructor.
  - inversion Ha as [|? ? (z' & d' & Hk) Ha']; subst. cbn in Hk. subst k'. cbn [insert_sorted ord_lt].
    inversion Hs as [|? ? Hs' Hall]; subst.
    destruct (z <? z')%Z eqn:E.
    + apply Z.ltb_lt in E. eexists. split; [reflexivity|]. repeat split; auto.
      * constructor; auto. cbn. eauto.
      * constructor; auto. constructor.
        -- exact E.
        -- eapply Forall_impl; [|exact Hall]. intros x Hx. unfold zkey in *. cbn in *. lia.
    + apply Z.ltb_ge in E. assert (Hne : z <> z').
      { intros ->. apply Hn. cbn. now left. }
      destruct (IH Ha' Hs') as (l' & E' & Hp & Ha'' & Hs'').
      { intros Hin. apply Hn. cbn. now right. }
      rewrite E'. eexists. split; [reflexivity|]. repeat split.
      * rewrite Hp. apply perm_swap.
      * constructor; auto. cbn. eauto.
      * constructor; auto. apply Forall_forall. intros x Hx.
        apply (Permutation_in _ Hp) in Hx. destruct Hx as [<-|Hx].
        -- unfold zkey. cbn. lia.
        -- rewrite Forall_forall in Hall. now apply Hall.
Qed.

Lemma ssorted_perm_unique : forall l1 l2 : list (ordkey * A),
  SSorted l1 -> SSorted l2 -> Permutation l1 l2 -> l1 = l2.
Proof.
  induction l1 as [|a l1 IH]; intros l2 H1 H2 Hp.
  - apply Permutation_nil in Hp. now subst.
  - destruct l2 as [|b l2]; [apply Permutation_sym, Permutation_nil in Hp; discriminate|].
    inversion H1 as [|? ? H1' Ha]; subst. inversion H2 as [|? ? H2' Hb]; subst.
    assert (Hab : a = b).
    { assert (Ia : In a (b :: l2)) by (apply (Permutation_in _ Hp); now left).
      assert (Ib : In b (a :: l1)) by (apply (Permutation_in _ (Permutation_sym Hp)); now left).
      destruct Ia as [->|Ia]; auto. destruct Ib as [->|Ib]; auto.
      rewrite Forall_forall in Ha, Hb. specialize (Ha b Ib). specialize (Hb a Ia). lia. }
    subst b. f_equal. apply IH; auto. now apply Permutation_cons_inv in Hp.
Qed.
End Sorting.

Definition sort_pairs (rs : list (json * respval)) : option (list (ordkey * (json * respval))) :=
  fold_left (fun acc x => match acc, ord_of (fst x) with
                          | Some l, Some k => insert_sorted k x l
                          | _, _ => None end) rs (Some []).

Definition int_ids (rs : list (json * respval)) : Prop :=
  Forall (fun x => exists z, fst x = JInt z) rs.
Definition idz (x : json * respval) : Z := match fst x with JInt z => z | _ => 0%Z end.
Definition tag (x : json * respval) : ordkey * (json * respval) := (ONum (idz x, 1%Z), x).

Lemma sort_pairs_from : forall rs acc,
  int_ids rs -> AllNum acc -> SSorted acc -> NoDup (map zkey acc ++ map idz rs) ->
  exists l, fold_left (fun acc x => match acc, ord_of (fst x) with
                                    | Some l, Some k => insert_sorted k x l
                                    | _, _ => None end) rs (Some acc) = Some l /\
            Permutation l (acc ++ map tag rs) /\ SSorted l.
Proof.
  induction rs as [|x rs IH]; intros acc Hi Ha Hs Hn; cbn [fold_left].
  - exists acc. rewrite app_nil_r. auto.
  - inversion Hi as [|? ? (z & Hz) Hi']; subst. rewrite Hz. cbn [ord_of].
    destruct (insert_num z 1%Z x acc Ha Hs) as (l' & E & Hp & Ha' & Hs').
    { cbn [map] in Hn. apply NoDup_app_iff in Hn as (_ & _ & Hd). intros Hin. apply (Hd z Hin).
      left. unfold idz. now rewrite Hz. }
    rewrite E. destruct (IH l' Hi' Ha' Hs') as (l & El & Hpl & Hsl).
    { (* keys of l' = z :: keys of acc *)
      assert (Hk : Permutation (map zkey l') (z :: map zkey acc)).
      { apply (Permutation_map zkey) in Hp. exact Hp. }
      cbn [map] in Hn. assert (Hz' : idz x = z) by (unfold idz; now rewrite Hz). rewrite Hz' in Hn.
      eapply Permutation_NoDup; [|exact Hn].
      rewrite Hk. cbn. apply Permutation_sym. apply Permutation_middle. }
    exists l. split; auto. split; auto. rewrite Hpl, Hp. cbn [map].
    assert (Ht : tag x = (ONum (z, 1%Z), x)) by (unfold tag, idz; now rewrite Hz). rewrite Ht.
    cbn. apply Permutation_middle.
Qed.

(* The values of a batch come out in increasing id order - the order in which the members
   were added - for EVERY order in which the peer lists the response members. *)
Theorem batch_order rs rs' :
  int_ids rs -> NoDup (map idz rs) -> Permutation rs rs' ->
  StronglySorted (fun a b => (idz a < idz b)%Z) rs ->
  exists l, sort_pairs rs' = Some l /\ map snd l = rs.
Proof.
  intros Hi Hn Hp Hs.
  assert (Hi' : int_ids rs') by (unfold int_ids; eapply Permutation_Forall; eauto).
  assert (Hn' : NoDup (map idz rs')) by (eapply Permutation_NoDup; [apply Permutation_map; exact Hp|exact Hn]).
  destruct (sort_pairs_from rs' [] Hi' (Forall_nil _) (SSorted_nil _) Hn') as (l & El & Hpl & Hsl).
  exists l. split; auto. cbn in Hpl.
  assert (Htag : SSorted (map tag rs)).
  { clear - Hs. induction Hs as [|a l Hs IH Ha]; cbn; constructor; auto.
    apply Forall_forall. intros y Hy. apply in_map_iff in Hy as (x & <- & Hx). rewrite Forall_forall in Ha.
    specialize (Ha x Hx). unfold zkey, tag. cbn. exact Ha. }
  assert (E : l = map tag rs).
  { apply ssorted_perm_unique; auto. rewrite Hpl. apply Permutation_map. now apply Permutation_sym. }
  rewrite E, map_map. cbn. apply map_id.
Qed.

(* ================= C02: replies ================= *)
(* the reply to a single request carries the request's id: the result, or the -32600 error
   when the encoded response exceeds max_response_size *)
Definition reply_payload (c : conn) (p : proto) (rid : json) (r : respval) : json :=
  let m := respval_payload p r rid in
  if (0 <? max_response_size c) && (max_response_size c <? N.of_nat (length (encode_payload m)))
  then error_payload p (JInt INVALID_REQUEST) [] rid else m.

Theorem single_one_reply c p rid r :
  send_result c p rid r = encode_payload (reply_payload c p rid r) /\
  getn k_id (reply_payload c p rid r) = rid.
Proof.
  unfold send_result, reply_payload, oversized_reply. split.
  - destruct (_ && _); reflexivity.
  - destruct (_ && _); [destruct p; reflexivity|]. destruct r; destruct p; reflexivity.
Qed.

Local Open Scope nat_scope.
(* one step of a batch closure *)
Lemma batch_step c p ctx rid r :
  let '(ctx', m) := batch_send_result c p ctx rid r in
  count ctx' = count ctx /\ length (parts ctx') = S (length (parts ctx)) /\
  (exists part, parts ctx' = parts ctx ++ [part] /\
     exists pl, part = encode_payload pl /\ getn k_id pl = rid) /\
  (m = if Nat.eqb (S (length (parts ctx))) (count ctx) then Some (batch_text (parts ctx')) else None).
Proof.
  unfold batch_send_result. cbn. rewrite app_length. cbn. rewrite Nat.add_1_r. repeat split; auto.
  eexists. split; [reflexivity|]. unfold oversized_reply.
  destruct (_ && _).
  - eexists. split; [reflexivity|]. destruct p; reflexivity.
  - eexists. split; [reflexivity|]. destruct r; destruct p; reflexivity.
Qed.

(* supplying the results of the request members one after another, in any order *)
Fixpoint supply (c : conn) (p : proto) (ctx : bctx) (rs : list (json * respval)) : list (option bytes) * bctx :=
  match rs with
  | [] => ([], ctx)
  | (rid, r) :: rest =>
      let '(ctx', m) := batch_send_result c p ctx rid r in
      let '(ms, ctx'') := supply c p ctx' rest in (m :: ms, ctx'')
  end.

(* exactly one batch response, sent when the last member has its result: every call but the
   last returns None; the last returns the batch holding the pre-filled error entries followed
   by one entry per request - for every order of supply *)
Theorem batch_one_reply c p : forall rs ctx,
  count ctx = length (parts ctx) + length rs -> rs <> [] ->
  let '(ms, ctx') := supply c p ctx rs in
  removelast ms = repeat None (length rs - 1) /\
  last ms None = Some (batch_text (parts ctx')) /\
  length (parts ctx') = count ctx /\ firstn (length (parts ctx)) (parts ctx') = parts ctx.
Proof.
  induction rs as [|[rid r] rs IH]; intros ctx Hc Hne; [contradiction|]. cbn [supply].
  pose proof (batch_step c p ctx rid r) as Hs. destruct (batch_send_result c p ctx rid r) as [ctx1 m].
  destruct Hs as (H1 & H2 & (part & Hp & _) & Hm).
  destruct rs as [|x rs'].
  - cbn [supply]. cbn in Hc. assert (E : Nat.eqb (S (length (parts ctx))) (count ctx) = true) by (apply Nat.eqb_eq; lia).
    rewrite E in Hm. subst m. cbn. repeat split; auto; try lia. rewrite Hp. apply firstn_app_exact.
  - assert (Hc1 : count ctx1 = length (parts ctx1) + length (x :: rs')) by (cbn in *; lia).
    specialize (IH ctx1 Hc1 ltac:(discriminate)).
    destruct (supply c p ctx1 (x :: rs')) as [ms ctx2] eqn:Es. destruct IH as (I1 & I2 & I3 & I4).
    assert (E : Nat.eqb (S (length (parts ctx))) (count ctx) = false) by (apply Nat.eqb_neq; cbn in Hc; lia).
    rewrite E in Hm. subst m.
    assert (Hms : ms <> []).
    { cbn [supply] in Es. destruct x as [rid' r']. destruct (batch_send_result c p ctx1 rid' r').
      destruct (supply c p b rs'). injection Es as <- _. discriminate. }
    destruct ms as [|m0 ms]; [contradiction|].
    split; [|split; [|split]].
    + change (removelast (None :: m0 :: ms)) with (@None bytes :: removelast (m0 :: ms)). rewrite I1.
      cbn [length]. replace (S (S (length rs')) - 1) with (S (S (length rs') - 1)) by lia. reflexivity.
    + change (last (None :: m0 :: ms) None) with (last (m0 :: ms) None). exact I2.
    + lia.
    + assert (X : firstn (length (parts ctx)) (parts ctx2) =
                  firstn (length (parts ctx)) (firstn (length (parts ctx1)) (parts ctx2))).
      { rewrite firstn_firstn. f_equal. lia. }
      rewrite X, I4, Hp. apply firstn_app_exact.
Qed.

(* a batch of notifications only yields no reply closure that could ever fire *)
Theorem request_batch_counts p : forall payloads items ps cnt,
  let '(items', ps', cnt') := request_batch p payloads items ps cnt in
  cnt' - cnt = (length ps' - length ps) +
               (length (filter (fun t => match t with TRequest _ _ _ _ => true | _ => false end) items') -
                length (filter (fun t => match t with TRequest _ _ _ _ => true | _ => false end) items)) /\
  length ps <= length ps' /\ cnt <= cnt' /\
  length (filter (fun t => match t with TRequest _ _ _ _ => true | _ => false end) items) <=
  length (filter (fun t => match t with TRequest _ _ _ _ => true | _ => false end) items').
Proof.
  induction payloads as [|m r IH]; intros items ps cnt; cbn [request_batch].
  - repeat split; lia.
  - destruct (process_request p m) as [[meth args rid|meth args|v rid|l]|code rid|code rid].
    + specialize (IH (items ++ [TRequest meth args rid (Some 0%nat)]) ps (S cnt)).
      destruct (request_batch p r _ ps (S cnt)) as [[i' p'] c']. rewrite filter_app, app_length in IH. cbn in IH. lia.
    + specialize (IH (items ++ [TNotification meth args]) ps cnt).
      destruct (request_batch p r _ ps cnt) as [[i' p'] c']. rewrite filter_app, app_length in IH. cbn in IH. lia.
    + apply IH.
    + apply IH.
    + specialize (IH items (ps ++ [err_reply p code rid]) (S cnt)).
      destruct (request_batch p r items _ (S cnt)) as [[i' p'] c']. rewrite app_length in IH. cbn in IH. lia.
    + apply IH.
Qed.

(* hence the closure handed out with a request batch expects exactly: one part per invalid
   member (already filled in) plus one per request member *)
Corollary request_batch_count p payloads :
  let '(items, ps, cnt) := request_batch p payloads [] [] 0 in
  cnt = length ps + length (filter (fun t => match t with TRequest _ _ _ _ => true | _ => false end) items).
Proof.
  pose proof (request_batch_counts p payloads [] [] 0) as H.
  destruct (request_batch p payloads [] [] 0) as [[items ps] cnt]. cbn in H. lia.
Qed.
