(* Proofs about the SOCKS client model (model/Socks.v). *)
From AV Require Import Base Gen_socks Socks.

Lemma firstn_add_split {A} (a b : nat) (l : list A) :
  firstn (a + b) l = firstn a l ++ firstn b (skipn a l).
Proof.
  revert l; induction a as [|a IH]; intros l; cbn; auto.
  destruct l as [|x l]; cbn; [now rewrite firstn_nil|]. now rewrite IH.
Qed.

(* ---------- sock_recv until the buffer is full = exact read on the stream ---------- *)
Lemma recv_until_exact : forall fuel nd buf stream ks,
  length stream <= fuel ->
  match recv_until fuel nd buf stream ks with
  | Some (b, s, _) =>
      b = buf ++ firstn (nd - length buf) stream /\ s = skipn (nd - length buf) stream /\
      nd <= length buf + length stream
  | None => length buf + length stream < nd
  end.
Proof.
  induction fuel as [|fuel IH]; intros nd buf stream ks Hf; cbn [recv_until].
  - destruct (nd <=? length buf) eqn:E.
    + apply Nat.leb_le in E. replace (nd - length buf) with 0 by lia. cbn. rewrite app_nil_r.
      repeat split; auto; lia.
    + apply Nat.leb_gt in E. destruct stream; cbn in *; lia.
  - destruct (nd <=? length buf) eqn:E.
    + apply Nat.leb_le in E. replace (nd - length buf) with 0 by lia. cbn. rewrite app_nil_r.
      repeat split; auto; lia.
    + apply Nat.leb_gt in E. destruct stream as [|x stream'] eqn:Es; [cbn; lia|].
      rewrite <- Es in *.
      set (count := nd - length buf).
      set (k := match ks with
                | k0 :: _ => if (k0 =? 0) || (count <? k0) then count else k0
                | [] => count end).
      assert (Hk : 1 <= k <= count).
      { subst k. destruct ks as [|k0 ks']; [lia|].
        destruct (k0 =? 0) eqn:E0; cbn [orb]; [lia|]. apply Nat.eqb_neq in E0.
        destruct (count <? k0) eqn:E1; [lia|]. apply Nat.ltb_ge in E1. lia. }
      assert (Hlen : 1 <= length stream) by (rewrite Es; cbn; lia).
      specialize (IH nd (buf ++ firstn k stream) (skipn k stream) (tl ks)).
      assert (Hf' : length (skipn k stream) <= fuel) by (rewrite skipn_length; lia).
      specialize (IH Hf').
      destruct (recv_until fuel nd (buf ++ firstn k stream) (skipn k stream) (tl ks)) as [[[b s] ks']|].
      * destruct IH as (Hb & Hs & Hn). rewrite app_length, firstn_length, skipn_length in *.
        assert (Hm : Nat.min k (length stream) + (nd - (length buf + Nat.min k (length stream))) = count) by lia.
        repeat split.
        -- rewrite Hb, <- app_assoc. f_equal.
           replace count with (k + (count - k)) at 1 by lia. rewrite firstn_add_split. f_equal.
           destruct (le_lt_dec k (length stream)) as [Hle|Hgt].
           ++ f_equal. lia.
           ++ rewrite skipn_all2 by lia. now rewrite !firstn_nil.
        -- rewrite Hs, skipn_skipn.
           destruct (le_lt_dec k (length stream)) as [Hle|Hgt].
           ++ f_equal. lia.
           ++ rewrite !skipn_all2; auto; lia.
        -- lia.
      * rewrite app_length, firstn_length, skipn_length in IH. lia.
Qed.

(* ---------- the handshake over a socket = exact reads on the reply stream ---------- *)
Theorem hs_spec : forall fuel c st stream ks sent,
  hs fuel c st [] stream ks sent = spec fuel c st stream sent.
Proof.
  induction fuel as [|fuel IH]; intros c st stream ks sent; cbn [hs spec]; auto.
  pose proof (recv_until_exact (length stream) (need st) [] stream ks (le_n _)) as H.
  destruct (recv_until (length stream) (need st) [] stream ks) as [[[b s] ks']|].
  - cbn [length app] in H. rewrite Nat.sub_0_r in H. destruct H as (-> & -> & Hn).
    assert (E : (length stream <? need st) = false) by (apply Nat.ltb_ge; lia).
    rewrite E.
    assert (Hl : length (firstn (need st) stream) = need st) by (rewrite firstn_length; lia).
    rewrite firstn_all2 by lia. rewrite (skipn_all2 (firstn (need st) stream)) by lia.
    destruct (decide c st (firstn (need st) stream)); auto.
  - cbn [length] in H. assert (E : (length stream <? need st) = true) by (apply Nat.ltb_lt; lia).
    now rewrite E.
Qed.

Theorem segmentation_independent c stream ks ks' :
  handshake c stream ks = handshake c stream ks'.
Proof. unfold handshake. now rewrite !hs_spec. Qed.

Theorem handshake_is_spec c stream ks : handshake c stream ks = handshake_spec c stream.
Proof. unfold handshake, handshake_spec. apply hs_spec. Qed.

(* ---------- the fuel 8 is never exhausted ---------- *)
Definition rank (st : state) : nat :=
  match st with Start => 6 | S5First => 5 | S5Auth => 4 | S5Conn => 3 | S5Rest _ => 1 | S4First => 1 end.

Lemma decide_rank c st d :
  match decide c st d with
  | Send _ nx | Continue nx => rank nx < rank st
  | _ => True
  end.
Proof.
  destruct st; cbn [decide].
  - destruct (c_proto c); cbn; lia.
  - destruct (negb _); auto. destruct (negb _); auto.
  - destruct (negb _); auto. destruct (negb _); auto. destruct (N.eqb _ _); cbn; lia.
  - destruct (negb _); auto. destruct (negb _); cbn; auto.
  - destruct (_ || _); auto. destruct (negb _); cbn; auto.
  - exact I.
Qed.

Lemma spec_fuel : forall fuel c st stream sent,
  rank st < fuel -> o_res (spec fuel c st stream sent) <> OutOfFuel.
Proof.
  induction fuel as [|fuel IH]; intros c st stream sent H; [lia|]. cbn [spec].
  destruct (length stream <? need st); [discriminate|].
  pose proof (decide_rank c st (firstn (need st) stream)) as Hr.
  destruct (decide c st (firstn (need st) stream)); cbn; try discriminate; apply IH; lia.
Qed.

Theorem handshake_total c stream ks : o_res (handshake c stream ks) <> OutOfFuel.
Proof. rewrite handshake_is_spec. apply spec_fuel. cbn. lia. Qed.

(* ---------- C17: the outcome as a function of the reply bytes ---------- *)
(* Independent reading of the reply formats (SOCKS4 protocol note; RFC 1928 s.3, s.6;
   RFC 1929 s.2).  [RGrant rest]: well formed and granting, [rest] = what follows the
   handshake; [RRefuse]: a refusal; [RMalformed]: malformed or truncated. *)
Inductive rfc := RGrant (rest : bytes) | RRefuse | RMalformed.

Definition rfc4 (s : bytes) : rfc :=
  match s with
  | vn :: cd :: _ :: _ :: _ :: _ :: _ :: _ :: rest =>
      if negb (N.eqb vn 0) then RMalformed else if N.eqb cd 90 then RGrant rest else RRefuse
  | _ => RMalformed
  end.

Definition rfc5_connect (s : bytes) : rfc :=
  match s with
  | ver :: rep :: rsv :: atyp :: a0 :: _ =>
      if negb (N.eqb ver 5) || negb (N.eqb rsv 0) || negb (mem atyp [1; 3; 4]%N) then RMalformed
      else if negb (N.eqb rep 0) then RRefuse
      else let alen := if N.eqb atyp 1 then 4 else if N.eqb atyp 3 then 1 + N.to_nat a0 else 16 in
           let total := 4 + alen + 2 in
           if total <=? length s then RGrant (skipn total s) else RMalformed
  | _ => RMalformed
  end.

Definition rfc5_auth (s : bytes) : rfc :=
  match s with
  | ver :: status :: rest =>
      if negb (N.eqb ver 1) then RMalformed else if N.eqb status 0 then RGrant rest else RRefuse
  | _ => RMalformed
  end.

Definition rfc5 (offered : bytes) (s : bytes) : rfc :=
  match s with
  | ver :: m :: rest =>
      if negb (N.eqb ver 5) then RMalformed
      else if negb (mem m offered) then RRefuse
      else if N.eqb m 2 then
             match rfc5_auth rest with RGrant rest' => rfc5_connect rest' | r => r end
      else rfc5_connect rest
  | _ => RMalformed
  end.

Definition rfc_of (o : outcome) : rfc :=
  match o_res o with
  | Done => RGrant (o_left o)
  | Raised Failure => RRefuse
  | _ => RMalformed
  end.

Ltac dl s := destruct s as [|? s]; [reflexivity|].

Theorem socks4_outcome c s : c_proto c <> P5 -> rfc_of (handshake_spec c s) = rfc4 s.
Proof.
  intros Hp. unfold handshake_spec. cbn [spec need Nat.ltb Nat.leb decide].
  assert (E : (length s <? 0) = false) by reflexivity.
  destruct (c_proto c) eqn:Ep; try contradiction; cbn [spec need firstn skipn].
  all: destruct (length s <? 8) eqn:E8;
    [ apply Nat.ltb_lt in E8; do 8 (destruct s as [|? s]; [reflexivity|]); cbn in E8; lia |].
  all: apply Nat.ltb_ge in E8; do 8 (destruct s as [|? s]; [cbn in E8; lia|]).
  all: cbn [firstn skipn decide nth0 nth rfc4]; unfold s4_granted.
  all: destruct (negb (N.eqb n 0)); [reflexivity|].
  all: destruct (N.eqb n0 90); reflexivity.
Qed.

Lemma spec_conn : forall f c s sent,
  rfc_of (spec (S (S f)) c S5Conn s sent) = rfc5_connect s.
Proof.
  intros f c s sent. cbn [spec need].
  destruct (length s <? 5) eqn:E5.
  { apply Nat.ltb_lt in E5. do 5 (destruct s as [|? s]; [reflexivity|]). cbn in E5. lia. }
  apply Nat.ltb_ge in E5. do 5 (destruct s as [|? s]; [cbn in E5; lia|]).
  cbn [firstn skipn decide nth0 nth rfc5_connect]. unfold s5_version, s5_atyps.
  destruct (negb (N.eqb n 5) || negb (N.eqb n1 0) || negb (mem n2 [1; 3; 4]%N)); [reflexivity|].
  destruct (negb (N.eqb n0 0)); [reflexivity|].
  set (k := if N.eqb n2 1 then 3 else if N.eqb n2 3 then N.to_nat n3 else 15).
  set (alen := if N.eqb n2 1 then 4 else if N.eqb n2 3 then 1 + N.to_nat n3 else 16).
  assert (Hk : alen = k + 1) by (subst k alen; destruct (N.eqb n2 1); [lia|]; destruct (N.eqb n2 3); lia).
  cbn [spec need].
  destruct (length s <? k + 2) eqn:El.
  - apply Nat.ltb_lt in El. cbn [rfc_of o_res].
    assert (E : (4 + alen + 2 <=? length (n :: n0 :: n1 :: n2 :: n3 :: s)) = false).
    { apply Nat.leb_gt. cbn [length]. lia. }
    now rewrite E.
  - apply Nat.ltb_ge in El. cbn [decide rfc_of o_res o_left].
    assert (E : (4 + alen + 2 <=? length (n :: n0 :: n1 :: n2 :: n3 :: s)) = true).
    { apply Nat.leb_le. cbn [length]. lia. }
    rewrite E. f_equal.
    replace (4 + alen + 2) with (5 + (k + 2)) by lia. reflexivity.
Qed.

Lemma spec_S f c st s sent :
  spec (S f) c st s sent =
  if length s <? need st then {| o_res := Eof; o_sent := sent; o_left := [] |}
  else match decide c st (firstn (need st) s) with
       | Raise k => {| o_res := Raised k; o_sent := sent; o_left := skipn (need st) s |}
       | Send m nx => spec f c nx (skipn (need st) s) (sent ++ [m])
       | Continue nx => spec f c nx (skipn (need st) s) sent
       | Finish => {| o_res := Done; o_sent := sent; o_left := skipn (need st) s |}
       end.
Proof. reflexivity. Qed.

Theorem socks5_outcome c s : c_proto c = P5 ->
  rfc_of (handshake_spec c s) = rfc5 (auth_methods (c_auth c)) s.
Proof.
  intros Hp. unfold handshake_spec. rewrite spec_S. cbn [need Nat.ltb Nat.leb decide firstn skipn].
  rewrite Hp. rewrite spec_S. cbn [need].
  destruct (length s <? 2) eqn:E2.
  { apply Nat.ltb_lt in E2. do 2 (destruct s as [|? s]; [reflexivity|]). cbn in E2. lia. }
  apply Nat.ltb_ge in E2. do 2 (destruct s as [|? s]; [cbn in E2; lia|]).
  cbn [firstn skipn decide nth0 nth rfc5]. unfold s5_version.
  destruct (negb (N.eqb n 5)); [reflexivity|].
  destruct (negb (mem n0 (auth_methods (c_auth c)))); [reflexivity|].
  destruct (N.eqb n0 2).
  - rewrite spec_S. cbn [need]. destruct (length s <? 2) eqn:E3.
    { apply Nat.ltb_lt in E3. do 2 (destruct s as [|? s]; [reflexivity|]). cbn in E3. lia. }
    apply Nat.ltb_ge in E3. do 2 (destruct s as [|? s]; [cbn in E3; lia|]).
    cbn [firstn skipn decide nth0 nth rfc5_auth]. unfold s5_auth_version.
    destruct (negb (N.eqb n1 1)); [reflexivity|].
    destruct (N.eqb n2 0); cbn [negb]; [|reflexivity].
    apply spec_conn.
  - apply spec_conn.
Qed.

(* ---------- C16: what is sent, read by an independent server-side parser ---------- *)
Definition no_nul (l : bytes) : Prop := forallb (fun b => negb (N.eqb b 0)) l = true.

Lemma until_nul_app f r : no_nul f -> until_nul (f ++ 0%N :: r) = Some (f, r).
Proof.
  unfold no_nul. induction f as [|b f IH]; cbn; auto.
  intros H. apply andb_true_iff in H as [H1 H2]. apply negb_true_iff in H1. rewrite H1.
  now rewrite IH.
Qed.

Definition is_marker (ip : bytes) : bool :=
  match ip with
  | [a; b; c; d] => N.eqb a 0 && N.eqb b 0 && N.eqb c 0 && negb (N.eqb d 0)
  | _ => false
  end.

Definition user_of (c : cfg) : bytes := match c_auth c with Some a => a_user a | None => [] end.

Lemma be2 port : exists p1 p0, be_bytes 2 port = [p1; p0].
Proof.
  pose proof (be_bytes_length 2 port) as H.
  destruct (be_bytes 2 port) as [|p1 [|p0 [|? ?]]]; try discriminate. eauto.
Qed.

Theorem socks4_exact c a :
  c_dest c = DV4 a -> length a = 4 -> is_marker a = false ->
  (c_port c < 65536)%N -> no_nul (user_of c) ->
  srv_parse4 (start4 c) =
    Some {| r4_cmd := 1; r4_port := c_port c; r4_ip := a; r4_user := user_of c; r4_host := None |}.
Proof.
  intros Hd Hl Hm Hp Hu. unfold start4. rewrite Hd. fold (user_of c).
  destruct a as [|i1 [|i2 [|i3 [|i4 [|? ?]]]]]; try discriminate.
  destruct (be2 (c_port c)) as (p1 & p0 & Eb). rewrite Eb.
  unfold s4_request_prefix. cbn [app srv_parse4].
  rewrite until_nul_app by exact Hu.
  cbn [is_marker] in Hm. rewrite Hm. rewrite <- Eb, be_value_bytes; auto.
Qed.

Theorem socks4a_exact c h :
  c_dest c = DHost h -> (c_port c < 65536)%N -> no_nul (user_of c) -> no_nul h ->
  srv_parse4 (start4 c) =
    Some {| r4_cmd := 1; r4_port := c_port c; r4_ip := [0; 0; 0; 1]%N; r4_user := user_of c;
            r4_host := Some h |}.
Proof.
  intros Hd Hp Hu Hh. unfold start4. rewrite Hd. fold (user_of c).
  destruct (be2 (c_port c)) as (p1 & p0 & Eb). rewrite Eb.
  unfold s4_request_prefix, s4a_marker_ip. cbn [app srv_parse4].
  rewrite until_nul_app by exact Hu. cbn [N.eqb andb negb].
  rewrite until_nul_app by exact Hh. rewrite <- Eb, be_value_bytes; auto.
Qed.

(* a client that was constructed has a NUL-free user id (fix of F16) *)
Lemma has_nul_no_nul l : has_nul l = false -> no_nul l.
Proof.
  unfold has_nul, no_nul. induction l as [|b l IH]; cbn; auto.
  intros H. apply orb_false_iff in H as [H1 H2]. rewrite H1. cbn. auto.
Qed.

Theorem constructed_user_no_nul c :
  c_proto c <> P5 -> construct c = None -> no_nul (user_of c).
Proof.
  intros Hp. unfold construct, user_of, check_user_id.
  destruct (check_remote_host c); [discriminate|].
  destruct (c_proto c); try contradiction.
  all: destruct (c_auth c) as [a|]; [|reflexivity].
  all: destruct (has_nul (a_user a)) eqn:E; [discriminate|]; intros _; now apply has_nul_no_nul.
Qed.

Theorem socks5_greeting_exact c :
  srv_parse_greeting (start5 c) = Some (match c_auth c with Some _ => [0; 2]%N | None => [0]%N end).
Proof. unfold start5, auth_methods. destruct (c_auth c); reflexivity. Qed.

Theorem socks5_auth_exact a :
  authentication (Some a) = None ->
  srv_parse_auth (auth_bytes (Some a)) = Some (a_user a, a_pass a).
Proof.
  unfold authentication, auth_len_ok, s5_auth_len_bound.
  destruct ((0 <? length (a_user a)) && (length (a_user a) <? 256)) eqn:Eu; [|discriminate].
  destruct ((0 <? length (a_pass a)) && (length (a_pass a) <? 256)) eqn:Ep; [|discriminate].
  intros _. apply andb_true_iff in Eu as [Eu1 Eu2]. apply andb_true_iff in Ep as [Ep1 Ep2].
  apply Nat.ltb_lt in Eu1, Eu2, Ep1, Ep2.
  unfold auth_bytes, s5_auth_version. cbn [srv_parse_auth]. rewrite !Nat2N.id.
  rewrite firstn_app_exact, skipn_app_exact. rewrite Nat2N.id.
  assert (E1 : (length (a_user a) =? length (a_user a)) = true) by apply Nat.eqb_refl.
  assert (E2 : (length (a_pass a) =? length (a_pass a)) = true) by apply Nat.eqb_refl.
  assert (E3 : (0 <? length (a_user a)) = true) by (apply Nat.ltb_lt; lia).
  assert (E4 : (0 <? length (a_pass a)) = true) by (apply Nat.ltb_lt; lia).
  now rewrite E1, E2, E3, E4.
Qed.

Definition dest_wf (d : dest) : Prop :=
  match d with
  | DV4 a => length a = 4
  | DV6 a => length a = 16
  | DHost h => length h <= 255
  end.

Theorem socks5_connect_exact c :
  dest_wf (c_dest c) -> (c_port c < 65536)%N ->
  srv_parse_connect (request_connection c) = Some (1%N, c_dest c, c_port c).
Proof.
  intros Hw Hp. unfold request_connection, destination_bytes, s5_connect_prefix,
    s5_atyp_v4, s5_atyp_v6, s5_atyp_host.
  destruct (be2 (c_port c)) as (p1 & p0 & Eb). rewrite Eb.
  assert (Hv : be_value [p1; p0] = c_port c) by (rewrite <- Eb; apply be_value_bytes; auto).
  destruct (c_dest c) as [a|a|h]; cbn [dest_wf] in Hw; cbn [app srv_parse_connect N.eqb Pos.eqb].
  - rewrite app_length. cbn [length]. assert (E : (4 <=? length a + 2) = true) by (apply Nat.leb_le; lia).
    rewrite E, <- Hw, firstn_app_exact, skipn_app_exact, Hv. reflexivity.
  - rewrite app_length. cbn [length]. assert (E : (16 <=? length a + 2) = true) by (apply Nat.leb_le; lia).
    rewrite E, <- Hw, firstn_app_exact, skipn_app_exact, Hv. reflexivity.
  - rewrite Nat2N.id, app_length. cbn [length].
    assert (E : (length h <=? length h + 2) = true) by (apply Nat.leb_le; lia).
    rewrite E, firstn_app_exact, skipn_app_exact, Hv. reflexivity.
Qed.

(* which messages are sent, depending on the proxy's replies *)
Definition expected_sent5 (c : cfg) (s : bytes) : list bytes :=
  start5 c ::
  match s with
  | ver :: m :: rest =>
      if N.eqb ver 5 && mem m (auth_methods (c_auth c)) then
        if N.eqb m 2 then
          auth_bytes (c_auth c) ::
          match rest with
          | v :: st :: _ => if N.eqb v 1 && N.eqb st 0 then [request_connection c] else []
          | _ => []
          end
        else [request_connection c]
      else []
  | _ => []
  end.

Lemma spec_conn_sent : forall f c s sent, o_sent (spec (S (S f)) c S5Conn s sent) = sent.
Proof.
  intros f c s sent. rewrite spec_S. destruct (length s <? need S5Conn); [reflexivity|].
  destruct (decide c S5Conn (firstn (need S5Conn) s)) eqn:Ed; try reflexivity.
  - cbn [decide] in Ed. destruct (_ || _); [discriminate|]. destruct (negb _); discriminate.
  - cbn [decide] in Ed. destruct (_ || _); [discriminate|]. destruct (negb _); [discriminate|].
    injection Ed as <-. rewrite spec_S. destruct (_ <? _); reflexivity.
Qed.

Theorem socks5_sent c s : c_proto c = P5 ->
  o_sent (handshake_spec c s) = expected_sent5 c s.
Proof.
  intros Hp. unfold handshake_spec, expected_sent5. rewrite spec_S.
  cbn [need Nat.ltb Nat.leb decide firstn skipn]. rewrite Hp. rewrite spec_S. cbn [need app].
  destruct (length s <? 2) eqn:E2.
  { apply Nat.ltb_lt in E2. do 2 (destruct s as [|? s]; [reflexivity|]). cbn in E2. lia. }
  apply Nat.ltb_ge in E2. do 2 (destruct s as [|? s]; [cbn in E2; lia|]).
  cbn [firstn skipn decide nth0 nth]. unfold s5_version.
  destruct (N.eqb n 5); cbn [negb andb]; [|reflexivity].
  destruct (mem n0 (auth_methods (c_auth c))); cbn [negb]; [|reflexivity].
  destruct (N.eqb n0 2).
  - rewrite spec_S. cbn [need app]. destruct (length s <? 2) eqn:E3.
    { apply Nat.ltb_lt in E3. do 2 (destruct s as [|? s]; [reflexivity|]). cbn in E3. lia. }
    apply Nat.ltb_ge in E3. do 2 (destruct s as [|? s]; [cbn in E3; lia|]).
    cbn [firstn skipn decide nth0 nth]. unfold s5_auth_version.
    destruct (N.eqb n1 1); cbn [negb andb]; [|reflexivity].
    destruct (N.eqb n2 0); cbn [negb]; [|reflexivity].
    now rewrite spec_conn_sent.
  - now rewrite spec_conn_sent.
Qed.

(* the credential message goes out only if the proxy selected method 2 and credentials exist *)
Corollary auth_only_if_selected c s : c_proto c = P5 ->
  nth_error (o_sent (handshake_spec c s)) 1 = Some (auth_bytes (c_auth c)) ->
  auth_bytes (c_auth c) <> request_connection c ->
  exists rest, s = 5%N :: 2%N :: rest /\ c_auth c <> None.
Proof.
  intros Hp. rewrite (socks5_sent c s Hp). unfold expected_sent5.
  destruct s as [|ver [|m rest]]; try discriminate.
  destruct (N.eqb ver 5) eqn:Ev; cbn [andb]; [|discriminate].
  destruct (mem m (auth_methods (c_auth c))) eqn:Em; [|discriminate].
  destruct (N.eqb m 2) eqn:E2.
  - intros _ _. apply N.eqb_eq in Ev, E2. subst. exists rest. split; auto.
    intros Hn. rewrite Hn in Em. discriminate.
  - cbn. intros H Hne. injection H as H. congruence.
Qed.

Theorem socks4_sent c s : c_proto c <> P5 -> o_sent (handshake_spec c s) = [start4 c].
Proof.
  intros Hp. unfold handshake_spec. rewrite spec_S. cbn [need Nat.ltb Nat.leb decide firstn skipn].
  destruct (c_proto c); try contradiction; rewrite spec_S; cbn [app];
    destruct (_ <? _); try reflexivity; cbn [decide];
    destruct (negb _); try reflexivity; destruct (negb _); reflexivity.
Qed.

(* what the constructors reject, before anything is sent *)
Definition user_has_nul (c : cfg) : Prop :=
  match c_auth c with Some a => has_nul (a_user a) = true | None => False end.

Theorem rejections c :
  construct c = Some ProtoErr <->
  match c_proto c, c_dest c with
  | P4, DV4 _ => user_has_nul c
  | P4, _ => True
  | P4a, DV6 _ => True
  | P4a, _ => user_has_nul c
  | P5, _ => match c_auth c with
             | Some a => length (a_user a) = 0 \/ 256 <= length (a_user a) \/
                         length (a_pass a) = 0 \/ 256 <= length (a_pass a)
             | None => False
             end
  end.
Proof.
  unfold construct, check_remote_host, authentication, auth_len_ok, s5_auth_len_bound,
    check_user_id, user_has_nul.
  destruct (c_proto c), (c_dest c); try (split; auto; fail).
  1-3: destruct (c_auth c) as [au|]; [destruct (has_nul (a_user au)); split; auto; discriminate
                                    | split; [discriminate|contradiction]].
  all: destruct (c_auth c) as [au|]; [|split; [discriminate|contradiction]].
  all: destruct (Nat.ltb_spec 0 (length (a_user au))); destruct (Nat.ltb_spec (length (a_user au)) 256);
       destruct (Nat.ltb_spec 0 (length (a_pass au))); destruct (Nat.ltb_spec (length (a_pass au)) 256);
       cbn [andb]; (split; [try discriminate; intros _; lia | try (intros; exfalso; lia); auto]).
Qed.
