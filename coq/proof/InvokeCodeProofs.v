From AV Require Import Base Gen_jsonrpc Invoke InvokeCode.

Lemma filter_nil_forallb {A} (f : A -> bool) l : (match filter (fun x => negb (f x)) l with [] => false | _ => true end) = negb (forallb f l).
Proof. induction l as [|a l IH]; cbn; [reflexivity|]. destruct (f a); cbn; auto. Qed.

Lemma filter_filter_nil (f g : N -> bool) l :
  (match filter (fun x => negb (g x)) (filter (fun x => negb (f x)) l) with [] => false | _ => true end) =
  negb (forallb (fun x => f x || g x) l).
Proof. induction l as [|a l IH]; cbn; [reflexivity|]. destruct (f a); cbn; auto. destruct (g a); cbn; auto. Qed.

Theorem generated_invocation_is_model handler c :
  invocation_generated handler c = HDone (handler_invocation handler c).
Proof.
  unfold invocation_generated, handler_invocation, invocation_code. destruct handler as [s|]; [|reflexivity].
  cbn [option_map]. set (i := signature_info s). unfold accept. destruct c as [n|given].
  - cbn [hrun htest h_handler h_call]. destruct (n <? min_args i); [reflexivity|]. cbn [negb andb].
    destruct (max_args i) as [m|].
    + destruct (m <? n); [reflexivity|]. cbn [negb andb]. destruct (required_kwonly i); reflexivity.
    + cbn [andb]. destruct (required_kwonly i); reflexivity.
  - cbn [hrun htest h_handler h_call h_missing h_excess given_of].
    destruct (other_names i) as [| |l] eqn:Eo.
    + reflexivity.
    + rewrite (filter_nil_forallb (fun r => mem r given) (required_names i)).
      destruct (forallb (fun r => mem r given) (required_names i)); reflexivity.
    + rewrite (filter_nil_forallb (fun r => mem r given) (required_names i)).
      destruct (forallb (fun r => mem r given) (required_names i)); [|reflexivity]. cbn [negb andb].
      rewrite (filter_filter_nil (fun g => mem g (required_names i)) (fun g => mem g l) given).
      destruct (forallb (fun g => mem g (required_names i) || mem g l) given); reflexivity.
Qed.

Fixpoint hknown (fuel : nat) (ss : list hstmt) : bool :=
  match fuel with
  | O => false
  | S f => forallb (fun s => match s with
                             | HSUnknown => false
                             | HIf HCUnknown _ => false
                             | HIf _ b => hknown f b
                             | _ => true end) ss
  end.
Theorem invocation_code_known : hknown 6 invocation_code = true.
Proof. reflexivity. Qed.
