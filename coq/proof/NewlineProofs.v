(* Proofs about the NewlineFramer model (model/Newline.v). *)
From AV Require Import Base Newline.

(* ---------- the stream splitter ---------- *)
Definition tail_of (w : bytes) : bytes := tail (split_of w).

Lemma split_of_snoc w b : split_of (w ++ [b]) = sstep (split_of w) b.
Proof. unfold split_of. now rewrite fold_left_app. Qed.

Lemma segments_snoc_nl w : segments (w ++ [NL]) = segments w ++ [tail_of w].
Proof. unfold segments, tail_of. rewrite split_of_snoc. unfold sstep. now rewrite N.eqb_refl. Qed.
Lemma tail_snoc_nl w : tail_of (w ++ [NL]) = [].
Proof. unfold tail_of. rewrite split_of_snoc. unfold sstep. now rewrite N.eqb_refl. Qed.
Lemma segments_snoc_other w b : N.eqb b NL = false -> segments (w ++ [b]) = segments w.
Proof. intros H. unfold segments. rewrite split_of_snoc. unfold sstep. now rewrite H. Qed.
Lemma tail_snoc_other w b : N.eqb b NL = false -> tail_of (w ++ [b]) = tail_of w ++ [b].
Proof. intros H. unfold tail_of. rewrite split_of_snoc. unfold sstep. now rewrite H. Qed.

(* [split_of] really is "split at newlines": the pieces reassemble to the stream and
   contain no newline; this characterises it uniquely. *)
Definition no_nl (l : bytes) : Prop := ~ In NL l.

Lemma split_of_spec w :
  concat (map frame (segments w)) ++ tail_of w = w /\
  Forall no_nl (segments w) /\ no_nl (tail_of w).
Proof.
  induction w as [|b w IH] using rev_ind.
  - cbn. repeat split; auto. intros [].
  - destruct IH as (E & F & T). destruct (N.eqb b NL) eqn:Eb.
    + apply N.eqb_eq in Eb; subst b.
      rewrite segments_snoc_nl, tail_snoc_nl, map_app, concat_app. cbn.
      rewrite !app_nil_r. unfold frame at 2. rewrite app_assoc, E. repeat split; auto.
      * apply Forall_app; split; auto.
      * intros [].
    + rewrite segments_snoc_other, tail_snoc_other by auto. rewrite app_assoc, E.
      repeat split; auto. intros Hin. apply in_app_or in Hin as [Hin|[Hin|[]]]; auto.
      rewrite Hin in Eb. now rewrite N.eqb_refl in Eb.
Qed.

(* ---------- fits ---------- *)
Lemma fits_nil max : fits max [] = true.
Proof. unfold fits. cbn. reflexivity. Qed.

Lemma fits_app_l max a b : fits max (a ++ b) = true -> fits max a = true.
Proof.
  unfold fits. rewrite app_length. intros H. apply orb_true_iff in H as [H|H].
  - apply Nat.leb_le in H. apply orb_true_iff; left. apply Nat.leb_le. lia.
  - rewrite H. apply orb_true_r.
Qed.
Lemma unfit_app_r max a b : fits max a = false -> fits max (a ++ b) = false.
Proof.
  intros H. destruct (fits max (a ++ b)) eqn:E; auto. apply fits_app_l in E. congruence.
Qed.
Lemma unfit_length max a : fits max a = false -> 0 < max /\ max < length a.
Proof.
  unfold fits. intros H. apply orb_false_iff in H as [H1 H2].
  apply Nat.leb_gt in H1. apply Nat.eqb_neq in H2. lia.
Qed.
Lemma fits_length max a : fits max a = true -> length a <= max \/ max = 0.
Proof.
  unfold fits. intros H. apply orb_true_iff in H as [H|H].
  - left. now apply Nat.leb_le.
  - right. now apply Nat.eqb_eq.
Qed.

(* ---------- the specification: how outputs may relate to the stream ---------- *)
(* Read left to right over the stream.  A segment is delivered whole at its newline
   unless a MemoryError was signalled while it was being received; a MemoryError can be
   signalled only while the partial segment received so far already exceeds the limit.
   The boolean says whether a MemoryError has been signalled for the current segment. *)
Inductive Expl (max : nat) : list result -> bytes -> bool -> Prop :=
| X_nil  : Expl max [] [] false
| X_byte : forall o w p b, N.eqb b NL = false -> Expl max o w p -> Expl max o (w ++ [b]) p
| X_msg  : forall o w, Expl max o w false -> Expl max (o ++ [Msg (tail_of w)]) (w ++ [NL]) false
| X_drop : forall o w, Expl max o w true -> Expl max o (w ++ [NL]) false
| X_mem  : forall o w p, Expl max o w p -> fits max (tail_of w) = false ->
                         Expl max (o ++ [MemErr]) w true.

Lemma Expl_pending_unfit max o w : Expl max o w true -> fits max (tail_of w) = false.
Proof.
  remember true as p eqn:Hp. intros H. induction H; try discriminate; auto.
  rewrite tail_snoc_other by auto. apply unfit_app_r. auto.
Qed.

(* ---------- invariants ---------- *)
Definition SInv (max : nat) (st : fstate) (cur w : bytes) : Prop :=
  Expl max (outs st) w (sync st) /\ fits max (acc st) = true /\
  (sync st = false -> acc st ++ cur = tail_of w) /\
  (sync st = true -> exists pre, tail_of w = pre ++ acc st ++ cur /\ fits max pre = false).

Definition Inv (max : nat) (st : fstate) (w : bytes) : Prop := SInv max st [] w.

Lemma scan_inv max : forall part st cur w,
  SInv max st cur w ->
  SInv max (fst (scan st cur part)) (snd (scan st cur part)) (w ++ part).
Proof.
  induction part as [|b rest IH]; intros st cur w H.
  - cbn. now rewrite app_nil_r.
  - replace (w ++ b :: rest) with ((w ++ [b]) ++ rest) by (now rewrite <- app_assoc).
    cbn [scan]. destruct H as (HE & HF & HN & HS).
    destruct (N.eqb b NL) eqn:Eb.
    + apply N.eqb_eq in Eb; subst b. destruct (sync st) eqn:Es.
      * apply IH. unfold SInv; cbn. repeat split.
        -- now apply X_drop.
        -- rewrite tail_snoc_nl. reflexivity.
        -- discriminate.
      * apply IH. unfold SInv; cbn. repeat split.
        -- rewrite (HN eq_refl). now apply X_msg.
        -- rewrite tail_snoc_nl. reflexivity.
        -- discriminate.
    + apply IH. unfold SInv. repeat split; auto.
      * now apply X_byte.
      * intros Hs. rewrite tail_snoc_other by auto. rewrite <- (HN Hs). now rewrite app_assoc.
      * intros Hs. destruct (HS Hs) as (pre & E & Hp). exists pre. split; auto.
        rewrite tail_snoc_other by auto. rewrite E. now rewrite <- !app_assoc.
Qed.

Lemma feed_inv max st w c : Inv max st w -> Inv max (feed max st c) (w ++ c).
Proof.
  intros H. unfold feed. pose proof (scan_inv max c st [] w H) as HS.
  destruct (scan st [] c) as [st1 cur]. cbn [fst snd] in HS.
  destruct HS as (HE & HF & HN & HT).
  destruct (fits max (acc st1 ++ cur)) eqn:Ef.
  - unfold Inv, SInv; cbn. rewrite app_nil_r. repeat split; auto.
  - assert (Hu : fits max (tail_of (w ++ c)) = false).
    { destruct (sync st1) eqn:Es.
      - destruct (HT eq_refl) as (pre & E & Hp). rewrite E. now apply unfit_app_r.
      - rewrite <- (HN eq_refl). exact Ef. }
    unfold Inv, SInv; cbn. repeat split.
    + eapply X_mem; eauto.
    + discriminate.
    + intros _. exists (tail_of (w ++ c)). now rewrite app_nil_r.
Qed.

Lemma init_inv max : Inv max init [].
Proof.
  unfold Inv, SInv; cbn. repeat split; try discriminate. constructor.
Qed.

Lemma run_from_inv max : forall cs st w, Inv max st w -> Inv max (run_from max st cs) (w ++ concat cs).
Proof.
  induction cs as [|c cs IH]; intros st w H; cbn.
  - now rewrite app_nil_r.
  - rewrite app_assoc. apply IH. now apply feed_inv.
Qed.

Theorem run_inv max cs : Inv max (run max cs) (concat cs).
Proof. apply (run_from_inv max cs init []). apply init_inv. Qed.

(* Main theorem: for EVERY chunking, the results are explained by the stream. *)
Theorem run_explained max cs : Expl max (outs (run max cs)) (concat cs) (sync (run max cs)).
Proof. exact (proj1 (run_inv max cs)). Qed.

(* ---------- consequences of Expl, in the words of the property ---------- *)
Inductive sublist {A} : list A -> list A -> Prop :=
| sl_nil  : sublist [] []
| sl_skip : forall a b x, sublist a b -> sublist a (b ++ [x])
| sl_keep : forall a b x, sublist a b -> sublist (a ++ [x]) (b ++ [x]).

Lemma msgs_of_app a b : msgs_of (a ++ b) = msgs_of a ++ msgs_of b.
Proof. unfold msgs_of. now rewrite flat_map_app. Qed.

(* delivered messages are whole segments of the stream, in stream order *)
Lemma Expl_sublist max o w p : Expl max o w p -> sublist (msgs_of o) (segments w).
Proof.
  induction 1.
  - constructor.
  - now rewrite segments_snoc_other.
  - rewrite segments_snoc_nl, msgs_of_app. cbn. now apply sl_keep.
  - rewrite segments_snoc_nl. now apply sl_skip.
  - rewrite msgs_of_app. cbn. now rewrite app_nil_r.
Qed.

(* selection by a mask: which segments were delivered *)
Fixpoint select {A} (mask : list bool) (l : list A) : list A :=
  match mask, l with
  | m :: mask', x :: l' => if m then x :: select mask' l' else select mask' l'
  | _, _ => []
  end.
Lemma select_snoc {A} mask (l : list A) m x :
  length mask = length l ->
  select (mask ++ [m]) (l ++ [x]) = select mask l ++ (if m then [x] else []).
Proof.
  revert l; induction mask as [|m0 mask IH]; intros [|y l] Hl; try discriminate.
  - cbn. destruct m; auto.
  - cbn in Hl. injection Hl as Hl. cbn. destruct m0; cbn; now rewrite IH.
Qed.

Definition count_mem (o : list result) : nat :=
  count_true (fun r => match r with MemErr => true | _ => false end) o.
Lemma count_mem_app a b : count_mem (a ++ b) = count_mem a + count_mem b.
Proof. unfold count_mem. induction a as [|x a IH]; cbn; auto. rewrite IH. lia. Qed.
Definition dropped (mask : list bool) : nat := count_true negb mask.
Lemma dropped_app a b : dropped (a ++ b) = dropped a + dropped b.
Proof. unfold dropped. induction a as [|x a IH]; cbn; auto. rewrite IH. lia. Qed.

(* Every segment is either delivered whole, exactly once and in order, or dropped
   entirely; it is dropped only if it exceeds the limit, and every dropped segment was
   signalled by at least one MemoryError of its own. *)
Lemma Expl_mask max o w p : Expl max o w p ->
  exists mask, length mask = length (segments w) /\
    msgs_of o = select mask (segments w) /\
    Forall2 (fun (m : bool) s => m = false -> fits max s = false) mask (segments w) /\
    dropped mask + (if p then 1 else 0) <= count_mem o.
Proof.
  induction 1 as [|o w p b Hb H IH|o w H IH|o w H IH|o w p H IH Hu].
  - exists []. cbn. repeat split; auto.
  - destruct IH as (mask & L & E & F & C). exists mask. rewrite segments_snoc_other by auto.
    repeat split; auto.
  - destruct IH as (mask & L & E & F & C). exists (mask ++ [true]).
    rewrite segments_snoc_nl, msgs_of_app, !app_length, select_snoc by auto. cbn.
    split; [lia|]. split; [now rewrite E|]. split.
    + apply Forall2_app; auto. constructor; auto. discriminate.
    + rewrite dropped_app, count_mem_app. cbn in *. lia.
  - destruct IH as (mask & L & E & F & C). exists (mask ++ [false]).
    rewrite segments_snoc_nl, !app_length, select_snoc by auto. cbn.
    split; [lia|]. split; [now rewrite app_nil_r|]. split.
    + apply Forall2_app; auto. constructor; auto. intros _.
      now apply (Expl_pending_unfit max o w).
    + rewrite dropped_app. cbn in *. lia.
  - destruct IH as (mask & L & E & F & C). exists mask.
    rewrite msgs_of_app, count_mem_app. cbn. rewrite app_nil_r.
    split; [auto|]. split; [auto|]. split; [auto|]. destruct p; lia.
Qed.

(* When no partial or complete segment exceeds the limit the output is fully determined
   by the stream: exactly the segments, no MemoryError. *)
Lemma Expl_all_fit max o w p : Expl max o w p ->
  Forall (fun s => fits max s = true) (segments w) -> fits max (tail_of w) = true ->
  o = map Msg (segments w) /\ p = false.
Proof.
  induction 1 as [|o w p b Hb H IH|o w H IH|o w H IH|o w p H IH Hu]; intros HF HT.
  - auto.
  - rewrite segments_snoc_other in * by auto. rewrite tail_snoc_other in HT by auto.
    apply IH; auto. now apply fits_app_l in HT.
  - rewrite segments_snoc_nl in *. apply Forall_app in HF as [HF1 HF2].
    inversion HF2; subst. destruct (IH HF1) as [-> _]; auto.
    now rewrite map_app.
  - rewrite segments_snoc_nl in *. apply Forall_app in HF as [HF1 HF2].
    inversion HF2; subst. destruct (IH HF1) as [_ ?]; auto. discriminate.
  - congruence.
Qed.

Lemma segments_frame m : no_nl m -> segments (frame m) = [m] /\ tail_of (frame m) = [].
Proof.
  intros Hm. unfold frame. rewrite segments_snoc_nl, tail_snoc_nl.
  assert (H : forall l, no_nl l -> segments l = [] /\ tail_of l = l).
  { induction l as [|b l IH] using rev_ind; intros Hl; [now cbn|].
    assert (N.eqb b NL = false).
    { apply N.eqb_neq. intros ->. apply Hl, in_or_app. right; now left. }
    rewrite segments_snoc_other, tail_snoc_other by auto.
    destruct IH as [-> ->]; auto. intros Hin. apply Hl, in_or_app. now left. }
  destruct (H m Hm) as [-> ->]. auto.
Qed.

(* overshoot: a message delivered while chunk [c] is processed exceeds the limit by less
   than the length of [c] *)
Lemma scan_new max k : forall part st cur,
  fits max (acc st) = true -> length cur + length part <= k ->
  exists new, outs (fst (scan st cur part)) = outs st ++ new /\
    Forall (fun m => max = 0 \/ length m < max + k) (msgs_of new).
Proof.
  induction part as [|b rest IH]; intros st cur Hf Hk; cbn [scan].
  - exists []. cbn. now rewrite app_nil_r.
  - cbn [length] in Hk. destruct (N.eqb b NL).
    + destruct (sync st).
      * destruct (IH {| sync := false; acc := []; outs := outs st |} []) as (new & E & F);
          cbn; auto using fits_nil; try lia. exists new. auto.
      * destruct (IH {| sync := false; acc := []; outs := outs st ++ [Msg (acc st ++ cur)] |} [])
          as (new & E & F); cbn; auto using fits_nil; try lia.
        exists (Msg (acc st ++ cur) :: new). cbn in E. rewrite E, <- app_assoc. split; auto.
        cbn. constructor; auto. rewrite app_length.
        destruct (fits_length _ _ Hf); [right; lia | now left].
    + destruct (IH st (cur ++ [b])) as (new & E & F); auto.
      * rewrite app_length. cbn. lia.
      * exists new. auto.
Qed.

Lemma feed_overshoot : forall max chunks c,
  max <> 0 ->
  let before := run max chunks in
  Forall (fun m => length m < max + length c)
         (skipn (length (msgs_of (outs before)))
                (msgs_of (outs (feed max before c)))).
Proof.
  intros max chunks c Hmax before.
  assert (Hf : fits max (acc before) = true) by (apply (run_inv max chunks)).
  destruct (scan_new max (length c) c before [] Hf) as (new & E & F); [cbn; lia|].
  assert (Hm : msgs_of (outs (feed max before c)) = msgs_of (outs before) ++ msgs_of new).
  { unfold feed. destruct (scan before [] c) as [st1 cur]. cbn [fst] in E.
    destruct (fits max (acc st1 ++ cur)); cbn [outs]; rewrite E, ?msgs_of_app; cbn;
      now rewrite ?app_nil_r. }
  rewrite Hm, skipn_app_exact. eapply Forall_impl; [|exact F].
  intros m [H|H]; [contradiction|exact H].
Qed.
