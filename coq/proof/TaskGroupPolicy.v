(* C10, part 2: join leaves its loop exactly when the wait policy says so.
   (1) the semaphore of next_done counts the queue of finished members (invariant Sem);
   (2) hence next_done returns None only when nothing is pending and nothing is queued;
   (3) the loop is left - other than by cancellation - only after a member that stops it, or under
       the none policy, or when every non-daemon member has been consumed;
   (4) and it never goes on after a member that stops it. *)
From AV Require Import Base Gen_curio TaskGroup TaskGroupProofs TaskGroupOrder.
From Coq Require Import Lia.

Definition b2n (b : bool) : nat := if b then 1 else 0.
Definition is_joiner (h : handle) : bool := match h with HJoiner => true | _ => false end.
Definition njoiner (q : list handle) : nat := length (filter is_joiner q).

Record Sem (g : tg) : Prop := {
  s_count : semv g + b2n (granted g) = length (doneq g);
  s_granted : granted g = true -> pc g = JNextDone /\ wake g <> None;
  s_woken : pc g = JNextDone -> wake g = Some false -> granted g = true;
  s_handle : njoiner (queue g) = match wake g with Some _ => 1 | None => 0 end }.

(* the state right after the joining task has run: nothing granted, no wake-up scheduled *)
Record Quiet (g : tg) : Prop := {
  q_count : semv g = length (doneq g);
  q_granted : granted g = false;
  q_wake : wake g = None;
  q_handle : njoiner (queue g) = 0 }.

Lemma quiet_sem g : Quiet g -> Sem g.
Proof.
  intros [Q1 Q2 Q3 Q4]. split.
  - rewrite Q2. cbn. lia.
  - rewrite Q2. discriminate.
  - rewrite Q3. discriminate.
  - now rewrite Q3.
Qed.

Lemma njoiner_app a b : njoiner (a ++ b) = njoiner a + njoiner b.
Proof. unfold njoiner. now rewrite filter_app, app_length. Qed.
Lemma njoiner_cbs l : njoiner (map HCb l) = 0.
Proof. induction l; cbn; auto. Qed.

(* ---------- the primitive operations ---------- *)
Lemma sem_release_after_append g p t : Sem g ->
  Sem (sem_release (upd_group g p (daemons g) (doneq g ++ [t]) (semv g))).
Proof.
  intros [S1 S2 S3 S4]. unfold sem_release. cbn [pc wake upd_group].
  destruct (pc g) eqn:Ep; try (split; cbn; rewrite ?Ep, ?app_length; cbn; auto; try lia; fail).
  destruct (wake g) eqn:Ew.
  - split; cbn; rewrite ?Ep, ?Ew, ?app_length; cbn; auto; lia.
  - assert (Hg : granted g = false).
    { destruct (granted g) eqn:E; auto. destruct (S2 eq_refl) as [_ H]. congruence. }
    split; cbn [semv granted doneq pc wake queue upd_group upd_joiner upd_queue b2n]; rewrite ?app_length; cbn [length].
    + rewrite Hg in S1. cbn in S1. lia.
    + intros _. split; [now rewrite ?Ep|discriminate].
    + auto.
    + rewrite njoiner_app, S4. reflexivity.
Qed.

Lemma on_done_sem g t : Sem g -> Sem (on_done g t).
Proof.
  intros H. unfold on_done. destruct (get t (members g)); [|exact H]. destruct (m_daemon m).
  - destruct H as [S1 S2 S3 S4]. split; cbn; auto.
  - apply sem_release_after_append. exact H.
Qed.

Lemma sem_same g g' : Sem g -> semv g' = semv g -> granted g' = granted g -> doneq g' = doneq g ->
  pc g' = pc g -> wake g' = wake g -> njoiner (queue g') = njoiner (queue g) -> Sem g'.
Proof.
  intros [S1 S2 S3 S4] E1 E2 E3 E4 E5 E6. split; rewrite ?E1, ?E2, ?E3, ?E4, ?E5, ?E6; auto.
Qed.

Lemma cancel_tasks_semfields g ord :
  semv (cancel_tasks g ord) = semv g /\ granted (cancel_tasks g ord) = granted g /\
  doneq (cancel_tasks g ord) = doneq g /\ pc (cancel_tasks g ord) = pc g /\
  wake (cancel_tasks g ord) = wake g /\ njoiner (queue (cancel_tasks g ord)) = njoiner (queue g) /\
  pending (cancel_tasks g ord) = pending g /\ consumed (cancel_tasks g ord) = consumed g /\
  completed (cancel_tasks g ord) = completed g /\ pol (cancel_tasks g ord) = pol g.
Proof.
  unfold cancel_tasks.
  set (R := fun g g' : tg => semv g' = semv g /\ granted g' = granted g /\ doneq g' = doneq g /\ pc g' = pc g /\
              wake g' = wake g /\ njoiner (queue g') = njoiner (queue g) /\ pending g' = pending g /\
              consumed g' = consumed g /\ completed g' = completed g /\ pol g' = pol g).
  assert (Rrefl : forall g0, R g0 g0) by (intros g0; repeat split).
  assert (Rtrans : forall a b c, R a b -> R b c -> R a c).
  { intros a b c (A1&A2&A3&A4&A5&A6&A7&A8&A9&A10) (B1&B2&B3&B4&B5&B6&B7&B8&B9&B10). repeat split; congruence. }
  assert (F : forall (f : tg -> N -> tg), (forall g0 t, R g0 (f g0 t)) -> forall l g0, R g0 (fold_left f l g0)).
  { intros f Hf. induction l as [|t l IH]; intros g0; cbn; [apply Rrefl|]. eapply Rtrans; [apply Hf|apply IH]. }
  change (R g (fold_left register_pop ord (fold_left cancel_member ord g))).
  eapply Rtrans; apply F.
  - intros g0 t. unfold cancel_member. destruct (get t (members g0)); [|apply Rrefl]. destruct (m_status m); repeat split.
  - intros g0 t. unfold register_pop. destruct (get t (members g0)); [|apply Rrefl].
    destruct (m_status m); repeat split; cbn [queue upd_queue upd_members]; rewrite ?njoiner_app; cbn; lia.
Qed.

(* ---------- the joining coroutine leaves a quiet state ---------- *)
Lemma quiet_same g g' : Quiet g -> semv g' = semv g -> doneq g' = doneq g -> granted g' = false -> wake g' = None ->
  njoiner (queue g') = njoiner (queue g) -> Quiet g'.
Proof. intros [Q1 Q2 Q3 Q4] E1 E2 E3 E4 E5. split; rewrite ?E1, ?E2, ?E5; auto. Qed.

Lemma j_finally_quiet g order exc : Quiet g -> Quiet (j_finally g order exc).
Proof.
  intros H. unfold j_finally. cbv zeta.
  match goal with |- context [match ?x with [] => _ | _ => _ end] => destruct x as [|x0 xs] end.
  - apply (quiet_same g); auto.
  - match goal with |- context [cancel_tasks ?G ?o] =>
      destruct (cancel_tasks_semfields G o) as (E1 & E2 & E3 & E4 & E5 & E6 & _) end.
    apply (quiet_same g); auto; cbn [semv doneq queue upd_joiner]; rewrite ?E1, ?E3, ?E6; reflexivity.
Qed.

Lemma j_loop_quiet order dq : forall g, doneq g = dq -> Quiet g -> Quiet (j_loop dq g order).
Proof.
  induction dq as [|t rest IH]; intros g Hd H; cbn [j_loop]; cbv zeta.
  - destruct (pending g) eqn:Ep; cbn [negb andb].
    + apply j_finally_quiet. exact H.
    + destruct H as [Q1 Q2 Q3 Q4]. rewrite Hd in Q1. cbn in Q1. rewrite Q1. cbn [Nat.eqb].
      apply (quiet_same g); auto. split; auto. now rewrite Hd.
  - cbn [negb andb]. destruct H as [Q1 Q2 Q3 Q4]. rewrite Hd in Q1. cbn [length] in Q1.
    rewrite Q1. cbn [Nat.eqb].
    assert (H3 : Quiet (consume (upd_group g (pending g) (daemons g) (doneq g) (S (length rest) - 1)) t rest)).
    { split; cbn; auto. lia. }
    match goal with |- Quiet (if ?b then _ else _) => destruct b end; [apply j_finally_quiet|apply IH; [reflexivity|]]; exact H3.
Qed.

Lemma join_entry_quiet g order : Quiet g -> Quiet (join_entry g order).
Proof.
  intros H. unfold join_entry. cbv zeta. cbn [pol upd_joiner].
  assert (H0 : Quiet (upd_joiner g (pc g) true (granted g) (wake g) (must_cancel g) false (unfinished g) (joined g)
                                 (completed g) (consumed g))).
  { destruct H as [Q1 Q2 Q3 Q4]. split; cbn; auto. }
  destruct (pol g); [apply j_loop_quiet|apply j_loop_quiet|apply j_loop_quiet|apply j_finally_quiet]; auto.
Qed.

Record PreJ (g : tg) : Prop := {
  p_count : semv g + b2n (granted g) = length (doneq g);
  p_granted : granted g = true -> pc g = JNextDone;
  p_woken : pc g = JNextDone -> wake g = Some false -> granted g = true;
  p_wake : wake g <> None;
  p_handle : njoiner (queue g) = 0 }.

Lemma joiner_step_quiet g order : PreJ g -> Quiet (joiner_step g order).
Proof.
  intros [P1 P2 P3 P4 P5]. unfold joiner_step. cbv zeta.
  set (cancelled := must_cancel g || match wake g with Some true => true | _ => false end).
  set (g0 := upd_joiner g (pc g) (entered g) (granted g) None false (jexc g) (unfinished g) (joined g)
                        (completed g) (consumed g)).
  assert (Hq0 : granted g = false -> Quiet g0).
  { intros Hg. rewrite Hg in P1. cbn in P1. split; cbn; auto. lia. }
  assert (Hcancel : forall G ord p en unf, Quiet G ->
            Quiet (upd_joiner (cancel_tasks G ord) p en false None (must_cancel (cancel_tasks G ord))
                              (jexc (cancel_tasks G ord)) unf (joined (cancel_tasks G ord))
                              (completed (cancel_tasks G ord)) (consumed (cancel_tasks G ord)))).
  { intros G ord p en unf HG. destruct (cancel_tasks_semfields G ord) as (E1 & E2 & E3 & E4 & E5 & E6 & _).
    apply (quiet_same G); auto; cbn [semv doneq queue upd_joiner]; auto. }
  change (pc g0) with (pc g). destruct (pc g) eqn:Ep.
  - (* JNot *)
    assert (Hg : granted g = false) by (destruct (granted g); auto; specialize (P2 eq_refl); discriminate).
    specialize (Hq0 Hg). destruct cancelled; [apply (quiet_same g0); auto|].
    destruct (mode g0); try (apply join_entry_quiet; exact Hq0).
    match goal with |- context [match ?x with [] => _ | _ => _ end] => destruct x as [|x0 xs] end;
      [apply join_entry_quiet; exact Hq0|].
    destruct (cancel_tasks_semfields g0 (x0 :: xs)) as (E1 & E2 & E3 & E4 & E5 & E6 & _).
    apply (quiet_same g0); auto.
  - (* JNextDone *)
    destruct cancelled eqn:Ec.
    + apply j_finally_quiet. destruct (granted g) eqn:Hg; cbn in P1; split; cbn; auto; lia.
    + assert (Hw : wake g = Some false).
      { unfold cancelled in Ec. apply orb_false_iff in Ec as [_ Ec]. destruct (wake g) as [[]|]; try discriminate; auto.
        contradiction. }
      pose proof (P3 eq_refl Hw) as Hg. rewrite Hg in P1. cbn in P1.
      unfold g0. cbn [doneq upd_joiner]. destruct (doneq g) as [|d ds] eqn:Ed; [cbn in P1; lia|].
      rewrite <- Ed. apply j_loop_quiet; [reflexivity|]. split; cbn; auto. rewrite Ed. cbn in *. lia.
  - (* JCancelRem *)
    assert (Hg : granted g = false) by (destruct (granted g); auto; specialize (P2 eq_refl); discriminate).
    specialize (Hq0 Hg). destruct cancelled; [apply (quiet_same g0); auto|apply join_entry_quiet; exact Hq0].
  - (* JCancelAll *)
    assert (Hg : granted g = false) by (destruct (granted g); auto; specialize (P2 eq_refl); discriminate).
    specialize (Hq0 Hg). destruct cancelled; [apply (quiet_same g0); auto|].
    match goal with |- context [match ?x with [] => _ | _ => _ end] => destruct x as [|x0 xs] end.
    + apply (quiet_same g0); auto.
    + destruct (cancel_tasks_semfields g0 (x0 :: xs)) as (E1 & E2 & E3 & E4 & E5 & E6 & _).
      apply (quiet_same g0); auto.
  - assert (Hg : granted g = false) by (destruct (granted g); auto; specialize (P2 eq_refl); discriminate).
    exact (Hq0 Hg).
Qed.

(* ---------- Sem is an invariant ---------- *)
Ltac scbn := cbn [semv granted doneq pc wake queue must_cancel upd_group upd_joiner upd_queue upd_members b2n].

Lemma wake_up_sem g : Sem g -> pc g <> JNextDone -> wake g = None ->
  Sem (upd_queue (upd_joiner g (pc g) (entered g) (granted g) (Some false) (must_cancel g) (jexc g) (unfinished g)
                             (joined g) (completed g) (consumed g)) (queue g ++ [HJoiner])).
Proof.
  intros [S1 S2 S3 S4] Hp Hw.
  assert (Hg : granted g = false) by (destruct (granted g); auto; destruct (S2 eq_refl); congruence).
  split; scbn.
  - exact S1.
  - rewrite Hg. discriminate.
  - intros E. contradiction.
  - rewrite njoiner_app, S4, Hw. reflexivity.
Qed.

Lemma pop_sem g t : Sem g -> Sem (run_cb g (Pop t)).
Proof.
  intros H. cbn [run_cb]. cbv zeta. cbn [pc wake upd_joiner].
  set (g1 := upd_joiner g (pc g) (entered g) (granted g) (wake g) (must_cancel g) (jexc g) (removeN t (unfinished g))
                        (joined g) (completed g) (consumed g)).
  assert (H1 : Sem g1) by (apply (sem_same g); auto).
  destruct (removeN t (unfinished g)) eqn:Eu; [|exact H1].
  destruct (pc g) eqn:Ep; try exact H1; destruct (wake g) eqn:Ew; try exact H1.
  - apply (wake_up_sem g1 H1); [discriminate|reflexivity].
  - apply (wake_up_sem g1 H1); [discriminate|reflexivity].
Qed.

Lemma step_sem g l : Sem g -> Sem (step g l).
Proof.
  intros H. destruct l as [t d al|t o|t| | |h order|]; cbn [step].
  - unfold add_task. destruct (add_refused_after_join && joined g); [exact H|].
    destruct (get t (members g)); [exact H|].
    destruct (match al with Some o => Fin o | None => Run end); cbn [fst];
      try (destruct d; apply (sem_same g); auto; fail).
    apply on_done_sem. apply (sem_same g); auto.
  - unfold finish_member. destruct (get t (members g)); [|exact H].
    destruct (m_status m); try exact H; destruct (m_daemon m); apply (sem_same g); auto;
      scbn; now rewrite njoiner_app, njoiner_cbs, Nat.add_0_r.
  - unfold cancel_member. destruct (get t (members g)); [|exact H].
    destruct (m_status m); try exact H; apply (sem_same g); auto.
  - pose proof H as [S1 S2 S3 S4]. destruct (pc g) eqn:Ep; try exact H.
    destruct (wake g) eqn:Ew; [exact H|].
    assert (Hg : granted g = false) by (destruct (granted g); auto; destruct (S2 eq_refl); congruence).
    split; scbn; rewrite ?Ep; auto; try discriminate.
    + intros E. congruence.
    + rewrite njoiner_app, S4. reflexivity.
  - pose proof H as [S1 S2 S3 S4]. unfold cancel_joiner.
    destruct (pc g) eqn:Ep; try exact H; destruct (wake g) eqn:Ew;
      try (apply (sem_same g); auto; scbn; congruence);
      (assert (Hg : granted g = false) by (destruct (granted g); auto; destruct (S2 eq_refl); congruence));
      split; scbn; rewrite ?Ep; auto; try discriminate; try (intros E; congruence);
      rewrite njoiner_app, S4; reflexivity.
  - destruct (queue g) as [|h0 rest] eqn:Eq; [exact H|]. cbv zeta. destruct h0 as [c|].
    + assert (H1 : Sem (upd_queue g rest)).
      { apply (sem_same g); auto. scbn. rewrite Eq. reflexivity. }
      destruct c as [t|t]; [apply on_done_sem; exact H1|apply pop_sem; exact H1].
    + apply quiet_sem. apply joiner_step_quiet. destruct H as [S1 S2 S3 S4].
      rewrite Eq in S4. cbn in S4.
      split; cbn; auto.
      * intros Hg. apply S2. exact Hg.
      * intros E. rewrite E in S4. discriminate.
      * destruct (wake g); [injection S4 as S4; exact S4|discriminate].
  - destruct (app_next_cases g) as [->|(t & rest & sv & Ep & Ec & Ed & Es & ->)]; [exact H|].
    destruct H as [S1 S2 S3 S4]. split; cbn; auto. rewrite Ed, Es in S1. cbn in S1. lia.
Qed.

Theorem reachable_sem p m ls : Sem (run p m ls).
Proof.
  unfold run. assert (H0 : Sem (init p m)) by (split; cbn; auto; discriminate).
  revert H0. generalize (init p m). induction ls as [|l ls IH]; intros g Hg; cbn [fold_left]; [exact Hg|].
  apply IH, step_sem, Hg.
Qed.

(* ---------- why join left its loop ---------- *)
(* the loop is over for one of three reasons: the policy waits for nobody; the member consumed last
   stops it (it failed or was cancelled; policy any; policy object and a member counts); or
   nothing is pending and nothing is queued, i.e. every non-daemon member has been consumed *)
Definition Reason (g : tg) : Prop :=
  pol g = PNone \/
  (exists pre t, consumed g = pre ++ [t] /\ stop_after g t = true) \/
  (pending g = [] /\ doneq g = []).

Lemma stop_after_stable g g' t : pol g' = pol g -> completed g' = completed g -> MemStable g g' ->
  finished g t = true -> stop_after g' t = stop_after g t.
Proof.
  intros Hp Hc Hs Hf. unfold stop_after, bad. now rewrite Hp, Hc, (Hs t Hf).
Qed.

Lemma reason_j_finally g order exc : Once g -> Reason g -> Reason (j_finally g order exc).
Proof.
  intros Ho Hr. unfold j_finally. cbv zeta.
  set (g0 := upd_joiner g (pc g) true (granted g) (wake g) (must_cancel g) exc (unfinished g) (joined g)
                        (completed g) (consumed g)).
  match goal with |- context [match ?x with [] => _ | _ => _ end] => destruct x as [|x0 xs] end.
  - exact Hr.
  - destruct (cancel_tasks_semfields g0 (x0 :: xs)) as (_ & _ & E3 & _ & _ & _ & E7 & E8 & E9 & E10).
    destruct Hr as [Hr|[(pre & t & Hc & Hs)|[H1 H2]]].
    + left. cbn [pol upd_joiner]. now rewrite E10.
    + right. left. exists pre, t. cbn [consumed upd_joiner]. rewrite E8. split; [exact Hc|].
      rewrite <- Hs. apply stop_after_stable; cbn [pol completed upd_joiner]; auto.
      * intros x Hx. unfold status. cbn [members upd_joiner].
        apply (frame_memstable g0 (cancel_tasks g0 (x0 :: xs)) (cancel_tasks_frame g0 (x0 :: xs)) x Hx).
      * apply (consumed_finished g Ho). rewrite Hc. apply in_or_app. right. now left.
    + right. right. cbn [pending doneq upd_joiner]. rewrite E7, E3. auto.
Qed.

Lemma j_loop_reason order dq : forall g, doneq g = dq -> Quiet g -> Once g ->
  pc (j_loop dq g order) = JNextDone \/ Reason (j_loop dq g order).
Proof.
  induction dq as [|t rest IH]; intros g Hd Hq Ho; cbn [j_loop]; cbv zeta.
  - destruct (pending g) eqn:Ep; cbn [negb andb].
    + right. apply reason_j_finally; auto. right. right. auto.
    + destruct Hq as [Q1 _ _ _]. rewrite Hd in Q1. cbn in Q1. rewrite Q1. cbn [Nat.eqb]. left. reflexivity.
  - cbn [negb andb]. pose proof Hq as [Q1 Q2 Q3 Q4]. rewrite Hd in Q1. cbn [length] in Q1. rewrite Q1. cbn [Nat.eqb].
    set (g1 := upd_group g (pending g) (daemons g) (doneq g) (S (length rest) - 1)).
    assert (Ho1 : Once g1) by (apply (once_same g); auto).
    assert (Ho3 : Once (consume g1 t rest)) by (apply consume_once; auto).
    assert (Hq3 : Quiet (consume g1 t rest)) by (split; cbn; auto; lia).
    destruct (stop_after (consume g1 t rest) t) eqn:Es.
    + right. apply reason_j_finally; auto. right. left. exists (consumed g), t. split; [reflexivity|exact Es].
    + apply IH; auto.
Qed.

Lemma join_entry_reason g order : Quiet g -> Once g ->
  pc (join_entry g order) = JNextDone \/ Reason (join_entry g order).
Proof.
  intros Hq Ho. unfold join_entry. cbv zeta. cbn [pol upd_joiner].
  set (g0 := upd_joiner g (pc g) true (granted g) (wake g) (must_cancel g) false (unfinished g) (joined g)
                        (completed g) (consumed g)).
  assert (Hq0 : Quiet g0) by (destruct Hq as [Q1 Q2 Q3 Q4]; split; cbn; auto).
  assert (Ho0 : Once g0) by (apply (once_same g); auto).
  destruct (pol g) eqn:Epol; try (apply j_loop_reason; auto; fail).
  right. apply reason_j_finally; auto. left. exact Epol.
Qed.

(* the step of the joining task in which join's loop is left without a cancellation *)
Theorem loop_left_only_by_policy g order : PreJ g -> Once g ->
  must_cancel g = false -> wake g <> Some true ->
  (pc g = JNot \/ pc g = JCancelRem \/ pc g = JNextDone) ->
  let g' := joiner_step g order in
  pc g' = JNextDone \/ pc g' = JCancelRem \/ Reason g'.
Proof.
  intros [P1 P2 P3 P4 P5] Ho Hm Hw Hpc. cbv zeta. unfold joiner_step. cbv zeta.
  assert (Ec : must_cancel g || match wake g with Some true => true | _ => false end = false).
  { rewrite Hm. cbn. destruct (wake g) as [[]|]; auto. contradiction. }
  rewrite Ec.
  set (g0 := upd_joiner g (pc g) (entered g) (granted g) None false (jexc g) (unfinished g) (joined g)
                        (completed g) (consumed g)).
  assert (Ho0 : Once g0) by (apply (once_same g); auto).
  assert (Hq0 : granted g = false -> Quiet g0).
  { intros Hg. rewrite Hg in P1. cbn in P1. split; cbn; auto. lia. }
  change (pc g0) with (pc g).
  destruct Hpc as [Hpc|[Hpc|Hpc]]; rewrite Hpc.
  - assert (Hg : granted g = false) by (destruct (granted g); auto; specialize (P2 eq_refl); congruence).
    destruct (mode g0).
    + destruct (join_entry_reason g0 order (Hq0 Hg) Ho0); auto.
    + destruct (join_entry_reason g0 order (Hq0 Hg) Ho0); auto.
    + match goal with |- context [match ?x with [] => _ | _ => _ end] => destruct x as [|x0 xs] end.
      * destruct (join_entry_reason g0 order (Hq0 Hg) Ho0); auto.
      * right. left. reflexivity.
  - assert (Hg : granted g = false) by (destruct (granted g); auto; specialize (P2 eq_refl); congruence).
    destruct (join_entry_reason g0 order (Hq0 Hg) Ho0); auto.
  - assert (Hw' : wake g = Some false) by (destruct (wake g) as [[]|]; auto; contradiction).
    pose proof (P3 Hpc Hw') as Hg. rewrite Hg in P1. cbn in P1.
    unfold g0. cbn [doneq upd_joiner]. destruct (doneq g) as [|d ds] eqn:Ed; [cbn in P1; lia|].
    rewrite <- Ed.
    match goal with |- context [j_loop (doneq g) ?G order] => destruct (j_loop_reason order (doneq g) G) as [H|H] end; auto.
    + split; cbn; auto. rewrite Ed. cbn in *. lia.
    + apply (once_same g); auto.
Qed.

(* ---------- join never goes on after a member that stops it ---------- *)
Definition is_any (p : policy) : bool := match p with PAny => true | _ => false end.
Definition stop_at (g : tg) (pre : list N) (t : N) : bool :=
  bad g t || is_any (pol g) ||
  (is_object (pol g) && match find (counts g) (pre ++ [t]) with Some _ => true | None => false end).

(* no member but the last consumed one stops the loop *)
Definition NP (g : tg) : Prop :=
  forall pre t post, consumed g = pre ++ t :: post -> post <> [] -> stop_at g pre t = false.
(* ... and while the loop is still going, neither does the last one *)
Definition LastOk (g : tg) : Prop := forall pre t, consumed g = pre ++ [t] -> stop_at g pre t = false.

Lemma stop_after_at g pre t : CF g -> consumed g = pre ++ [t] -> stop_after g t = stop_at g pre t.
Proof.
  intros Hc He. unfold stop_after, stop_at, is_any, is_object. rewrite Hc, He. reflexivity.
Qed.

Lemma stop_at_stable g g' pre t : pol g' = pol g -> MemStable g g' ->
  (forall x, In x (pre ++ [t]) -> finished g x = true) -> stop_at g' pre t = stop_at g pre t.
Proof.
  intros Hp Hs Hf. unfold stop_at, bad. rewrite Hp.
  rewrite (Hs t) by (apply Hf, in_or_app; right; now left).
  rewrite (find_ext_in (counts g') (counts g)); [reflexivity|].
  intros x Hx. apply counts_stable; auto.
Qed.

Lemma np_stable g g' : Once g -> NP g -> pol g' = pol g -> MemStable g g' -> consumed g' = consumed g -> NP g'.
Proof.
  intros Ho Hn Hp Hs Hc pre t post He Hpost. rewrite Hc in He. rewrite <- (Hn pre t post He Hpost).
  apply stop_at_stable; auto. intros x Hx. apply (consumed_finished g Ho). rewrite He.
  apply in_app_or in Hx as [Hx|[<-|[]]]; apply in_or_app; [now left|right; now left].
Qed.
Lemma lastok_stable g g' : Once g -> LastOk g -> pol g' = pol g -> MemStable g g' -> consumed g' = consumed g -> LastOk g'.
Proof.
  intros Ho Hn Hp Hs Hc pre t He. rewrite Hc in He. rewrite <- (Hn pre t He).
  apply stop_at_stable; auto. intros x Hx. apply (consumed_finished g Ho). now rewrite He.
Qed.

Lemma consume_cf g t rest : CF g -> CF (consume g t rest).
Proof.
  intros H2. unfold CF in *. cbn [completed consumed consume upd_joiner upd_group]. rewrite find_snoc.
  change (counts (consume g t rest)) with (counts g). rewrite <- H2.
  destruct (completed g); [reflexivity|]. unfold counts. cbn [pol upd_group]. unfold is_object.
  change (ret_none (upd_group g (pending g) (daemons g) rest (semv g)) t) with (ret_none g t).
  destruct (match pol g with PObject => true | _ => false end && ret_none g t); reflexivity.
Qed.

Lemma np_consume g t rest : NP g -> LastOk g -> NP (consume g t rest).
Proof.
  intros Hn Hl pre x post He Hpost. cbn [consumed consume upd_joiner upd_group] in He.
  destruct (exists_last Hpost) as (post' & z & ->).
  assert (E : (pre ++ x :: post') ++ [z] = consumed g ++ [t]) by (rewrite He, <- app_assoc; reflexivity).
  apply app_inj_tail in E as [E <-].
  change (stop_at (consume g z rest) pre x) with (stop_at g pre x).
  destruct post' as [|y ys]; [apply Hl; now rewrite <- E|apply (Hn pre x (y :: ys)); [now rewrite <- E|discriminate]].
Qed.

Definition Post (g : tg) : Prop :=
  NP g /\ (pc g = JNextDone -> LastOk g) /\ ((pc g = JNot \/ pc g = JCancelRem) -> consumed g = []).

Lemma cancel_tasks_np G ord : Once G -> NP G -> NP (cancel_tasks G ord).
Proof.
  intros Ho Hn. destruct (cancel_tasks_semfields G ord) as (_ & _ & _ & _ & _ & _ & _ & E8 & _ & E10).
  apply (np_stable G); auto. apply frame_memstable, cancel_tasks_frame.
Qed.

Lemma j_finally_post g order exc : Once g -> NP g -> Post (j_finally g order exc).
Proof.
  intros Ho Hn. unfold j_finally. cbv zeta.
  set (g0 := upd_joiner g (pc g) true (granted g) (wake g) (must_cancel g) exc (unfinished g) (joined g)
                        (completed g) (consumed g)).
  assert (Ho0 : Once g0) by (apply (once_same g); auto).
  assert (Hn0 : NP g0) by (apply (np_stable g); auto; (apply memstable_members; reflexivity)).
  match goal with |- context [match ?x with [] => _ | _ => _ end] => destruct x as [|x0 xs] end.
  - split; [apply (np_stable g0); auto; (apply memstable_members; reflexivity)|]. split; [discriminate|intros [H|H]; discriminate].
  - split; [|split; [discriminate|intros [H|H]; discriminate]].
    pose proof (cancel_tasks_np g0 (x0 :: xs) Ho0 Hn0) as H1.
    intros pre t post He Hpost. apply (H1 pre t post He Hpost).
Qed.

Lemma j_loop_post order dq : forall g, doneq g = dq -> Once g -> CF g -> NP g -> LastOk g ->
  Post (j_loop dq g order).
Proof.
  induction dq as [|t rest IH]; intros g Hd Ho Hc Hn Hl; cbn [j_loop]; cbv zeta.
  - match goal with |- context [if ?b then _ else _] => destruct b end.
    + split; [apply (np_stable g); auto; (apply memstable_members; reflexivity)|].
      split; [intros _; apply (lastok_stable g); auto; (apply memstable_members; reflexivity)|intros [H|H]; discriminate].
    + apply j_finally_post.
      * match goal with |- context [if ?b then _ else _] => destruct b end; [apply (once_same g); auto|exact Ho].
      * match goal with |- context [if ?b then _ else _] => destruct b end;
          [apply (np_stable g); auto; (apply memstable_members; reflexivity)|exact Hn].
  - cbn [negb andb]. destruct (semv g =? 0)%nat.
    + split; [apply (np_stable g); auto; (apply memstable_members; reflexivity)|].
      split; [intros _; apply (lastok_stable g); auto; (apply memstable_members; reflexivity)|intros [H|H]; discriminate].
    + set (g1 := upd_group g (pending g) (daemons g) (doneq g) (semv g - 1)).
      assert (Ho1 : Once g1) by (apply (once_same g); auto).
      assert (Hc1 : CF g1) by exact Hc.
      assert (Hn1 : NP g1) by (apply (np_stable g); auto; (apply memstable_members; reflexivity)).
      assert (Hl1 : LastOk g1) by (apply (lastok_stable g); auto; (apply memstable_members; reflexivity)).
      assert (Ho3 : Once (consume g1 t rest)) by (apply consume_once; auto).
      assert (Hc3 : CF (consume g1 t rest)) by (apply consume_cf; auto).
      assert (Hn3 : NP (consume g1 t rest)) by (apply np_consume; auto).
      destruct (stop_after (consume g1 t rest) t) eqn:Es.
      * apply j_finally_post; auto.
      * apply IH; auto. intros pre x He. cbn [consumed consume upd_joiner upd_group] in He.
        apply app_inj_tail in He as [<- <-]. rewrite <- Es. symmetry. apply stop_after_at; auto.
Qed.

Lemma join_entry_post g order : Once g -> CF g -> consumed g = [] -> Post (join_entry g order).
Proof.
  intros Ho Hc He. unfold join_entry. cbv zeta. cbn [pol upd_joiner].
  set (g0 := upd_joiner g (pc g) true (granted g) (wake g) (must_cancel g) false (unfinished g) (joined g)
                        (completed g) (consumed g)).
  assert (Ho0 : Once g0) by (apply (once_same g); auto).
  assert (Hn0 : NP g0) by (intros pre t post E; cbn in E; rewrite He in E; destruct pre; discriminate).
  assert (Hl0 : LastOk g0) by (intros pre t E; cbn in E; rewrite He in E; destruct pre; discriminate).
  destruct (pol g); [apply j_loop_post|apply j_loop_post|apply j_loop_post|apply j_finally_post]; auto.
Qed.

Lemma joiner_step_post g order : Once g -> CF g -> Post g -> Post (joiner_step g order).
Proof.
  intros Ho Hc (Hn & Hl & He). unfold joiner_step. cbv zeta.
  set (cancelled := must_cancel g || match wake g with Some true => true | _ => false end).
  set (g0 := upd_joiner g (pc g) (entered g) (granted g) None false (jexc g) (unfinished g) (joined g)
                        (completed g) (consumed g)).
  assert (Ho0 : Once g0) by (apply (once_same g); auto).
  assert (Hc0 : CF g0) by exact Hc.
  assert (Hn0 : NP g0) by (apply (np_stable g); auto; (apply memstable_members; reflexivity)).
  assert (Hended : forall c e j en gr wk mc je unf jd,
            Post (upd_joiner g0 (JEnded c e j) en gr wk mc je unf jd (completed g0) (consumed g0))).
  { intros. split; [apply (np_stable g0); auto; (apply memstable_members; reflexivity)|].
    split; [discriminate|intros [H|H]; discriminate]. }
  assert (Hcancel : forall ord p en mc je unf, (p = JCancelRem -> consumed g0 = []) -> p <> JNextDone -> p <> JNot ->
            Post (upd_joiner (cancel_tasks g0 ord) p en false None mc je unf (joined (cancel_tasks g0 ord))
                             (completed (cancel_tasks g0 ord)) (consumed (cancel_tasks g0 ord)))).
  { intros ord p en mc je unf Hrem Hnd Hnot. pose proof (cancel_tasks_np g0 ord Ho0 Hn0) as H1.
    destruct (cancel_tasks_semfields g0 ord) as (_ & _ & _ & _ & _ & _ & _ & E8 & _ & _).
    split; [intros pre t post E Hp; apply (H1 pre t post E Hp)|].
    split; [intros E; cbn in E; contradiction|]. intros [E|E]; cbn in E; [contradiction|].
    cbn [consumed upd_joiner]. rewrite E8. auto. }
  change (pc g0) with (pc g). destruct (pc g) eqn:Ep.
  - assert (Hnil : consumed g0 = []) by (apply He; now left).
    destruct cancelled; [apply Hended|]. destruct (mode g0); try (apply join_entry_post; auto; fail).
    match goal with |- context [match ?x with [] => _ | _ => _ end] => destruct x as [|x0 xs] end;
      [apply join_entry_post; auto|apply Hcancel; auto; discriminate].
  - specialize (Hl eq_refl). destruct cancelled.
    + apply j_finally_post.
      * destruct (granted g0); apply (once_same g0); auto.
      * destruct (granted g0); apply (np_stable g0); auto; (apply memstable_members; reflexivity).
    + unfold g0. cbn [doneq upd_joiner]. destruct (doneq g) eqn:Ed.
      * apply j_finally_post; [apply (once_same g); auto|apply (np_stable g); auto; (apply memstable_members; reflexivity)].
      * rewrite <- Ed. apply j_loop_post; auto;
          try (apply (once_same g); auto; fail);
          try (apply (np_stable g); auto; apply memstable_members; reflexivity);
          try (apply (lastok_stable g); auto; apply memstable_members; reflexivity).
  - assert (Hnil : consumed g0 = []) by (apply He; now right).
    destruct cancelled; [apply Hended|apply join_entry_post; auto].
  - destruct cancelled; [apply Hended|].
    match goal with |- context [match ?x with [] => _ | _ => _ end] => destruct x as [|x0 xs] end.
    + unfold end_join. apply Hended.
    + apply Hcancel; auto; discriminate.
  - split; [exact Hn0|]. split; [discriminate|intros [H|H]; discriminate].
Qed.

(* ---------- lifted to every reachable state ---------- *)
Lemma nonjoiner_pc g l : joiner_runs g l = false -> pc (step g l) = pc g.
Proof.
  intros Hj. destruct l as [t d al|t o|t| | |h order|]; cbn [step].
  - unfold add_task. destruct (add_refused_after_join && joined g); [reflexivity|].
    destruct (get t (members g)); [reflexivity|].
    destruct (match al with Some o => Fin o | None => Run end); cbn [fst]; try (destruct d; reflexivity).
    match goal with |- pc (on_done ?G t) = _ => destruct (on_done_jfields G t) as (_ & _ & -> & _) end. reflexivity.
  - unfold finish_member. destruct (get t (members g)); [|reflexivity].
    destruct (m_status m); try reflexivity; destruct (m_daemon m); reflexivity.
  - unfold cancel_member. destruct (get t (members g)); [|reflexivity]. destruct (m_status m); reflexivity.
  - destruct (pc g) eqn:Ep; try (now rewrite Ep); destruct (wake g); cbn; rewrite ?Ep; reflexivity.
  - unfold cancel_joiner. destruct (pc g) eqn:Ep; try (now rewrite Ep); destruct (wake g); cbn; rewrite ?Ep; reflexivity.
  - cbn in Hj. destruct (queue g) as [|h0 rest]; [reflexivity|]. cbv zeta. destruct h0 as [[t|t]|]; [| |discriminate].
    + cbn [run_cb]. destruct (on_done_jfields (upd_queue g rest) t) as (_ & _ & -> & _). reflexivity.
    + destruct (pop_jfields (upd_queue g rest) t) as (_ & _ & -> & _). reflexivity.
  - now destruct (app_next_frame g) as (_ & _ & _ & _ & -> & _).
Qed.

Lemma step_post g l : Once g -> CF g -> Post g -> Post (step g l).
Proof.
  intros Ho Hc Hp. destruct (joiner_runs g l) eqn:Ej.
  - destruct l as [| | | | |h order|]; try discriminate. cbn in Ej. cbn [step].
    destruct (queue g) as [|[c|] rest] eqn:Eq; try discriminate. cbv zeta.
    assert (Ho1 : Once (upd_queue g rest)) by (apply (once_same g); auto; unfold yielded; cbn; now rewrite Eq).
    apply joiner_step_post; [exact Ho1|exact Hc|exact Hp].
  - destruct (step_frame g l) as (H1 & H2 & H3). destruct (H3 Ej) as [E1 E2].
    pose proof (nonjoiner_pc g l Ej) as Epc. destruct Hp as (Hn & Hk & He).
    split; [apply (np_stable g); auto|]. rewrite Epc, E2.
    split; [intros E; apply (lastok_stable g); auto|exact He].
Qed.

Theorem reachable_post p m ls :
  Once (run p m ls) /\ CF (run p m ls) /\ Post (run p m ls).
Proof.
  unfold run.
  assert (H0 : Once (init p m) /\ CF (init p m) /\ Post (init p m)).
  { split; [apply (reachable_once p m [])|]. split; [reflexivity|].
    split; [intros pre t post E; destruct pre; discriminate|].
    split; [intros _ pre t E; destruct pre; discriminate|reflexivity]. }
  revert H0. generalize (init p m). induction ls as [|l ls IH]; intros g Hg; cbn [fold_left]; [exact Hg|].
  apply IH; auto. destruct Hg as (Ho & Hc & Hp).
  split; [now apply step_once|]. split; [now apply step_cf|now apply step_post].
Qed.

(* the theorem about leaving the loop, for every reachable state in which the joining task is
   about to run without a cancellation pending *)
Theorem reachable_loop_left_by_policy p m ls h order rest :
  let g := run p m ls in
  queue g = HJoiner :: rest -> must_cancel g = false -> wake g <> Some true ->
  (pc g = JNot \/ pc g = JCancelRem \/ pc g = JNextDone) ->
  let g' := step g (LRun h order) in
  pc g' = JNextDone \/ pc g' = JCancelRem \/ Reason g'.
Proof.
  intros g Hq Hm Hw Hpc. cbv zeta. cbn [step]. rewrite Hq. cbv zeta.
  pose proof (reachable_sem p m ls) as [S1 S2 S3 S4]. fold g in S1, S2, S3, S4.
  pose proof (reachable_once p m ls) as Ho. fold g in Ho.
  rewrite Hq in S4. cbn in S4.
  apply loop_left_only_by_policy; auto.
  - split; cbn; auto.
    + intros Hg. apply S2. exact Hg.
    + intros E. rewrite E in S4. discriminate.
    + destruct (wake g); [injection S4 as S4; exact S4|discriminate].
  - apply (once_same g); auto. unfold yielded. cbn. now rewrite Hq.
Qed.

(* ---------- the decisions of join's loop, against the table probed on the running class ---------- *)
(* gen/Gen_curio.v lists, for every decision point that can be reached (policy, outcome of the member
   just consumed, completed already set?), what the real join() did: stop or go on, record the member
   as completed or not.  The model's [consume] / [stop_after] must say the same. *)
Definition probe_pol (q : probe_policy) : policy := match q with QAll => PAll | QAny => PAny | QObject => PObject end.
Definition probe_out (o : probe_outcome) : outcome :=
  match o with ORetNone => RetNone | ORetFalsy | ORetVal => RetVal | OExc => Exc | OCanc => Canc end.
Definition decision_state (q : probe_policy) (o : probe_outcome) (before : bool) : tg :=
  let g := init (probe_pol q) MJoin in
  let g := upd_members g [(0%N, {| m_daemon := false; m_status := Fin RetVal; m_cbs := [] |});
                          (1%N, {| m_daemon := false; m_status := Fin (probe_out o); m_cbs := [] |})] in
  upd_joiner g JNextDone true false None false false [] false (if before then Some 0%N else None)
             (if before then [0%N] else []).
Definition model_decision (q : probe_policy) (o : probe_outcome) (before : bool) : bool * bool :=
  let g3 := consume (decision_state q o before) 1%N [] in
  (stop_after g3 1%N, match completed g3 with Some 1%N => true | _ => false end).
Definition decisions_agree : bool :=
  forallb (fun e => let '(q, o, before, stops, counts) := e in
                    let '(ms, mc) := model_decision q o before in Bool.eqb ms stops && Bool.eqb mc counts)
          join_decisions.
Lemma decisions_agree_true : decisions_agree = true.
Proof. vm_compute. reflexivity. Qed.
