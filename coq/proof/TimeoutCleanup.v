(* Known finding F21 (C11) at the level of the primitives the library runs - _set_task_deadline, _unset_task_deadline,
   TimeoutAfter.__aexit__ and one suspension of the task (model/Timeout.v; the first three are shown equal to the
   statement-by-statement translation of the source in proof/TimeoutCodeProofs.v).

   The program DSL of model/Timeout.v has no `finally` clause: in it, once a timeout has fired nothing runs inside the
   fired block before its __aexit__.  Python programs CAN run code there - a finally clause, or an except-CancelledError
   handler that re-raises - and that code may await and may enter further timeout blocks.  Written as histories of the
   primitives, four such programs show that the property's claims do not extend to them: each lemma below is a
   REFUTATION of one clause, with the history as witness; the same programs run on the implementation by
   harness/props/c11.py (cleanup_scenario) give the same outcomes.  No theorem of C11.v is contradicted: they quantify over
   the DSL's programs. *)
From AV Require Import Base Gen_curio Timeout.
Local Open Scope Z_scope.

(* the task is inside timeout_after(8) and sleeps: the timer fires at 8 *)
Definition fired_outer : st := snd (await 60 (set_deadline (init None) 8)).

(* (1) ... its finally clause enters ignore_after(4) - deadline 12 - and sleeps for 50 *)
Definition h1_inner : st := set_deadline fired_outer 12.
Definition h1_sleep := await 50 h1_inner.

(* "one still running at its deadline is interrupted then": not this block - no timer is armed for it, the sleep
   completes at 58, 46 ticks after the deadline, and the block exits without having expired *)
Lemma cleanup_block_never_armed :
  now fired_outer = 8 /\ armed h1_inner = None /\ deadlines h1_inner = [8; 12] /\
  fst h1_sleep = Ok /\ now (snd h1_sleep) = 58 /\
  fst (aexit KIgnore 12 Ok (snd h1_sleep)) = Ok /\
  log (snd (aexit KIgnore 12 Ok (snd h1_sleep))) = [(Ok, false)].
Proof. vm_compute. repeat split; reflexivity. Qed.

(* (2) timeout_after(20) around ignore_after(8) whose body sleeps; the inner timer fires at 8 and the inner block's
   finally clause then sleeps for 50: the OUTER deadline, 20, passes unnoticed - nothing is armed until the inner block
   exits - and the outer block ends normally at 58 without reporting expiry *)
Definition h2_fired : st := snd (await 60 (set_deadline (set_deadline (init None) 20) 8)).
Definition h2_cleanup := await 50 h2_fired.
Definition h2_inner_exit := aexit KIgnore 8 (Exc ECancelled) (snd h2_cleanup).
Definition h2_outer_exit := aexit KTimeout 20 (fst h2_inner_exit) (snd h2_inner_exit).
Lemma enclosing_deadline_unguarded_during_cleanup :
  now h2_fired = 8 /\ armed h2_fired = None /\ deadlines h2_fired = [20; 8] /\
  fst h2_cleanup = Ok /\ now (snd h2_cleanup) = 58 /\
  fst h2_inner_exit = Ok /\ fst h2_outer_exit = Ok /\
  log (snd h2_outer_exit) = [(Ok, true); (Ok, false)].
Proof. vm_compute. repeat split; reflexivity. Qed.

(* (3) timeout_after(20) around [try: timeout_after(4): sleep  finally: ignore_after(5): sleep(1)]: the inner timeout is
   handled by nobody, but the block entered on the way out resets the record and the enclosing block lets the
   TaskTimeout through instead of raising UncaughtTimeoutError *)
Definition h3_fired : st := snd (await 60 (set_deadline (set_deadline (init None) 20) 4)).
Definition h3_inner_exit := aexit KTimeout 4 (Exc ECancelled) h3_fired.
Definition h3_cleanup_block : st := set_deadline (snd h3_inner_exit) 9.
Definition h3_cleanup_exit := aexit KIgnore 9 (fst (await 1 h3_cleanup_block)) (snd (await 1 h3_cleanup_block)).
Definition h3_outer_exit := aexit KTimeout 20 (fst h3_inner_exit) (snd h3_cleanup_exit).
Lemma unhandled_inner_timeout_record_lost :
  fst h3_inner_exit = Exc ETaskTimeout /\ timed_out (snd h3_inner_exit) = Some 4 /\
  timed_out h3_cleanup_block = None /\ fst h3_cleanup_exit = Ok /\
  fst h3_outer_exit = Exc ETaskTimeout /\ fst h3_outer_exit <> Exc EUncaught.
Proof. vm_compute. repeat split; try reflexivity. discriminate. Qed.
(* ... while without the block in the finally clause the enclosing block does raise UncaughtTimeoutError *)
Lemma unhandled_inner_timeout_without_cleanup_block :
  fst (aexit KTimeout 20 (fst h3_inner_exit) (snd h3_inner_exit)) = Exc EUncaught.
Proof. vm_compute. reflexivity. Qed.

(* (4) timeout_after(8) whose finally clause runs ignore_at(2) - a deadline already past - around a sleep: that block
   times out at once, its timer overwrites the record of the outer timeout, and the outer block lets a bare
   CancelledError out instead of raising TaskTimeout *)
Definition h4_inner : st := set_deadline fired_outer 2.
Definition h4_sleep := await 3 h4_inner.
Definition h4_inner_exit := aexit KIgnore 2 (fst h4_sleep) (snd h4_sleep).
Definition h4_outer_exit := aexit KTimeout 8 (Exc ECancelled) (snd h4_inner_exit).
Lemma cleanup_block_timeout_overwrites_record :
  timed_out h4_inner = Some 8 /\ fst h4_sleep = Exc ECancelled /\ timed_out (snd h4_sleep) = Some 2 /\
  fst h4_inner_exit = Ok /\ fst h4_outer_exit = Exc ECancelled /\
  log (snd h4_outer_exit) = [(Ok, true); (Exc ECancelled, false)].
Proof. vm_compute. repeat split; reflexivity. Qed.
