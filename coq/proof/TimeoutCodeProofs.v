(* The decisions of TimeoutAfter.__aexit__ regenerated from the source = the hand-written model's. *)
From AV Require Import Base Gen_curio Timeout TimeoutCode.
Local Open Scope Z_scope.

(* the model's __aexit__, split into the unset and the decision *)
Definition decide (k : kind) (deadline : Z) (r : res) (tod : option Z) (uncaught : bool) : res * bool :=
  match r with
  | Ok => (Ok, false)
  | Exc e =>
      if negb (is_cancelish e) then (r, false) else
      match tod with
      | Some d =>
          if d =? deadline then match k with KIgnore => (Ok, true) | KTimeout => (Exc ETaskTimeout, true) end
          else if uncaught then (if exn_eqb e ETaskTimeout then (Exc EUncaught, false) else (r, false))
          else if exn_eqb e ETimeoutCancellation then (r, false)
          else (Exc ETimeoutCancellation, false)
      | None => (r, false)
      end
  end.

Lemma aexit_is_decide k dl r s :
  aexit k dl r s =
  let '(tod, uncaught, s') := unset_deadline s in
  let '(r', e) := decide k dl r tod uncaught in (r', add_log s' r' e).
Proof.
  unfold aexit, decide. destruct (unset_deadline s) as [[tod unc] s']. destruct r as [|e]; [reflexivity|].
  destruct (negb (is_cancelish e)); [reflexivity|]. destruct tod as [d|]; [|reflexivity].
  destruct (d =? dl); [destruct k; reflexivity|]. destruct unc.
  - destruct (exn_eqb e ETaskTimeout); reflexivity.
  - destruct (exn_eqb e ETimeoutCancellation); reflexivity.
Qed.

(* the generated decisions, for every input *)
Theorem generated_aexit_is_model k dl r tod uncaught :
  aexit_generated {| d_kind := k; d_deadline := dl; d_inflight := r; d_timed_out := tod; d_uncaught := uncaught |} =
  let '(r', e) := decide k dl r tod uncaught in DDone r' e.
Proof.
  unfold aexit_generated, decide.
  destruct r as [|[| | | |]]; destruct tod as [d|]; try (destruct (d =? dl) eqn:Ed); destruct k, uncaught;
    cbn; rewrite ?Ed; cbn; reflexivity.
Qed.

(* nothing in the generated list was left untranslated *)
Fixpoint dknown (fuel : nat) (ss : list dstmt) : bool :=
  match fuel with
  | O => false
  | S f => forallb (fun s => match s with
                             | DSUnknown => false
                             | DIf DCUnknown _ => false
                             | DIf (DExcNotIn l) b => negb (existsb (fun n => match n with NUnknown => true | _ => false end) l) && dknown f b
                             | DIf (DExcIs NUnknown) _ => false
                             | DIf _ b => dknown f b
                             | _ => true end) ss
  end.
Theorem aexit_code_known : dknown 6 aexit_code = true /\ hd DSUnknown aexit_code = DUnset.
Proof. split; reflexivity. Qed.

(* ---------- _set_task_deadline / _unset_task_deadline ---------- *)
Theorem generated_set_deadline s d :
  exists x, trun 12 d (tctx_of s) set_deadline_code = Some x /\
    t_ds x = deadlines (set_deadline s d) /\ t_tod x = timed_out (set_deadline s d) /\ t_armed x = armed (set_deadline s d).
Proof.
  unfold set_deadline, tctx_of. destruct (deadlines s) as [|a l] eqn:Ed.
  - cbn. destruct (timed_out s); cbn; eexists; (split; [reflexivity|]); cbn; auto.
  - cbn -[minl opt_in removelast]. destruct (minl (a :: l)) as [m|] eqn:Em; [|discriminate].
    change (a :: l ++ [d]) with ((a :: l) ++ [d]). rewrite removelast_last.
    destruct (d <? m); destruct (opt_in (timed_out s) (a :: l)); cbn -[minl opt_in]; eexists; (split; [reflexivity|]); cbn -[minl]; auto.
Qed.

Theorem generated_unset_deadline s :
  exists x, trun 12 0 (tctx_of s) unset_deadline_code = Some x /\
    let '(tod, uncaught, s') := unset_deadline s in
    t_read x = tod /\ t_unc x = uncaught /\ t_ds x = deadlines s' /\ t_armed x = armed s' /\ t_tod x = timed_out s'.
Proof.
  unfold unset_deadline, tctx_of. cbn -[minl removelast opt_in].
  destruct (removelast (deadlines s)) as [|a l] eqn:Er; cbn -[minl removelast opt_in]; rewrite ?Er;
    eexists; (split; [reflexivity|]); cbn -[minl removelast opt_in]; rewrite ?Er; repeat split; reflexivity.
Qed.

Fixpoint tknown (fuel : nat) (ss : list tstmt) : bool :=
  match fuel with
  | O => false
  | S f => forallb (fun s => match s with
                             | TSUnknown => false
                             | TIf TCUnknown _ _ => false
                             | TIf _ a b => tknown f a && tknown f b
                             | _ => true end) ss
  end.
Theorem deadline_code_known : tknown 5 set_deadline_code && tknown 5 unset_deadline_code = true.
Proof. reflexivity. Qed.
