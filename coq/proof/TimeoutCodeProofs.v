(* The decisions of TimeoutAfter.__aexit__ regenerated from the source = the hand-written model's. *)
From AV Require Import Base Gen_curio Timeout TimeoutCode.
Local Open Scope Z_scope.

(* the model's __aexit__, split into the unset and the decision *)
Definition decide (k : kind) (deadline : Z) (r : res) (tod : option Z) (uncaught : bool) : res * bool :=
  match r with
  | Ok => (Ok, false)
  | Exc e =>
      if negb (is_cancelish e) then (r, false) else
      match tod with
      | Some d =>
          if d =? deadline then match k with KIgnore => (Ok, true) | KTimeout => (Exc ETaskTimeout, true) end
          else if uncaught then (if exn_eqb e ETaskTimeout then (Exc EUncaught, false) else (r, false))
          else if exn_eqb e ETimeoutCancellation then (r, false)
          else (Exc ETimeoutCancellation, false)
      | None => (r, false)
      end
  end.

Lemma aexit_is_decide k dl r s :
  aexit k dl r s =
  let '(tod, uncaught, s') := unset_deadline s in
  let '(r', e) := decide k dl r tod uncaught in (r', add_log s' r' e).
Proof.
  unfold aexit, decide. destruct (unset_deadline s) as [[tod unc] s']. destruct r as [|e]; [reflexivity|].
  destruct (negb (is_cancelish e)); [reflexivity|]. destruct tod as [d|]; [|reflexivity].
  destruct (d =? dl); [destruct k; reflexivity|]. destruct unc.
  - destruct (exn_eqb e ETaskTimeout); reflexivity.
  - destruct (exn_eqb e ETimeoutCancellation); reflexivity.
Qed.

(* the generated decisions, for every input *)
Theorem generated_aexit_is_model k dl r tod uncaught :
  aexit_generated {| d_kind := k; d_deadline := dl; d_inflight := r; d_timed_out := tod; d_uncaught := uncaught |} =
  let '(r', e) := decide k dl r tod uncaught in DDone r' e.
Proof.
  unfold aexit_generated, decide.
  destruct r as [|[| | | |]]; destruct tod as [d|]; try (destruct (d =? dl) eqn:Ed); destruct k, uncaught;
    cbn; rewrite ?Ed; cbn; reflexivity.
Qed.

(* nothing in the generated list was left untranslated *)
Fixpoint dknown (fuel : nat) (ss : list dstmt) : bool :=
  match fuel with
  | O => false
  | S f => forallb (fun s => match s with
                             | DSUnknown => false
                             | DIf DCUnknown _ => false
                             | DIf (DExcNotIn l) b => negb (existsb (fun n => match n with NUnknown => true | _ => false end) l) && dknown f b
                             | DIf (DExcIs NUnknown) _ => false
                             | DIf _ b => dknown f b
                             | _ => true end) ss
  end.
Theorem aexit_code_known : dknown 6 aexit_code = true /\ hd DSUnknown aexit_code = DUnset.
Proof. split; reflexivity. Qed.
