From Coq Require Import QArith.
From AV Require Import Base Utf8 Json Gen_jsonrpc Gen_session Codec Conn Handler.

(* every outcome of a Request yields exactly one reply, under the request's id, carrying what
   the property prescribes *)
Definition expected (o : outcome) : respval :=
  match o with
  | ORet v | ODiscVal v => RResult v
  | ORPC c m _ | OProto c m | ODiscErr c m => RError (JInt c) m
  | ORetBad | OOther | ODiscBad => RError (JInt (-32603)) []
  | OOverrun => RError (JInt (-102)) []
  | ORefused => RError (JInt (-101)) []
  end.

Theorem one_wellformed_reply p rid o :
  reply_of p (Some rid) o = Some (respval_payload p (expected o) rid) /\
  getn k_id (respval_payload p (expected o) rid) = rid /\ reply_of p None o = None.
Proof.
  split; [destruct o; reflexivity|]. split; [|reflexivity].
  destruct o, p; reflexivity.
Qed.

Definition failed (is_req : bool) (o : outcome) : bool :=
  match o with
  | ORet _ | ODiscVal _ => false
  | ORetBad | ODiscBad => is_req
  | _ => true
  end.
Definition extra_cost (o : outcome) : Q := match o with ORPC _ _ k => k | _ => 0 end.

Lemma finish_failed is_req o :
  f_failed (finish is_req o) = if failed is_req o then Some (extra_cost o) else None.
Proof. destruct o, is_req; reflexivity. Qed.

Definition is_req (x : option json * outcome) : bool := match fst x with Some _ => true | None => false end.

(* isolation: whatever the assignment of behaviours and the completion order, the session
   stays alive, the wire carries exactly the replies of the requests (in completion order),
   every failed request counts one error and base + specific cost *)
Theorem isolation base p : forall xs s,
  let s' := fold_left (handler_ends base p) xs s in
  s_alive s' = s_alive s /\
  s_wire s' = s_wire s ++ flat_map (fun x => match reply_of p (fst x) (snd x) with Some r => [r] | None => [] end) xs /\
  s_errors s' = (s_errors s + Z.of_nat (length (filter (fun x => failed (is_req x) (snd x)) xs)))%Z /\
  s_closing s' = (s_closing s || existsb (fun x => f_disconnect (finish (is_req x) (snd x))) xs).
Proof.
  induction xs as [|[rid o] xs IH]; intros s; cbn [fold_left flat_map filter existsb length].
  - rewrite app_nil_r, Z.add_0_r, orb_false_r. auto.
  - specialize (IH (handler_ends base p s (rid, o))). cbn zeta in IH. destruct IH as (I1 & I2 & I3 & I4).
    rewrite I1, I2, I3, I4. clear I1 I2 I3 I4.
    assert (Hq : is_req (rid, o) = match rid with Some _ => true | None => false end) by reflexivity.
    rewrite Hq. set (rq := match rid with Some _ => true | None => false end).
    cbn [handler_ends s_alive s_wire s_errors s_closing fst snd]. fold rq. rewrite finish_failed.
    repeat split.
    + destruct (reply_of p rid o); [now rewrite <- app_assoc | reflexivity].
    + destruct (failed rq o); cbn [length]; lia.
    + now rewrite orb_assoc.
Qed.

Theorem survives base p xs : s_alive (serve_all base p xs) = true.
Proof. unfold serve_all. now destruct (isolation base p xs sinit) as (-> & _). Qed.

(* ---------- the ladder regenerated from the source is the one [finish] implements ---------- *)
Lemma ladder_from_source : forall o,
  match raised o with Some x => handler_for x = ladder_expect o | None => ladder_expect o = None end.
Proof. intros o. destruct o; reflexivity. Qed.

(* a cancellation is caught by no clause: it passes through (the session's group deals with it) *)
Lemma cancellation_not_caught : handler_for XCancelled = None.
Proof. reflexivity. Qed.

(* ... and [finish] does what [ladder_expect] says *)
Lemma finish_follows_ladder : forall rq o,
  match ladder_expect o with
  | Some (LCode c, d, _) => f_result (finish rq o) = RError (JInt c) [] /\ f_disconnect (finish rq o) = d
  | Some (LOwn, d, _) => (exists c m, f_result (finish rq o) = RError (JInt c) m) /\ f_disconnect (finish rq o) = d
  | Some (LPayload, d, _) => f_disconnect (finish rq o) = d
  | _ => f_disconnect (finish rq o) = false
  end.
Proof. intros rq o. destruct o; cbn; auto; split; eauto. Qed.
