(* Proofs about the cost accounting model (model/Cost.v). *)
From Coq Require Import QArith Qround Qminmax Lqa.
From AV Require Import Base Gen_session Cost.
Local Open Scope Q_scope.

Lemma qmax_l a b : a <= qmax a b.
Proof. unfold qmax. destruct (Qle_bool a b) eqn:E; [now apply Qle_bool_iff|lra]. Qed.
Lemma qmax_r a b : b <= qmax a b.
Proof.
  unfold qmax. destruct (Qle_bool a b) eqn:E; [lra|].
  destruct (Qlt_le_dec b a) as [H|H]; [lra|]. apply Qle_bool_iff in H. congruence.
Qed.
Lemma qmax_cases a b : (a <= b /\ qmax a b == b) \/ (b < a /\ qmax a b == a).
Proof.
  unfold qmax. destruct (Qle_bool a b) eqn:E.
  - left. apply Qle_bool_iff in E. split; [auto|reflexivity].
  - right. split; [|reflexivity]. destruct (Qlt_le_dec b a) as [H|H]; auto.
    apply Qle_bool_iff in H. congruence.
Qed.
Lemma qmax_mono a b b' : b <= b' -> qmax a b <= qmax a b'.
Proof. intros H. destruct (qmax_cases a b) as [[? E]|[? E]], (qmax_cases a b') as [[? E']|[? E']]; lra. Qed.

(* ---------- cost is never negative ---------- *)
Lemma recalc_cost_nonneg c e s : 0 <= cost (recalc c e s).
Proof.
  unfold recalc. destruct (Qle_bool (hard c - soft c) 0); cbn; rewrite Qred_correct; apply qmax_l.
Qed.
Lemma bump_cost_nonneg c e d s : 0 <= cost (bump c e d s).
Proof.
  unfold bump. destruct (Qle_bool _ _); [cbn; rewrite Qred_correct; apply qmax_l|apply recalc_cost_nonneg].
Qed.
Lemma cstep_cost_nonneg c s l : 0 <= cost s -> 0 <= cost (cstep c s l).
Proof.
  intros H. destruct l as [[n|n|e|d| |dt] extra]; cbn [cstep];
    auto using bump_cost_nonneg, recalc_cost_nonneg.
Qed.
Theorem cost_nonneg c t0 ls : 0 <= cost (crun c t0 ls).
Proof.
  unfold crun. assert (H : 0 <= cost (init c t0)) by (cbn; lra). revert H.
  generalize (init c t0). induction ls as [|l ls IH]; intros s H; cbn; auto.
  apply IH. now apply cstep_cost_nonneg.
Qed.

(* ---------- the target as a function of the evaluated cost ---------- *)
Lemma fraction_mono c x y : soft c < hard c -> x <= y -> fraction_of c x <= fraction_of c y.
Proof.
  intros Hr Hxy. unfold fraction_of. apply qmax_mono.
  unfold Qdiv. apply Qmult_le_compat_r; [lra|]. apply Qlt_le_weak, Qinv_lt_0_compat. lra.
Qed.

Theorem target_monotone c x y : soft c < hard c -> (0 <= initial c)%Z -> x <= y ->
  (target_of c y <= target_of c x)%Z.
Proof.
  intros Hr Hi Hxy. unfold target_of. apply Z.max_le_compat_l. apply Qceiling_resp_le.
  pose proof (fraction_mono c x y Hr Hxy).
  assert (0 <= inject_Z (initial c)) by (rewrite <- (Zle_Qle 0); exact Hi).
  apply Qmult_le_compat_r; lra.
Qed.

Theorem target_below_soft c x : soft c < hard c -> (0 <= initial c)%Z -> x <= soft c ->
  target_of c x = initial c /\ fraction_of c x == 0.
Proof.
  intros Hr Hi Hx.
  assert (Hf : fraction_of c x == 0).
  { unfold fraction_of. destruct (qmax_cases 0 ((x - soft c) / (hard c - soft c))) as [[H E]|[H E]]; [|exact E].
    rewrite E. assert ((x - soft c) / (hard c - soft c) <= 0); [|lra].
    unfold Qdiv. rewrite <- (Qmult_0_l (/ (hard c - soft c))).
    apply Qmult_le_compat_r; [lra|]. apply Qlt_le_weak, Qinv_lt_0_compat. lra. }
  split; auto. unfold target_of. rewrite Hf.
  assert (E : (1 - 0) * inject_Z (initial c) == inject_Z (initial c)) by ring.
  rewrite E, Qceiling_Z. lia.
Qed.

Theorem target_above_hard c x : soft c < hard c -> (0 <= initial c)%Z -> hard c <= x ->
  target_of c x = 0%Z /\ 1 <= fraction_of c x.
Proof.
  intros Hr Hi Hx.
  assert (Hf : 1 <= fraction_of c x).
  { unfold fraction_of. eapply Qle_trans; [|apply qmax_r].
    apply Qle_shift_div_l; lra. }
  split; auto. unfold target_of.
  assert (0 <= inject_Z (initial c)) by (rewrite <- (Zle_Qle 0); exact Hi).
  assert (Hle : (1 - fraction_of c x) * inject_Z (initial c) <= 0).
  { rewrite <- (Qmult_0_l (inject_Z (initial c))). apply Qmult_le_compat_r; lra. }
  apply Qceiling_resp_le in Hle. change (Qceiling 0) with 0%Z in Hle. lia.
Qed.

(* a positive target means the delay fraction is below 1 *)
Lemma target_pos_fraction c x : (0 < initial c)%Z -> (0 < target_of c x)%Z -> fraction_of c x < 1.
Proof.
  intros Hi Ht. destruct (Qlt_le_dec (fraction_of c x) 1) as [H|H]; auto. exfalso.
  unfold target_of in Ht.
  assert (0 <= inject_Z (initial c)) by (rewrite <- (Zle_Qle 0); lia).
  assert (Hle : (1 - fraction_of c x) * inject_Z (initial c) <= 0).
  { rewrite <- (Qmult_0_l (inject_Z (initial c))). apply Qmult_le_compat_r; lra. }
  apply Qceiling_resp_le in Hle. change (Qceiling 0) with 0%Z in Hle. lia.
Qed.

Lemma fraction_nonneg c x : 0 <= fraction_of c x.
Proof. unfold fraction_of. apply qmax_l. Qed.

(* ---------- fraction and target always belong to the same evaluation ---------- *)
Definition Coherent (c : config) (s : cstate) : Prop :=
  (fraction s == 0 /\ ctarget s = initial c) \/
  (soft c < hard c /\ exists x, fraction s == fraction_of c x /\ ctarget s = target_of c x).

Lemma recalc_coherent c e s : Coherent c s -> Coherent c (recalc c e s).
Proof.
  intros H. unfold recalc. destruct (Qle_bool (hard c - soft c) 0) eqn:E; cbn.
  - destruct H as [H|H]; [left|right]; exact H.
  - right. split.
    + destruct (Qlt_le_dec (soft c) (hard c)) as [G|G]; auto.
      assert (hard c - soft c <= 0) by lra. apply Qle_bool_iff in H0. congruence.
    + eexists. split; [apply Qred_correct|reflexivity].
Qed.
Lemma bump_coherent c e d s : Coherent c s -> Coherent c (bump c e d s).
Proof.
  intros H. unfold bump. destruct (Qle_bool _ _); [exact H|]. apply recalc_coherent. exact H.
Qed.
Lemma cstep_coherent c s l : Coherent c s -> Coherent c (cstep c s l).
Proof.
  intros H. destruct l as [[n|n|e|d| |dt] extra]; cbn [cstep];
    auto using bump_coherent, recalc_coherent.
Qed.
Theorem run_coherent c t0 ls : Coherent c (crun c t0 ls).
Proof.
  unfold crun. assert (H : Coherent c (init c t0)) by (left; cbn; split; reflexivity). revert H.
  generalize (init c t0). induction ls as [|l ls IH]; intros s H; cbn; auto.
  apply IH. now apply cstep_coherent.
Qed.

(* an admitted request sleeps fraction * cost_sleep, between 0 and cost_sleep *)
Theorem sleep_proportional_bounded c t0 ls d :
  (0 < initial c)%Z -> 0 <= cost_sleep c ->
  admission c (crun c t0 ls) = Some d ->
  d == fraction (crun c t0 ls) * cost_sleep c /\ 0 <= d /\ d <= cost_sleep c.
Proof.
  intros Hi Hs. unfold admission. set (s := crun c t0 ls).
  destruct (ctarget s <=? 0)%Z eqn:E; [discriminate|]. intros H. injection H as <-.
  apply Z.leb_gt in E. split; [reflexivity|].
  destruct (run_coherent c t0 ls) as [[Hf _]|(_ & x & Hf & Ht)]; fold s in Hf.
  - rewrite Hf. lra.
  - fold s in Ht. rewrite Ht in E. pose proof (target_pos_fraction c x Hi E).
    pose proof (fraction_nonneg c x). rewrite Hf. split.
    + apply Qmult_le_0_compat; lra.
    + rewrite <- (Qmult_1_l (cost_sleep c)) at 2. apply Qmult_le_compat_r; lra.
Qed.

(* once a re-evaluation has seen a cost at or above the hard limit, admission is refused *)
Theorem refused_after_hard c e s :
  soft c < hard c -> (0 <= initial c)%Z ->
  hard c <= cost (recalc c e s) + e -> admission c (recalc c e s) = None.
Proof.
  intros Hr Hi. unfold recalc, admission.
  assert (E : Qle_bool (hard c - soft c) 0 = false).
  { destruct (Qle_bool (hard c - soft c) 0) eqn:E; auto. apply Qle_bool_iff in E. lra. }
  rewrite E. cbn. intros Hx.
  destruct (target_above_hard c _ Hr Hi Hx) as [-> _]. reflexivity.
Qed.

(* ... and while the evaluated cost is at or below the soft limit nothing is delayed *)
Theorem unthrottled_below_soft c e s :
  soft c < hard c -> (0 < initial c)%Z ->
  cost (recalc c e s) + e <= soft c ->
  (exists d, admission c (recalc c e s) = Some d /\ d == 0) /\ ctarget (recalc c e s) = initial c.
Proof.
  intros Hr Hi. unfold recalc, admission.
  assert (E : Qle_bool (hard c - soft c) 0 = false).
  { destruct (Qle_bool (hard c - soft c) 0) eqn:E; auto. apply Qle_bool_iff in E. lra. }
  rewrite E. cbn. intros Hx.
  destruct (target_below_soft c _ Hr (Z.lt_le_incl _ _ Hi) Hx) as [Ht Hf]. rewrite Ht.
  assert (E2 : (initial c <=? 0)%Z = false) by (apply Z.leb_gt; lia). rewrite E2.
  split; auto. eexists. split; [reflexivity|]. rewrite Qred_correct, Hf. ring.
Qed.

(* a client session (hard <= soft) is never throttled or refused *)
Lemma client_step c s l : hard c <= soft c ->
  fraction s == 0 /\ ctarget s = initial c ->
  fraction (cstep c s l) == 0 /\ ctarget (cstep c s l) = initial c.
Proof.
  intros Hr H.
  assert (E : Qle_bool (hard c - soft c) 0 = true) by (apply Qle_bool_iff; lra).
  assert (R : forall e s, fraction s == 0 /\ ctarget s = initial c ->
                          fraction (recalc c e s) == 0 /\ ctarget (recalc c e s) = initial c).
  { intros e s0 H0. unfold recalc. rewrite E. cbn. exact H0. }
  assert (B : forall e d s, fraction s == 0 /\ ctarget s = initial c ->
                            fraction (bump c e d s) == 0 /\ ctarget (bump c e d s) = initial c).
  { intros e d s0 H0. unfold bump. destruct (Qle_bool (qabs _) recalc_threshold); [exact H0|]. apply R. exact H0. }
  destruct l as [[n|n|e|d| |dt] extra]; cbn [cstep]; auto.
Qed.
Theorem client_never_throttled c t0 ls : hard c <= soft c -> (0 < initial c)%Z ->
  let s := crun c t0 ls in
  fraction s == 0 /\ ctarget s = initial c /\ exists d, admission c s = Some d /\ d == 0.
Proof.
  intros Hr Hi. unfold crun.
  assert (H : fraction (init c t0) == 0 /\ ctarget (init c t0) = initial c) by (cbn; split; reflexivity).
  revert H. generalize (init c t0). induction ls as [|l ls IH]; intros s H; cbn [fold_left].
  - destruct H as [Hf Ht]. repeat split; auto. unfold admission. rewrite Ht.
    assert (E : (initial c <=? 0)%Z = false) by (apply Z.leb_gt; lia). rewrite E.
    eexists. split; [reflexivity|]. rewrite Hf. ring.
  - apply IH. now apply client_step.
Qed.

(* ---------- charges, decay, laziness ---------- *)
Theorem recalc_decays c e s :
  cost (recalc c e s) == qmax 0 (cost s - (now s - cost_time s) * decay c) /\
  cost_last (recalc c e s) = cost (recalc c e s) /\ cost_time (recalc c e s) = now s.
Proof.
  unfold recalc. destruct (Qle_bool (hard c - soft c) 0); cbn [cost cost_last cost_time];
    (split; [apply Qred_correct|split; reflexivity]).
Qed.

Theorem bump_charges c e d s :
  let charged := qmax 0 (cost s + d) in
  (qabs (charged - cost_last s) <= recalc_threshold ->
     cost (bump c e d s) == charged /\ cost_last (bump c e d s) = cost_last s /\
     ctarget (bump c e d s) = ctarget s /\ fraction (bump c e d s) = fraction s) /\
  (recalc_threshold < qabs (charged - cost_last s) ->
     cost (bump c e d s) == qmax 0 (charged - (now s - cost_time s) * decay c) /\
     cost_last (bump c e d s) = cost (bump c e d s)).
Proof.
  intros charged. unfold bump.
  assert (Hq : Qred (qmax 0 (cost s + d)) == charged) by apply Qred_correct.
  assert (Habs : qabs (Qred (qmax 0 (cost s + d)) - cost_last s) == qabs (charged - cost_last s)).
  { unfold qabs. destruct (Qle_bool 0 (Qred (qmax 0 (cost s + d)) - cost_last s)) eqn:E1;
      destruct (Qle_bool 0 (charged - cost_last s)) eqn:E2; try (rewrite Hq; reflexivity).
    - apply Qle_bool_iff in E1. rewrite Hq in E1. apply Qle_bool_iff in E1. congruence.
    - apply Qle_bool_iff in E2. rewrite <- Hq in E2. apply Qle_bool_iff in E2. congruence. }
  split; intros H.
  - assert (E : Qle_bool (qabs (Qred (qmax 0 (cost s + d)) - cost_last s)) recalc_threshold = true).
    { apply Qle_bool_iff. rewrite Habs. exact H. }
    rewrite E. cbn. repeat split; auto.
  - assert (E : Qle_bool (qabs (Qred (qmax 0 (cost s + d)) - cost_last s)) recalc_threshold = false).
    { destruct (Qle_bool _ _) eqn:E; auto. apply Qle_bool_iff in E. rewrite Habs in E. lra. }
    rewrite E. destruct (recalc_decays c e
      {| cost := Qred (qmax 0 (cost s + d)); cost_last := cost_last s; cost_time := cost_time s;
         fraction := fraction s; ctarget := ctarget s; errors := errors s; now := now s |}) as (R1 & R2 & _).
    cbn in R1. split; [|exact R2]. rewrite R1.
    destruct (qmax_cases 0 (Qred (qmax 0 (cost s + d)) - (now s - cost_time s) * decay c)) as [[? E1]|[? E1]],
             (qmax_cases 0 (charged - (now s - cost_time s) * decay c)) as [[? E2]|[? E2]];
      rewrite E1, E2; try rewrite Hq in *; try reflexivity; lra.
Qed.

(* ---------- the arithmetic regenerated from the source is the arithmetic of the model ---------- *)
Lemma generated_known :
  forallb aknown [gen_recv_charge; gen_send_charge; gen_error_charge; gen_bump_cost; gen_bump_drift; gen_recalc_decayed;
                  gen_soft_range; gen_eval_cost; gen_fraction; gen_target; gen_sleep] = true.
Proof. reflexivity. Qed.

Lemma qmax0_inject z : qmax 0 (inject_Z z) == inject_Z (Z.max 0 z).
Proof.
  unfold qmax. destruct (Qle_bool 0 (inject_Z z)) eqn:E.
  - apply Qle_bool_iff in E. unfold Qle in E. cbn in E. rewrite Z.max_r by lia. reflexivity.
  - assert (H : ~ 0 <= inject_Z z) by (intros H; apply Qle_bool_iff in H; congruence).
    unfold Qle in H. cbn in H. rewrite Z.max_l by lia. reflexivity.
Qed.

Theorem generated_arithmetic c s delta len exc extra x :
  let env := aenv c s delta len exc extra x in
  aeval env gen_recv_charge = len * bw c /\
  aeval env gen_send_charge = len * bw c /\
  aeval env gen_error_charge = error_base c + exc /\
  aeval env gen_bump_cost = qmax 0 (cost s + delta) /\
  aeval env gen_bump_drift = qabs (cost s - cost_last s) /\
  aeval env gen_recalc_decayed = qmax 0 (cost s - (now s - cost_time s) * decay c) /\
  aeval env gen_soft_range = hard c - soft c /\
  aeval env gen_eval_cost = cost s + extra /\
  aeval env gen_fraction = fraction_of c x /\
  aeval env gen_target == inject_Z (Z.max 0 (Qceiling ((1 - fraction s) * inject_Z (initial c)))) /\
  aeval env gen_sleep = fraction s * cost_sleep c.
Proof.
  cbv zeta. repeat split; try reflexivity. cbn. apply qmax0_inject.
Qed.

(* the model's steps, restated through the generated expressions *)
Theorem recalc_uses_generated c extra s :
  cost (recalc c extra s) == aeval (aenv c s 0 0 0 extra 0) gen_recalc_decayed /\
  (Qle_bool (aeval (aenv c s 0 0 0 extra 0) gen_soft_range) 0 = false ->
   let s1 := recalc c extra s in
   fraction s1 == aeval (aenv c s 0 0 0 extra (cost s1 + extra)) gen_fraction /\
   inject_Z (ctarget s1) == aeval (aenv c s1 0 0 0 extra 0) gen_target).
Proof.
  split.
  - unfold recalc. destruct (Qle_bool (hard c - soft c) 0); cbn; apply Qred_correct.
  - cbn [aeval gen_soft_range aenv]. intros E. cbv zeta. unfold recalc. rewrite E. cbn [fraction ctarget cost].
    split; [apply Qred_correct|].
    destruct (generated_arithmetic c
      {| cost := Qred (qmax 0 (cost s - (now s - cost_time s) * decay c)); cost_last := Qred (qmax 0 (cost s - (now s - cost_time s) * decay c));
         cost_time := now s; fraction := Qred (fraction_of c (Qred (qmax 0 (cost s - (now s - cost_time s) * decay c)) + extra));
         ctarget := target_of c (Qred (qmax 0 (cost s - (now s - cost_time s) * decay c)) + extra); errors := errors s; now := now s |}
      0 0 0 extra 0) as (_ & _ & _ & _ & _ & _ & _ & _ & _ & Ht & _).
    cbn [fraction initial] in Ht. rewrite Ht. unfold target_of.
    assert (Hq : Qceiling ((1 - Qred (fraction_of c (Qred (qmax 0 (cost s - (now s - cost_time s) * decay c)) + extra))) * inject_Z (initial c)) =
                 Qceiling ((1 - fraction_of c (Qred (qmax 0 (cost s - (now s - cost_time s) * decay c)) + extra)) * inject_Z (initial c))).
    { apply Qceiling_comp. now rewrite Qred_correct. }
    rewrite Hq. reflexivity.
Qed.
