From AV Require Import Base Invoke.

Lemma mem_map_filter f (s : sig) x :
  mem x (map pname (filter f s)) = existsb (fun p => N.eqb (pname p) x && f p) s.
Proof.
  unfold mem. induction s as [|p s IH]; cbn; auto.
  destruct (f p) eqn:E; cbn; rewrite IH.
  - rewrite andb_true_r. now rewrite N.eqb_sym.
  - now rewrite andb_false_r.
Qed.

Lemma existsb_impl {A} (f g : A -> bool) l :
  (forall x, f x = true -> g x = true) -> existsb f l = true -> existsb g l = true.
Proof.
  intros H. induction l as [|x l IH]; cbn; auto. intros E. apply orb_true_iff in E as [E|E].
  - now rewrite (H _ E).
  - rewrite IH; auto. apply orb_true_r.
Qed.

Lemma has_false_kind k (s : sig) p : has k s = false -> In p s -> is_kind k p = false.
Proof.
  unfold has. intros H Hin. destruct (is_kind k p) eqn:E; auto.
  assert (existsb (is_kind k) s = true) by (apply existsb_exists; eauto). congruence.
Qed.

(* no keyword-only parameter without default <-> the list signature_info collects is empty *)
Lemma kwonly_nil s :
  match map pname (filter (fun p => is_kind KO p && negb (has_default p)) s) with [] => true | _ => false end
  = no_required_kwonly s.
Proof.
  unfold no_required_kwonly. induction s as [|p s IH]; [reflexivity|]. cbn [filter forallb].
  destruct (is_kind KO p) eqn:Ek, (has_default p) eqn:Ed; cbn [andb negb orb map]; auto.
Qed.

(* positional calls *)
Theorem sound_pos s n :
  accept (signature_info s) (ByPos n) = true -> py_bind s (ByPos n) = true.
Proof.
  cbn [accept signature_info min_args max_args required_kwonly py_bind]. intros H.
  apply andb_true_iff in H as [H Hk]. rewrite kwonly_nil in Hk. rewrite Hk, andb_true_r.
  apply andb_true_iff in H as [H1 H2]. apply negb_true_iff, Nat.ltb_ge in H1.
  apply andb_true_iff; split; [now apply Nat.leb_le|].
  destruct (has VP s); [apply orb_true_r|]. apply negb_true_iff, Nat.ltb_ge in H2.
  apply orb_true_iff; left. now apply Nat.leb_le.
Qed.

Theorem exact_pos s n :
  py_bind s (ByPos n) = true -> accept (signature_info s) (ByPos n) = true.
Proof.
  cbn [accept signature_info min_args max_args required_kwonly py_bind]. intros H.
  apply andb_true_iff in H as [H Hk]. rewrite kwonly_nil, Hk, andb_true_r.
  apply andb_true_iff in H as [H1 H2]. apply Nat.leb_le in H1.
  apply andb_true_iff; split; [apply negb_true_iff, Nat.ltb_ge; lia|].
  destruct (has VP s); auto. rewrite orb_false_r in H2. apply Nat.leb_le in H2.
  apply negb_true_iff, Nat.ltb_ge. lia.
Qed.

(* calls by name *)
Lemma accept_names_no_po s g : accept (signature_info s) (ByName g) = true -> has PO s = false.
Proof. cbn. destruct (has PO s); [discriminate|reflexivity]. Qed.

Theorem sound_names s g :
  accept (signature_info s) (ByName g) = true -> py_bind s (ByName g) = true.
Proof.
  intros H. pose proof (accept_names_no_po s g H) as Hpo.
  cbn [accept signature_info other_names required_names] in H. rewrite Hpo in H.
  cbn [py_bind]. apply andb_true_iff. split.
  - apply forallb_forall. intros p Hp.
    assert (Hreq : forallb (fun r => mem r g)
              (map pname (filter (fun p => (is_kind PK p || is_kind KO p) && negb (has_default p)) s)) = true).
    { destruct (has VK s); apply andb_true_iff in H as [H _]; exact H. }
    rewrite forallb_forall in Hreq. pose proof (has_false_kind PO s p Hpo Hp) as Hnp.
    destruct (pk p) eqn:Ek; auto.
    + unfold is_kind in Hnp. rewrite Ek in Hnp. discriminate.
    + destruct (has_default p) eqn:Ed; auto. cbn [orb]. apply Hreq. apply in_map.
      apply filter_In. split; auto. unfold is_kind. now rewrite Ek, Ed.
    + destruct (has_default p) eqn:Ed; auto. cbn [orb]. apply Hreq. apply in_map.
      apply filter_In. split; auto. unfold is_kind. now rewrite Ek, Ed.
  - apply forallb_forall. intros x Hx. destruct (has VK s); [reflexivity|]. cbn [orb].
    apply andb_true_iff in H as [_ H]. rewrite forallb_forall in H. specialize (H x Hx).
    rewrite !mem_map_filter in H. apply orb_true_iff in H as [H|H];
      (eapply existsb_impl; [|exact H]); intros p Hp; apply andb_true_iff in Hp as [Hp1 Hp2];
      apply andb_true_iff in Hp2 as [Hp2 _]; now rewrite Hp1, Hp2.
Qed.

Theorem exact_names s g :
  py_bind s (ByName g) = true -> has PO s = false ->
  accept (signature_info s) (ByName g) = true.
Proof.
  intros H Hpo. cbn [py_bind] in H. apply andb_true_iff in H as [H1 H2].
  rewrite forallb_forall in H1, H2.
  cbn [accept signature_info other_names required_names]. rewrite Hpo.
  assert (Hreq : forallb (fun r => mem r g)
            (map pname (filter (fun p => (is_kind PK p || is_kind KO p) && negb (has_default p)) s)) = true).
  { apply forallb_forall. intros x Hx. apply in_map_iff in Hx as (p & <- & Hp).
    apply filter_In in Hp as [Hp Hf]. apply andb_true_iff in Hf as [Hf1 Hf2].
    specialize (H1 p Hp). apply negb_true_iff in Hf2. rewrite Hf2 in H1.
    unfold is_kind in Hf1. destruct (pk p); try discriminate; exact H1. }
  destruct (has VK s) eqn:Evk; rewrite Hreq; [reflexivity|]. cbn [andb].
  apply forallb_forall. intros x Hx. specialize (H2 x Hx). cbn [orb] in H2.
  rewrite !mem_map_filter. apply existsb_exists in H2 as (p & Hp & Hx2).
  apply andb_true_iff in Hx2 as [Hn Hkind].
  destruct (has_default p) eqn:Ed.
  - apply orb_true_iff; right. apply existsb_exists. exists p. split; auto. now rewrite Hn, Hkind, Ed.
  - apply orb_true_iff; left. apply existsb_exists. exists p. split; auto. now rewrite Hn, Hkind, Ed.
Qed.

Theorem codes h c : match handler_invocation h c with
                    | None => exists s, h = Some s /\ accept (signature_info s) c = true
                    | Some code => (h = None /\ code = METHOD_NOT_FOUND) \/
                                   (exists s, h = Some s /\ accept (signature_info s) c = false /\ code = INVALID_ARGS)
                    end.
Proof.
  unfold handler_invocation. destruct h as [s|]; [|left; auto].
  destruct (accept (signature_info s) c) eqn:E; [eauto|]. right. eauto.
Qed.
