(* The translated SOCKS request builders (model/SocksCode.v over gen/Gen_socks.v) do what the hand-written builders of
   model/Socks.v do, for every destination, port and credential. *)
From AV Require Import Base Gen_socks Socks SocksCode.
Local Arguments Nat.ltb : simpl never.
Local Arguments Nat.leb : simpl never.
Local Arguments N.ltb : simpl never.

Lemma builders_known :
  sknown 6 socks4_start_code && sknown 6 socks5_destination_code && sknown 6 socks5_authentication_code
  && socks4a_inherits_start && random_auth_is_user_auth = true.
Proof. vm_compute. reflexivity. Qed.

(* SOCKS4 / SOCKS4a: the one request (the constructor has refused IPv6 address objects) *)
Theorem start4_generated : forall p d port a, (forall x, d <> DV6 x) ->
  run_builder socks4_start_code {| i_dest := d; i_port := port; i_auth := a |} =
  RBytes (start4 {| c_proto := p; c_dest := d; c_port := port; c_auth := a |}).
Proof.
  intros p d port a Hd. unfold run_builder, start4. destruct d as [x|x|h]; [| exfalso; apply (Hd x); reflexivity |];
    destruct a as [[u pw]|]; cbn; rewrite ?app_nil_r; repeat rewrite <- app_assoc; reflexivity.
Qed.

(* SOCKS5: the destination field of the CONNECT request (names longer than 255 octets fail the assertion) *)
Theorem destination_generated : forall d port a,
  match d with DHost h => length h <= 255 | _ => True end ->
  run_builder socks5_destination_code {| i_dest := d; i_port := port; i_auth := a |} = RBytes (destination_bytes d port).
Proof.
  intros d port a Hd. unfold run_builder, destination_bytes. destruct d as [x|x|h]; cbn; try reflexivity.
  destruct (Nat.leb_spec (length h) 255) as [H1|H1]; [|lia].
  cbn. destruct (Nat.ltb_spec (length h) 256) as [H2|H2]; [|lia]. cbn. reflexivity.
Qed.

Theorem destination_long_name_asserts : forall h port a, 255 < length h ->
  run_builder socks5_destination_code {| i_dest := DHost h; i_port := port; i_auth := a |} = RAssert.
Proof.
  intros h port a H. unfold run_builder. cbn. destruct (Nat.leb_spec (length h) 255) as [H1|H1]; [lia|reflexivity].
Qed.

(* SOCKS5: the RFC 1929 message and the methods offered; lengths outside 1..255 are refused *)
Theorem authentication_generated : forall d port a,
  run_builder socks5_authentication_code {| i_dest := d; i_port := port; i_auth := a |} =
  match authentication a with
  | Some _ => RProto
  | None => RPair (auth_bytes a) (auth_methods a)
  end.
Proof.
  intros d port a. unfold run_builder, authentication, auth_bytes, auth_methods, auth_len_ok. destruct a as [[u pw]|]; cbn; [|reflexivity].
  change s5_auth_len_bound with 256.
  destruct (Nat.ltb_spec 0 (length u)) as [U1|U1]; cbn; [|reflexivity].
  destruct (Nat.ltb_spec (length u) 256) as [U2|U2]; cbn; [|reflexivity].
  destruct (Nat.ltb_spec 0 (length pw)) as [P1|P1]; cbn; [|reflexivity].
  destruct (Nat.ltb_spec (length pw) 256) as [P2|P2]; cbn; [|reflexivity].
  change (1 <? 256)%N with true. cbn. rewrite app_nil_r. reflexivity.
Qed.

(* ---- the reply side ---- *)
Local Arguments N.eqb : simpl never.
Local Arguments nth0 : simpl never.
Local Arguments mem : simpl never.
Local Arguments auth_methods : simpl never.
Local Arguments auth_bytes : simpl never.
Local Arguments destination_bytes : simpl never.

Ltac by_cases :=
  cbv delta [s4_granted s5_version s5_auth_version s5_atyps s5_connect_prefix request_connection start5]; cbn;
  repeat match goal with
         | |- context [if ?b then _ else _] => destruct b; cbn
         | |- context [match ?b with true => _ | false => _ end] => destruct b; cbn
         end; try reflexivity.

(* each state method reads as many bytes as the model says and decides as the model says *)
Theorem socks4_first_response_generated : forall c d,
  run_reply socks4_first_response_code c d = RAct (decide c S4First d) (Some (need S4First)).
Proof. intros c d. unfold run_reply. cbn. by_cases. Qed.

Theorem socks5_start_generated : forall c, c_proto c = P5 ->
  run_reply socks5_start_code c [] = RAct (decide c Start []) None.
Proof. intros c H. unfold run_reply. cbn. rewrite H. reflexivity. Qed.

Theorem socks5_first_response_generated : forall c d,
  run_reply socks5_first_response_code c d = RAct (decide c S5First d) (Some (need S5First)).
Proof. intros c d. unfold run_reply. cbn. by_cases. Qed.

Theorem socks5_auth_response_generated : forall c d,
  run_reply socks5_auth_response_code c d = RAct (decide c S5Auth d) (Some (need S5Auth)).
Proof. intros c d. unfold run_reply. cbn. by_cases. Qed.

Theorem socks5_connect_response_generated : forall c d,
  run_reply socks5_connect_response_code c d = RAct (decide c S5Conn d) (Some (need S5Conn)).
Proof. intros c d. unfold run_reply. cbn. by_cases. Qed.

Theorem socks5_connect_response_rest_generated : forall c n d,
  run_rest c n d = RAct (decide c (S5Rest n) d) (Some (need (S5Rest n))).
Proof. intros c n d. unfold run_rest. cbn. reflexivity. Qed.

Lemma reply_known : socks4a_inherits_first_response = true.
Proof. reflexivity. Qed.
