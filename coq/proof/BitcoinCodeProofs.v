(* C07: the statements translated from BitcoinFramer._receive_header / BinaryFramer.receive_message, run over the byte
   queue, are the model's receive_message - for every checksum function, every parameter set, every queue state. *)
From AV Require Import Base Bitcoin Gen_framing BitcoinCode.

Lemma framer_code_known : fknown 4 btc_header_code && fknown 4 btc_message_code = true.
Proof. reflexivity. Qed.

Local Opaque bq_receive rstrip0 le_value bytes_eqb firstn skipn N.ltb.

Theorem generated_receive_message cks P buf chunks : p_block_cmd P = btc_block_command ->
  receive_message_generated cks P buf chunks = FDone (receive_message cks P buf chunks).
Proof.
  intros Hb. unfold receive_message_generated, receive_message, oversized. rewrite Hb. unfold btc_block_command.
  cbn. destruct (bq_receive 24 buf chunks) as [[[h b1] c1]|]; [|reflexivity].
  cbn. destruct (bytes_eqb (firstn 4 h) (p_magic P)); cbn; [|reflexivity].
  destruct (p_max_payload P <? le_value (firstn 4 (skipn 16 h)))%N; cbn.
  - destruct (bytes_eqb (rstrip0 (firstn 12 (skipn 4 h))) [98; 108; 111; 99; 107]%N); cbn.
    + destruct (p_max_block P <? le_value (firstn 4 (skipn 16 h)))%N; cbn; [reflexivity|].
      destruct (bq_receive (le_value (firstn 4 (skipn 16 h))) b1 c1) as [[[pl b2] c2]|]; [|reflexivity].
      cbn. destruct (bytes_eqb (cks pl) (firstn 4 (skipn 20 h))); reflexivity.
    + reflexivity.
  - destruct (bq_receive (le_value (firstn 4 (skipn 16 h))) b1 c1) as [[[pl b2] c2]|]; [|reflexivity].
    cbn. destruct (bytes_eqb (cks pl) (firstn 4 (skipn 20 h))); reflexivity.
Qed.

(* ================= the writing side ================= *)
Local Transparent firstn skipn.

Theorem generated_pad_command c : pad_generated c = Some (pad_command c).
Proof.
  unfold pad_generated, pad_command. cbn [prun btc_pad_code].
  destruct (Nat.leb_spec (length c) 12) as [Hle|Hgt].
  - assert (E : (Z.of_nat 12 - Z.of_nat (length c) <? 0)%Z = false) by (apply Z.ltb_ge; lia). rewrite E.
    destruct (ends_nul c); [reflexivity|].
    replace (Z.to_nat (Z.of_nat 12 - Z.of_nat (length c))) with (12 - length c)%nat by lia. reflexivity.
  - assert (E : (Z.of_nat 12 - Z.of_nat (length c) <? 0)%Z = true) by (apply Z.ltb_lt; lia). now rewrite E.
Qed.

Theorem generated_frame cks P c p : frame_generated cks P c p = Some (frame cks P c p).
Proof.
  unfold frame_generated, frame. cbn [jparts jpart_bytes btc_build_header_parts btc_frame_parts].
  rewrite generated_pad_command. destruct (pad_command c) as [c12|]; cbn; [|reflexivity].
  rewrite !app_nil_r, <- !app_assoc. reflexivity.
Qed.
