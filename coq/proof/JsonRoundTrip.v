(* C04, tier 3: json.loads (json.dumps v) = v on the text level - the printer and the parser of
   lib/Json.v are inverse to each other for every value the printer is specified for. *)
From AV Require Import Base Utf8 Json.
From Coq Require Import Lia ZifyN ZifyBool.
Local Open Scope N_scope.

(* ---------- hexadecimal escapes ---------- *)
Lemma hexval_hexdigit n : n < 16 -> hexval (hexdigit n) = Some n.
Proof.
  intros H. assert (E : forallb (fun k => match hexval (hexdigit k) with Some v => N.eqb v k | None => false end)
                                (map N.of_nat (seq 0 16)) = true) by (vm_compute; reflexivity).
  rewrite forallb_forall in E. specialize (E n).
  assert (Hin : In n (map N.of_nat (seq 0 16))).
  { apply in_map_iff. exists (N.to_nat n). split; [lia|]. apply in_seq. lia. }
  specialize (E Hin). destruct (hexval (hexdigit n)) as [v|]; [|discriminate]. apply N.eqb_eq in E. now subst.
Qed.

Definition hex_digits (c : N) : text :=
  [hexdigit (c / 4096); hexdigit ((c / 256) mod 16); hexdigit ((c / 16) mod 16); hexdigit (c mod 16)].
Lemma u_escape_digits c : u_escape c = 92 :: 117 :: hex_digits c.
Proof. reflexivity. Qed.

Lemma hex4_digits c r : c < 65536 -> hex4 (hex_digits c ++ r) = Some (c, r).
Proof.
  intros H. unfold hex_digits. cbn [app hex4].
  assert (H1 : c / 4096 < 16) by (apply N.div_lt_upper_bound; lia).
  assert (H2 : (c / 256) mod 16 < 16) by (apply N.mod_lt; lia).
  assert (H3 : (c / 16) mod 16 < 16) by (apply N.mod_lt; lia).
  assert (H4 : c mod 16 < 16) by (apply N.mod_lt; lia).
  rewrite !hexval_hexdigit by assumption. f_equal. f_equal.
  pose proof (N.div_mod c 16 ltac:(lia)). pose proof (N.div_mod (c / 16) 16 ltac:(lia)).
  pose proof (N.div_mod (c / 16 / 16) 16 ltac:(lia)).
  assert (E1 : c / 256 = c / 16 / 16) by (rewrite N.div_div by lia; reflexivity).
  assert (E2 : c / 4096 = c / 16 / 16 / 16) by (rewrite !N.div_div by lia; reflexivity).
  assert (E3 : c / 16 / 16 / 16 < 16) by (rewrite <- E2; exact H1).
  assert (E4 : (c / 16 / 16 / 16) mod 16 = c / 16 / 16 / 16) by (apply N.mod_small; exact E3).
  rewrite E1, E2. clear E1 E2 H1 H2 H3 H4.
  generalize dependent (c mod 16). generalize dependent ((c / 16) mod 16). generalize dependent ((c / 16 / 16) mod 16).
  generalize dependent ((c / 16 / 16 / 16) mod 16). generalize dependent (c / 16 / 16 / 16).
  generalize dependent (c / 16 / 16). generalize dependent (c / 16). intros. nia.
Qed.

Lemma hex4_digits' c r : c < 65536 ->
  hex4 (hexdigit (c / 4096) :: hexdigit ((c / 256) mod 16) :: hexdigit ((c / 16) mod 16) :: hexdigit (c mod 16) :: r)
  = Some (c, r).
Proof. exact (hex4_digits c r). Qed.

(* ---------- numeral patterns as equality tests ---------- *)
Ltac split_N a :=
  destruct a as [|a]; [try reflexivity; try congruence|];
  repeat (match goal with |- context [match a with _ => _ end] => destruct a as [a|a|] end; try reflexivity; try congruence).

Lemma match_92_117 {A} (r : text) (X : text -> A) (D : A) :
  match r with 92 :: 117 :: r3 => X r3 | _ => D end =
  match r with a :: b :: r3 => if (a =? 92) && (b =? 117) then X r3 else D | _ => D end.
Proof.
  destruct r as [|a r]; [reflexivity|].
  destruct (N.eqb_spec a 92) as [->|Ha].
  - destruct r as [|b r3]; [reflexivity|]. destruct (N.eqb_spec b 117) as [->|Hb]; [reflexivity|].
    cbn [andb]. split_N b.
  - cbn [andb]. destruct r as [|b r3].
    + split_N a.
    + split_N a.
Qed.

(* ---------- strings ---------- *)
Definition is_high (c : N) : bool := (55296 <=? c) && (c <=? 56319).
Definition is_low (c : N) : bool := (56320 <=? c) && (c <=? 57343).
(* the printer escapes a lone high surrogate and a lone low surrogate separately; read back, an
   adjacent (high, low) pair of escapes is ONE astral character: such a string is not a fixed point
   (Python's json has the same behaviour) *)
Fixpoint no_pair (s : text) : bool :=
  match s with
  | a :: r => match r with b :: _ => negb (is_high a && is_low b) | [] => true end && no_pair r
  | [] => true
  end.
Definition rt_text (s : text) : bool := forallb (fun c => c <? 1114112) s && no_pair s.

Definition NoLowEscape (R : text) : Prop :=
  forall a b r3 u2 r4, R = a :: b :: r3 -> (a =? 92) && (b =? 117) = true -> hex4 r3 = Some (u2, r4) -> is_low u2 = false.

Lemma esc_char_cases c : c < 1114112 ->
  (exists x, esc_char c = [92; x] /\ x <> 117) \/
  (esc_char c = [c] /\ c <> 92) \/
  (c < 65536 /\ esc_char c = 92 :: 117 :: hex_digits c) \/
  (65536 <= c /\ esc_char c = (92 :: 117 :: hex_digits (55296 + (c - 65536) / 1024)) ++
                             (92 :: 117 :: hex_digits (56320 + (c - 65536) mod 1024))).
Proof.
  intros H. unfold esc_char.
  destruct (c =? 34) eqn:E1; [left; exists 34; split; [reflexivity|discriminate]|].
  destruct (c =? 92) eqn:E2; [left; exists 92; split; [reflexivity|discriminate]|].
  destruct (c =? 10) eqn:E3; [left; exists 110; split; [reflexivity|discriminate]|].
  destruct (c =? 13) eqn:E4; [left; exists 114; split; [reflexivity|discriminate]|].
  destruct (c =? 9) eqn:E5; [left; exists 116; split; [reflexivity|discriminate]|].
  destruct (c =? 8) eqn:E6; [left; exists 98; split; [reflexivity|discriminate]|].
  destruct (c =? 12) eqn:E7; [left; exists 102; split; [reflexivity|discriminate]|].
  destruct ((32 <=? c) && (c <=? 126)) eqn:E8; [right; left; split; [reflexivity|lia]|].
  destruct (c <? 65536) eqn:E9; [right; right; left; split; [lia|reflexivity]|].
  right; right; right. split; [lia|reflexivity].
Qed.

Lemma nolow_follow s rest : forallb (fun c => c <? 1114112) s = true ->
  match s with d :: _ => is_low d = false | [] => True end ->
  NoLowEscape (flat_map esc_char s ++ 34 :: rest).
Proof.
  intros Hw Hd a b r3 u2 r4 E Hab Hh. destruct s as [|d s'].
  - cbn in E. injection E as <- _. discriminate.
  - cbn [forallb] in Hw. apply andb_true_iff in Hw as [Hw _]. cbn [flat_map] in E.
    apply andb_true_iff in Hab as [Ha Hb]. apply N.eqb_eq in Ha, Hb. subst a b.
    destruct (esc_char_cases d ltac:(lia)) as [(x & Ex & Hx)|[(Ex & Hx)|[(Hlt & Ex)|(Hge & Ex)]]]; rewrite Ex in E; cbn [app] in E.
    + injection E as E _. congruence.
    + injection E as E. congruence.
    + injection E as <-. rewrite hex4_digits' in Hh by lia. injection Hh as <- _. exact Hd.
    + assert (Hq : (d - 65536) / 1024 < 1024) by (apply N.div_lt_upper_bound; lia).
      remember (55296 + (d - 65536) / 1024) as hi eqn:Ehi. remember (56320 + (d - 65536) mod 1024) as lo eqn:Elo.
      assert (Hhi : hi < 56320) by lia. clear Ehi Elo Hq.
      injection E as <-. rewrite hex4_digits' in Hh by lia. injection Hh as <- _. unfold is_low. lia.
Qed.

Lemma scan_step_plain f c R acc : (c =? 34) = false -> (c <? 32) = false -> (c =? 92) = false ->
  scan_string (S f) (c :: R) acc = scan_string f R (c :: acc).
Proof. intros H1 H2 H3. cbn [scan_string]. now rewrite H1, H2, H3. Qed.

Lemma scan_step_simple f x y R acc :
  In (x, y) [(34, 34); (92, 92); (47, 47); (98, 8); (102, 12); (110, 10); (114, 13); (116, 9)] ->
  scan_string (S f) (92 :: x :: R) acc = scan_string f R (y :: acc).
Proof.
  intros H. cbn in H. repeat (destruct H as [H|H]; [injection H as <- <-; reflexivity|]). destruct H.
Qed.

(* one \uXXXX escape of a code unit below 65536 *)
Lemma scan_step_u f u R acc : u < 65536 ->
  scan_string (S f) (92 :: 117 :: hex_digits u ++ R) acc =
  if is_high u then
    match R with
    | a :: b :: r3 =>
        if (a =? 92) && (b =? 117) then
          match hex4 r3 with
          | Some (u2, r4) => if is_low u2 then scan_string f r4 (65536 + (u - 55296) * 1024 + (u2 - 56320) :: acc)
                             else scan_string f R (u :: acc)
          | None => scan_string f R (u :: acc)
          end
        else scan_string f R (u :: acc)
    | _ => scan_string f R (u :: acc)
    end
  else scan_string f R (u :: acc).
Proof.
  intros H. cbn [scan_string]. change (92 =? 34) with false. change (92 <? 32) with false. change (92 =? 92) with true.
  change (117 =? 117) with true. cbv iota. rewrite hex4_digits by exact H. unfold is_high, is_low.
  destruct ((55296 <=? u) && (u <=? 56319)); [|reflexivity].
  rewrite match_92_117. reflexivity.
Qed.

Lemma collapse_follow f u R acc : NoLowEscape R ->
  match R with
  | a :: b :: r3 =>
      if (a =? 92) && (b =? 117) then
        match hex4 r3 with
        | Some (u2, r4) => if is_low u2 then scan_string f r4 (65536 + (u - 55296) * 1024 + (u2 - 56320) :: acc)
                           else scan_string f R (u :: acc)
        | None => scan_string f R (u :: acc)
        end
      else scan_string f R (u :: acc)
  | _ => scan_string f R (u :: acc)
  end = scan_string f R (u :: acc).
Proof.
  intros H. destruct R as [|a [|b r3]]; try reflexivity.
  destruct ((a =? 92) && (b =? 117)) eqn:E; [|reflexivity].
  destruct (hex4 r3) as [[u2 r4]|] eqn:Eh; [|reflexivity].
  now rewrite (H a b r3 u2 r4 eq_refl E Eh).
Qed.

Theorem scan_string_print s : forall fuel acc rest,
  forallb (fun c => c <? 1114112) s = true -> no_pair s = true -> (length s < fuel)%nat ->
  scan_string fuel (flat_map esc_char s ++ 34 :: rest) acc = POk (rev acc ++ s) rest.
Proof.
  induction s as [|c s' IH]; intros fuel acc rest Hw Hp Hf.
  - destruct fuel as [|f]; [cbn in Hf; lia|]. cbn. now rewrite app_nil_r.
  - destruct fuel as [|f]; [cbn in Hf; lia|].
    cbn [forallb] in Hw. apply andb_true_iff in Hw as [Hc Hw'].
    assert (Hp' : no_pair s' = true) by (cbn [no_pair] in Hp; apply andb_true_iff in Hp as [_ Hp]; exact Hp).
    assert (Hf' : (length s' < f)%nat) by (cbn in Hf; lia).
    assert (Hnext : forall y, scan_string f (flat_map esc_char s' ++ 34 :: rest) (y :: acc) = POk (rev acc ++ y :: s') rest).
    { intros y. rewrite (IH f (y :: acc) rest Hw' Hp' Hf'). cbn [rev]. now rewrite <- app_assoc. }
    cbn [flat_map]. rewrite <- app_assoc. set (R := flat_map esc_char s' ++ 34 :: rest) in *.
    unfold esc_char.
    destruct (c =? 34) eqn:E1; [apply N.eqb_eq in E1; subst c; cbn [app]; rewrite (scan_step_simple f 34 34) by (cbn; auto); apply Hnext|].
    destruct (c =? 92) eqn:E2; [apply N.eqb_eq in E2; subst c; cbn [app]; rewrite (scan_step_simple f 92 92) by (cbn; auto); apply Hnext|].
    destruct (c =? 10) eqn:E3; [apply N.eqb_eq in E3; subst c; cbn [app]; rewrite (scan_step_simple f 110 10) by (cbn; auto 10); apply Hnext|].
    destruct (c =? 13) eqn:E4; [apply N.eqb_eq in E4; subst c; cbn [app]; rewrite (scan_step_simple f 114 13) by (cbn; auto 10); apply Hnext|].
    destruct (c =? 9) eqn:E5; [apply N.eqb_eq in E5; subst c; cbn [app]; rewrite (scan_step_simple f 116 9) by (cbn; auto 10); apply Hnext|].
    destruct (c =? 8) eqn:E6; [apply N.eqb_eq in E6; subst c; cbn [app]; rewrite (scan_step_simple f 98 8) by (cbn; auto 10); apply Hnext|].
    destruct (c =? 12) eqn:E7; [apply N.eqb_eq in E7; subst c; cbn [app]; rewrite (scan_step_simple f 102 12) by (cbn; auto 10); apply Hnext|].
    destruct ((32 <=? c) && (c <=? 126)) eqn:E8.
    { cbn [app]. rewrite scan_step_plain; [apply Hnext|exact E1|lia|exact E2]. }
    assert (Hnl : is_high c = true -> NoLowEscape R).
    { intros Hh. apply nolow_follow; [exact Hw'|]. destruct s' as [|d s'']; [exact I|].
      cbn [no_pair] in Hp. apply andb_true_iff in Hp as [Hp _]. rewrite Hh in Hp. cbn in Hp.
      now apply negb_true_iff in Hp. }
    destruct (c <? 65536) eqn:E9.
    { rewrite u_escape_digits. cbn [app]. rewrite scan_step_u by lia.
      destruct (is_high c) eqn:Eh; [rewrite collapse_follow by (apply Hnl; reflexivity)|]; apply Hnext. }
    (* an astral character: two escapes, read back as one *)
    assert (Hq : (c - 65536) / 1024 < 1024) by (apply N.div_lt_upper_bound; lia).
    assert (Hm : (c - 65536) mod 1024 < 1024) by (apply N.mod_lt; lia).
    assert (Ec : 65536 + (55296 + (c - 65536) / 1024 - 55296) * 1024 + (56320 + (c - 65536) mod 1024 - 56320) = c).
    { pose proof (N.div_mod (c - 65536) 1024 ltac:(lia)). lia. }
    cbv zeta. remember (55296 + (c - 65536) / 1024) as hi eqn:Ehi. remember (56320 + (c - 65536) mod 1024) as lo eqn:Elo.
    assert (Hhi : is_high hi = true) by (unfold is_high; lia).
    assert (Hlo : is_low lo = true) by (unfold is_low; lia).
    rewrite !u_escape_digits. rewrite <- app_assoc. cbn [app]. rewrite scan_step_u by (unfold is_high in Hhi; lia).
    rewrite Hhi. cbn [app]. change ((92 =? 92) && (117 =? 117)) with true. cbv iota.
    rewrite hex4_digits by (unfold is_low in Hlo; lia). rewrite Hlo, Ec. apply Hnext.
Qed.

(* ---------- integers ---------- *)
Lemma digits_value_snoc ds d : digits_value (ds ++ [d]) = digits_value ds * 10 + (d - 48).
Proof. unfold digits_value. now rewrite fold_left_app. Qed.

Definition no_digit_ahead (rest : text) : Prop := match rest with c :: _ => is_digit c = false | [] => True end.

Lemma take_digits_spec ds : forall rest acc, forallb is_digit ds = true -> no_digit_ahead rest ->
  take_digits (ds ++ rest) acc = (rev acc ++ ds, rest).
Proof.
  induction ds as [|d ds IH]; intros rest acc Hd Hr.
  - cbn [app]. rewrite app_nil_r. destruct rest as [|c r]; [reflexivity|]. cbn in Hr. cbn [take_digits]. now rewrite Hr.
  - cbn [forallb] in Hd. apply andb_true_iff in Hd as [H1 H2]. cbn [app take_digits]. rewrite H1.
    rewrite (IH rest (d :: acc) H2 Hr). cbn [rev]. now rewrite <- app_assoc.
Qed.

(* the decimal digits of a positive number: all digits, no leading zero, value preserved *)
Lemma pos_digits_spec : forall fuel p acc, (N.to_nat (N.log2 p) < fuel)%nat ->
  exists d ds, pos_digits fuel p acc = d :: ds ++ acc /\ forallb is_digit (d :: ds) = true /\
               digits_value (d :: ds) = p /\ (0 < p -> d <> 48).
Proof.
  induction fuel as [|f IH]; intros p acc Hf; [lia|]. cbn [pos_digits].
  destruct (p <? 10) eqn:E.
  - exists (48 + p), []. split; [reflexivity|]. split; [cbn [forallb]; unfold is_digit; lia|].
    split; [unfold digits_value; cbn [fold_left]; lia|lia].
  - assert (Hp : 10 <= p) by lia.
    assert (Hlog : (N.to_nat (N.log2 (p / 10)) < f)%nat).
    { assert (N.log2 (p / 10) <= N.log2 (p / 2)) by (apply N.log2_le_mono, N.div_le_compat_l; lia).
      assert (N.log2 (p / 2) = N.log2 p - 1) by (rewrite <- N.div2_div, N.div2_spec, N.log2_shiftr; reflexivity).
      assert (1 <= N.log2 p) by (change 1 with (N.log2 2); apply N.log2_le_mono; lia). lia. }
    destruct (IH (p / 10) ((48 + p mod 10) :: acc) Hlog) as (d & ds & E1 & E2 & E3 & E4).
    exists d, (ds ++ [48 + p mod 10]). split; [|split; [|split]].
    + rewrite E1. rewrite <- app_assoc. reflexivity.
    + change (d :: ds ++ [48 + p mod 10]) with ((d :: ds) ++ [48 + p mod 10]). rewrite forallb_app, E2. cbn [forallb andb].
      assert (p mod 10 < 10) by (apply N.mod_lt; lia). unfold is_digit. lia.
    + change (d :: ds ++ [48 + p mod 10]) with ((d :: ds) ++ [48 + p mod 10]). rewrite digits_value_snoc, E3.
      pose proof (N.div_mod p 10 ltac:(lia)). lia.
    + intros _. apply E4. assert (1 <= p / 10) by (apply N.div_le_lower_bound; lia). lia.
Qed.

Lemma print_nat_spec p : 0 < p ->
  exists d ds, print_nat p = d :: ds /\ forallb is_digit (d :: ds) = true /\ digits_value (d :: ds) = p /\ d <> 48.
Proof.
  intros Hp. unfold print_nat. destruct (pos_digits_spec (S (N.to_nat (N.log2 p))) p [] ltac:(lia)) as (d & ds & E1 & E2 & E3 & E4).
  exists d, ds. rewrite app_nil_r in E1. auto.
Qed.

Lemma match_45 {A} (s : text) (X : text -> A) (D : A) :
  match s with 45 :: r => X r | _ => D end =
  match s with a :: r => if a =? 45 then X r else D | [] => D end.
Proof.
  destruct s as [|a r]; [reflexivity|]. destruct (N.eqb_spec a 45) as [->|Ha]; [reflexivity|]. split_N a.
Qed.

(* what follows a value in printed JSON: nothing, a comma, or a closing bracket / brace *)
Definition term_ahead (rest : text) : Prop :=
  match rest with [] => True | c :: _ => c = 44 \/ c = 93 \/ c = 125 end.
Lemma term_no_digit rest : term_ahead rest -> no_digit_ahead rest.
Proof. destruct rest as [|c r]; [auto|]. intros [-> | [-> | ->]]; reflexivity. Qed.

Lemma scan_number_digits (md : nat) (neg : bool) (d : N) (ds rest : text) :
  forallb is_digit (d :: ds) = true -> d <> 48 -> term_ahead rest -> (length (d :: ds) <= md)%nat ->
  scan_number md ((if neg then [45] else []) ++ d :: ds ++ rest) =
  Some (POk (JInt (if neg then (- Z.of_N (digits_value (d :: ds)))%Z else Z.of_N (digits_value (d :: ds)))) rest).
Proof.
  intros Hd H0 Ht Hl. pose proof Hd as Hd'. cbn [forallb] in Hd'. apply andb_true_iff in Hd' as [Hd1 _].
  assert (Hd45 : (d =? 45) = false) by (unfold is_digit in Hd1; lia).
  assert (Hd48 : (d =? 48) = false) by lia.
  assert (Htake : take_digits (d :: ds ++ rest) [] = (d :: ds, rest)).
  { change (d :: ds ++ rest) with ((d :: ds) ++ rest). rewrite take_digits_spec; auto using term_no_digit. }
  assert (Hlen : (md <? length (d :: ds))%nat = false) by (apply Nat.ltb_ge; exact Hl).
  unfold scan_number. rewrite match_45.
  destruct neg; cbn [app].
  - change (45 =? 45) with true. cbv iota. rewrite Hd1, Hd48, Htake.
    destruct rest as [|c r]; [cbn -[Nat.ltb length digits_value Z.of_N]; rewrite Hlen; reflexivity|].
    destruct Ht as [-> | [-> | ->]]; cbn -[Nat.ltb length digits_value Z.of_N]; rewrite Hlen; reflexivity.
  - rewrite Hd45. rewrite Hd1, Hd48, Htake.
    destruct rest as [|c r]; [cbn -[Nat.ltb length digits_value Z.of_N]; rewrite Hlen; reflexivity|].
    destruct Ht as [-> | [-> | ->]]; cbn -[Nat.ltb length digits_value Z.of_N]; rewrite Hlen; reflexivity.
Qed.

Lemma scan_number_zero (md : nat) (rest : text) : term_ahead rest -> (1 <= md)%nat ->
  scan_number md (48 :: rest) = Some (POk (JInt 0) rest).
Proof.
  intros Ht Hm. unfold scan_number.
  assert (Hlen : (md <? 1)%nat = false) by (apply Nat.ltb_ge; exact Hm).
  destruct rest as [|c r]; [cbn -[Nat.ltb]; rewrite Hlen; reflexivity|].
  destruct Ht as [-> | [-> | ->]]; cbn -[Nat.ltb]; rewrite Hlen; reflexivity.
Qed.

Definition int_ok (md : nat) (z : Z) : Prop := (length (print_int z) <= S md)%nat /\ (1 <= md)%nat.

Theorem scan_number_print_int (md : nat) (z : Z) (rest : text) : term_ahead rest ->
  (length (print_nat (Z.to_N (Z.abs z))) <= md)%nat -> (1 <= md)%nat ->
  scan_number md (print_int z ++ rest) = Some (POk (JInt z) rest).
Proof.
  intros Ht Hl Hm. destruct z as [|p|p]; cbn [print_int].
  - cbn [app]. now apply scan_number_zero.
  - cbn [Z.abs Z.to_N] in Hl. destruct (print_nat_spec (N.pos p) ltac:(lia)) as (d & ds & E1 & E2 & E3 & E4).
    rewrite E1 in *. cbn [app]. pose proof (scan_number_digits md false d ds rest E2 E4 Ht Hl) as H. cbn [app] in H.
    rewrite H, E3. reflexivity.
  - cbn [Z.abs Z.to_N] in Hl. destruct (print_nat_spec (N.pos p) ltac:(lia)) as (d & ds & E1 & E2 & E3 & E4).
    rewrite E1 in *. cbn [app]. pose proof (scan_number_digits md true d ds rest E2 E4 Ht Hl) as H. cbn [app] in H.
    rewrite H, E3. reflexivity.
Qed.

(* ---------- values ---------- *)
Section RoundTrip.
Variable md : nat.                      (* sys.get_int_max_str_digits() *)
Hypothesis md_pos : (1 <= md)%nat.

(* the float oracle: the token repr(x) of a float is read back as that token (float(repr x) = x and
   repr(x) is a JSON number or NaN / Infinity / -Infinity), and does not begin like something else *)
Definition FloatOk (t : text) : Prop :=
  (forall fuel depth rest, term_ahead rest ->
     parse_value md (S fuel) depth (print_float t ++ rest) = POk (JFloat t) rest) /\
  (exists c r, print_float t = c :: r /\ is_ws c = false /\ c <> 93 /\ c <> 125 /\ c < 128).

Fixpoint keys_of (l : list (text * json)) : list text := match l with [] => [] | (k, _) :: r => k :: keys_of r end.

Inductive RT : json -> Prop :=
| RT_null : RT JNull
| RT_bool b : RT (JBool b)
| RT_int z : (length (print_nat (Z.to_N (Z.abs z))) <= md)%nat -> RT (JInt z)
| RT_float t : FloatOk t -> RT (JFloat t)
| RT_str s : rt_text s = true -> RT (JStr s)
| RT_arr l : Forall RT l -> RT (JArr l)
| RT_obj l : Forall (fun kv => rt_text (fst kv) = true /\ RT (snd kv)) l -> NoDup (keys_of l) -> RT (JObj l).

Fixpoint jdepth (v : json) : nat :=
  match v with
  | JArr l => S (fold_right (fun x a => Nat.max (jdepth x) a) 0%nat l)
  | JObj l => S (fold_right (fun kv a => Nat.max (jdepth (snd kv)) a) 0%nat l)
  | _ => 0%nat
  end.

(* fuel the parser needs *)
Fixpoint need (v : json) : nat :=
  match v with
  | JArr l => S (fold_right (fun x a => S (Nat.max (need x) a)) 0%nat l)
  | JObj l => S (fold_right (fun kv a => S (Nat.max (need (snd kv)) a)) 0%nat l)
  | _ => 1%nat
  end.

Lemma json_ind' (P : json -> Prop) :
  P JNull -> (forall b, P (JBool b)) -> (forall z, P (JInt z)) -> (forall t, P (JFloat t)) -> (forall s, P (JStr s)) ->
  (forall l, Forall P l -> P (JArr l)) -> (forall l, Forall (fun kv => P (snd kv)) l -> P (JObj l)) ->
  forall v, P v.
Proof.
  intros H1 H2 H3 H4 H5 H6 H7. fix IH 1. intros v. destruct v as [|b|z|t|s|l|l].
  - exact H1.
  - apply H2.
  - apply H3.
  - apply H4.
  - apply H5.
  - apply H6. induction l as [|x l IHl]; constructor; [apply IH|exact IHl].
  - apply H7. induction l as [|[k x] l IHl]; constructor; [apply IH|exact IHl].
Qed.

Lemma match_93 {A} (s : text) (X : text -> A) (D : A) :
  match s with 93 :: r => X r | _ => D end = match s with a :: r => if a =? 93 then X r else D | [] => D end.
Proof. destruct s as [|a r]; [reflexivity|]. destruct (N.eqb_spec a 93) as [->|Ha]; [reflexivity|]. split_N a. Qed.
Lemma match_125 {A} (s : text) (X : text -> A) (D : A) :
  match s with 125 :: r => X r | _ => D end = match s with a :: r => if a =? 125 then X r else D | [] => D end.
Proof. destruct s as [|a r]; [reflexivity|]. destruct (N.eqb_spec a 125) as [->|Ha]; [reflexivity|]. split_N a. Qed.

Lemma skip_ws_head c r : is_ws c = false -> skip_ws (c :: r) = c :: r.
Proof. intros H. cbn [skip_ws]. now rewrite H. Qed.

Lemma print_int_head z : exists c r, print_int z = c :: r /\ (is_digit c = true \/ c = 45).
Proof.
  destruct z as [|p|p]; cbn [print_int].
  - exists 48, []. auto.
  - destruct (print_nat_spec (N.pos p) ltac:(lia)) as (d & ds & E1 & E2 & _). exists d, ds. split; auto.
    cbn [forallb] in E2. apply andb_true_iff in E2 as [E2 _]. auto.
  - exists 45, (print_nat (N.pos p)). auto.
Qed.

(* the first character of a printed value: not white space, not a closing bracket or brace *)
Lemma head_ok v : RT v -> exists c r, print v = c :: r /\ is_ws c = false /\ c <> 93 /\ c <> 125 /\ c < 128.
Proof.
  intros H. destruct H as [|b|z Hz|t Ht|s Hs|l Hl|l Hl Hn]; cbn [print].
  - exists 110, [117; 108; 108]. repeat split; try discriminate; lia.
  - destruct b; [exists 116, [114; 117; 101]|exists 102, [97; 108; 115; 101]]; repeat split; try discriminate; lia.
  - destruct (print_int_head z) as (c & r & E & Hc). exists c, r. split; [exact E|].
    unfold is_ws, is_digit in *. destruct Hc as [Hc| ->]; repeat split; lia.
  - destruct Ht as [_ H]. exact H.
  - exists 34, (flat_map esc_char s ++ [34]). repeat split; try discriminate; lia.
  - eexists 91, _. repeat split; try discriminate; lia.
  - eexists 123, _. repeat split; try discriminate; lia.
Qed.

Lemma length_esc s : (length s <= length (flat_map esc_char s))%nat.
Proof.
  induction s as [|c s IH]; cbn [flat_map length]; [lia|]. rewrite app_length.
  assert (1 <= length (esc_char c))%nat; [|lia].
  unfold esc_char. repeat match goal with |- context [if ?b then _ else _] => destruct b end; cbn; lia.
Qed.

(* a printed string is read back by the string scanner *)
Lemma scan_printed_string k rest : rt_text k = true ->
  scan_string (S (length (flat_map esc_char k ++ 34 :: rest))) (flat_map esc_char k ++ 34 :: rest) [] = POk k rest.
Proof.
  intros H. unfold rt_text in H. apply andb_true_iff in H as [H1 H2].
  rewrite scan_string_print; auto. rewrite app_length. pose proof (length_esc k). cbn. lia.
Qed.

Lemma obj_get_none_keys k acc : ~ In k (keys_of acc) -> obj_set k JNull acc = acc ++ [(k, JNull)] -> True.
Proof. auto. Qed.

Lemma text_eqb_eq a b : text_eqb a b = true <-> a = b.
Proof.
  unfold text_eqb. revert b. induction a as [|x a IH]; intros [|y b]; cbn; split; intros H; try discriminate; auto.
  - apply andb_true_iff in H as [H1 H2]. apply N.eqb_eq in H1. apply IH in H2. now subst.
  - injection H as -> ->. rewrite N.eqb_refl. now apply IH.
Qed.

Lemma obj_set_fresh k v acc : ~ In k (keys_of acc) -> obj_set k v acc = acc ++ [(k, v)].
Proof.
  induction acc as [|[k' v'] acc IH]; intros H; cbn; [reflexivity|].
  destruct (text_eqb k k') eqn:E; [apply text_eqb_eq in E; subst; exfalso; apply H; cbn; auto|].
  rewrite IH; [reflexivity|]. intros Hin. apply H. cbn. auto.
Qed.

Lemma keys_of_app a b : keys_of (a ++ b) = keys_of a ++ keys_of b.
Proof. induction a as [|[k v] a IH]; cbn; [reflexivity|]. now rewrite IH. Qed.

(* one step of the two list parsers *)
Lemma pe_step f d s acc : parse_elements md (S f) d s acc =
  match parse_value md f d s with
  | PErr e => PErr e
  | POk v r => match skip_ws r with
               | 44 :: r1 => parse_elements md f d (skip_ws r1) (v :: acc)
               | 93 :: r1 => POk (JArr (rev (v :: acc))) r1
               | _ => PErr BadJson
               end
  end.
Proof. reflexivity. Qed.

Lemma pm_step f d r acc : parse_members md (S f) d (34 :: r) acc =
  match scan_string (S (length r)) r [] with
  | PErr e => PErr e
  | POk k r1 =>
      match skip_ws r1 with
      | 58 :: r2 =>
          match parse_value md f d (skip_ws r2) with
          | PErr e => PErr e
          | POk v r3 =>
              match skip_ws r3 with
              | 44 :: r4 => parse_members md f d (skip_ws r4) (obj_set k v acc)
              | 125 :: r4 => POk (JObj (obj_set k v acc)) r4
              | _ => PErr BadJson
              end
          end
      | _ => PErr BadJson
      end
  end.
Proof. reflexivity. Qed.

Definition Parses (x : json) : Prop :=
  forall fuel depth rest, (need x <= fuel)%nat -> (jdepth x <= depth)%nat -> term_ahead rest ->
  parse_value md fuel depth (print x ++ rest) = POk x rest.

Definition need_elems (l : list json) : nat := fold_right (fun x a => S (Nat.max (need x) a)) 0%nat l.
Definition depth_elems (l : list json) : nat := fold_right (fun x a => Nat.max (jdepth x) a) 0%nat l.

Lemma skip_ws_printed x tail : RT x -> skip_ws (print x ++ tail) = print x ++ tail.
Proof. intros H. destruct (head_ok x H) as (c & r & E & Hw & _). rewrite E. cbn [app]. now apply skip_ws_head. Qed.

Lemma parse_elements_print l : l <> [] -> Forall (fun x => RT x /\ Parses x) l ->
  forall f d rest acc, (need_elems l <= f)%nat -> (depth_elems l <= d)%nat ->
  parse_elements md f d (join_with 44 (map print l) ++ 93 :: rest) acc = POk (JArr (rev acc ++ l)) rest.
Proof.
  induction l as [|x xs IH]; intros Hne Hall f d rest acc Hf Hd; [contradiction|].
  inversion Hall as [|? ? [Hrx Hpx] Hxs]; subst. cbn [need_elems fold_right] in Hf. cbn [depth_elems fold_right] in Hd.
  destruct f as [|f]; [lia|]. rewrite pe_step.
  destruct xs as [|y ys].
  - cbn [map join_with]. rewrite (Hpx f d (93 :: rest)); [|lia|lia|cbn; auto].
    cbn [skip_ws is_ws]. change (is_ws 93) with false. cbv iota. cbn [rev]. reflexivity.
  - cbn [map]. change (join_with 44 (print x :: print y :: map print ys)) with (print x ++ 44 :: join_with 44 (map print (y :: ys))).
    rewrite <- app_assoc. cbn [app]. rewrite (Hpx f d (44 :: join_with 44 (map print (y :: ys)) ++ 93 :: rest)); [|lia|lia|cbn; auto].
    cbn [skip_ws]. change (is_ws 44) with false. cbv iota.
    assert (Hsk : skip_ws (join_with 44 (map print (y :: ys)) ++ 93 :: rest) = join_with 44 (map print (y :: ys)) ++ 93 :: rest).
    { inversion Hxs as [|? ? [Hry _] _]; subst. cbn [map].
      destruct ys as [|z zs]; cbn [join_with map]; [apply skip_ws_printed; exact Hry|].
      rewrite <- app_assoc. apply skip_ws_printed; exact Hry. }
    rewrite Hsk. rewrite (IH ltac:(discriminate) Hxs f d rest (x :: acc)); [|cbn [need_elems fold_right] in *; lia|cbn [depth_elems fold_right] in *; lia].
    cbn [rev]. now rewrite <- app_assoc.
Qed.

Definition pr (kv : text * json) : text := print_string (fst kv) ++ 58 :: print (snd kv).
Lemma pr_app k v T : pr (k, v) ++ T = 34 :: flat_map esc_char k ++ 34 :: 58 :: print v ++ T.
Proof. unfold pr, print_string. cbn [fst snd app]. rewrite <- !app_assoc. reflexivity. Qed.

Definition need_members (l : list (text * json)) : nat := fold_right (fun kv a => S (Nat.max (need (snd kv)) a)) 0%nat l.
Definition depth_members (l : list (text * json)) : nat := fold_right (fun kv a => Nat.max (jdepth (snd kv)) a) 0%nat l.

Lemma parse_members_print l : l <> [] ->
  Forall (fun kv => rt_text (fst kv) = true /\ RT (snd kv) /\ Parses (snd kv)) l ->
  forall f d rest acc, (need_members l <= f)%nat -> (depth_members l <= d)%nat -> NoDup (keys_of (acc ++ l)) ->
  parse_members md f d (join_with 44 (map pr l) ++ 125 :: rest) acc = POk (JObj (acc ++ l)) rest.
Proof.
  induction l as [|[k v] xs IH]; intros Hne Hall f d rest acc Hf Hd Hnd; [contradiction|].
  inversion Hall as [|? ? (Hk & Hrv & Hpv) Hxs]; subst. cbn [fst snd] in *.
  cbn [need_members fold_right snd] in Hf. cbn [depth_members fold_right snd] in Hd.
  destruct f as [|f]; [lia|].
  assert (Hfresh : ~ In k (keys_of acc)).
  { rewrite keys_of_app in Hnd. cbn [keys_of] in Hnd. apply NoDup_remove_2 in Hnd. intros Hin. apply Hnd.
    apply in_or_app. now left. }
  destruct xs as [|y ys].
  - cbn [map join_with]. rewrite pr_app, pm_step.
    rewrite (scan_printed_string k (58 :: print v ++ 125 :: rest) Hk).
    cbn [skip_ws]. change (is_ws 58) with false. cbv iota.
    rewrite (skip_ws_printed v (125 :: rest) Hrv). rewrite (Hpv f d (125 :: rest)); [|lia|lia|cbn; auto].
    cbn [skip_ws]. change (is_ws 125) with false. cbv iota. now rewrite obj_set_fresh.
  - cbn [map]. change (join_with 44 (pr (k, v) :: pr y :: map pr ys)) with (pr (k, v) ++ 44 :: join_with 44 (map pr (y :: ys))).
    rewrite <- app_assoc. cbn [app]. rewrite pr_app, pm_step.
    set (T := 44 :: join_with 44 (map pr (y :: ys)) ++ 125 :: rest).
    rewrite (scan_printed_string k (58 :: print v ++ T) Hk).
    cbn [skip_ws]. change (is_ws 58) with false. cbv iota.
    rewrite (skip_ws_printed v T Hrv). rewrite (Hpv f d T); [|lia|lia|cbn; auto].
    unfold T. cbn [skip_ws]. change (is_ws 44) with false. cbv iota.
    assert (Hsk : skip_ws (join_with 44 (map pr (y :: ys)) ++ 125 :: rest) = join_with 44 (map pr (y :: ys)) ++ 125 :: rest).
    { destruct y as [ky vy]. cbn [map]. destruct ys as [|z zs]; cbn [join_with map].
      - rewrite pr_app. reflexivity.
      - rewrite <- app_assoc, pr_app. reflexivity. }
    rewrite Hsk, obj_set_fresh by exact Hfresh.
    rewrite (IH ltac:(discriminate) Hxs f d rest (acc ++ [(k, v)])).
    + now rewrite <- app_assoc.
    + cbn [need_members fold_right] in *. lia.
    + cbn [depth_members fold_right] in *. lia.
    + rewrite <- app_assoc. exact Hnd.
Qed.

(* one step of the value parser, by the first character *)
Lemma pv_array f d r : parse_value md (S f) (S d) (91 :: r) =
  match skip_ws r with 93 :: r2 => POk (JArr []) r2 | _ => parse_elements md f d (skip_ws r) [] end.
Proof. reflexivity. Qed.
Lemma pv_object f d r : parse_value md (S f) (S d) (123 :: r) =
  match skip_ws r with 125 :: r2 => POk (JObj []) r2 | _ => parse_members md f d (skip_ws r) [] end.
Proof. reflexivity. Qed.
Lemma pv_string f d r : parse_value md (S f) d (34 :: r) =
  match scan_string (S (length r)) r [] with POk t r' => POk (JStr t) r' | PErr e => PErr e end.
Proof. reflexivity. Qed.
Lemma pv_number f d c r res : (c =? 34) = false -> (c =? 123) = false -> (c =? 91) = false ->
  (110 =? c) = false -> (116 =? c) = false -> (102 =? c) = false -> scan_number md (c :: r) = Some res ->
  parse_value md (S f) d (c :: r) = res.
Proof.
  intros H1 H2 H3 H4 H5 H6 H7. cbn [parse_value]. rewrite H1, H2, H3. cbn [starts_with]. now rewrite H4, H5, H6, H7.
Qed.

(* ---------- the round trip ---------- *)
Theorem parse_print : forall v, RT v -> Parses v.
Proof.
  induction v as [|b|z|t|s|l IHl|l IHl] using json_ind'; intros Hrt fuel depth rest Hf Hd Ht;
    inversion Hrt as [|b'|z' Hz|t' Hfl|s' Hs|l' Hl|l' Hl Hn]; subst;
    (destruct fuel as [|f]; [cbn [need] in Hf; lia|]).
  - reflexivity.
  - destruct b; reflexivity.
  - (* integers *)
    destruct (print_int_head z) as (c & r & E & Hc). cbn [print]. 
    pose proof (scan_number_print_int md z rest Ht Hz md_pos) as Hs. rewrite E in *. cbn [app] in *.
    apply pv_number; auto; unfold is_digit in Hc; destruct Hc; lia.
  - (* floats: the oracle *)
    destruct Hfl as [Hp _]. cbn [print]. apply Hp. exact Ht.
  - (* strings *)
    cbn [print]. unfold print_string. cbn [app]. rewrite pv_string.
    rewrite <- app_assoc. cbn [app]. rewrite (scan_printed_string s rest Hs). reflexivity.
  - (* arrays *)
    cbn [print]. cbn [app]. cbn [jdepth] in Hd. destruct depth as [|d]; [lia|]. rewrite pv_array.
    destruct l as [|x xs].
    + cbn [map join_with app]. cbn [skip_ws]. change (is_ws 93) with false. cbv iota. reflexivity.
    + assert (Hall : Forall (fun x => RT x /\ Parses x) (x :: xs)).
      { apply Forall_forall. intros y Hy. rewrite Forall_forall in IHl, Hl. split; [apply Hl; exact Hy|].
        apply IHl; [exact Hy|apply Hl; exact Hy]. }
      rewrite <- app_assoc. cbn [app].
      assert (Hsk : skip_ws (join_with 44 (map print (x :: xs)) ++ 93 :: rest) = join_with 44 (map print (x :: xs)) ++ 93 :: rest).
      { inversion Hl as [|? ? Hrx _]; subst. cbn [map]. destruct xs as [|y ys]; cbn [join_with map];
          [apply skip_ws_printed; exact Hrx|rewrite <- app_assoc; apply skip_ws_printed; exact Hrx]. }
      rewrite Hsk. rewrite match_93.
      assert (Hhd : exists c r, join_with 44 (map print (x :: xs)) ++ 93 :: rest = c :: r /\ (c =? 93) = false).
      { inversion Hl as [|? ? Hrx _]; subst. destruct (head_ok x Hrx) as (c & r & E & _ & H93 & _).
        cbn [map]. destruct xs as [|y ys]; cbn [join_with map]; rewrite E; cbn [app]; eexists c, _; split; try reflexivity; lia. }
      destruct Hhd as (c & r & E & H93). rewrite E, H93, <- E.
      rewrite (parse_elements_print (x :: xs) ltac:(discriminate) Hall f d rest []).
      * reflexivity.
      * cbn [need] in Hf. unfold need_elems. lia.
      * unfold depth_elems. lia.
  - (* objects *)
    cbn [print]. cbn [app]. cbn [jdepth] in Hd. destruct depth as [|d]; [lia|]. rewrite pv_object.
    destruct l as [|[k x] xs].
    + cbn [map join_with app]. cbn [skip_ws]. change (is_ws 125) with false. cbv iota. reflexivity.
    + assert (Hall : Forall (fun kv => rt_text (fst kv) = true /\ RT (snd kv) /\ Parses (snd kv)) ((k, x) :: xs)).
      { apply Forall_forall. intros kv Hy. rewrite Forall_forall in IHl, Hl. destruct (Hl kv Hy) as [H1 H2].
        split; [exact H1|]. split; [exact H2|]. apply IHl; [exact Hy|exact H2]. }
      change (map (fun kv => print_string (fst kv) ++ 58 :: print (snd kv)) ((k, x) :: xs)) with (map pr ((k, x) :: xs)).
      rewrite <- app_assoc. cbn [app].
      assert (Hhd : exists r, join_with 44 (map pr ((k, x) :: xs)) ++ 125 :: rest = 34 :: r).
      { cbn [map]. destruct xs as [|y ys]; cbn [join_with map]; [rewrite pr_app|rewrite <- app_assoc, pr_app]; eexists; reflexivity. }
      destruct Hhd as (r & E). rewrite E. cbn [skip_ws]. change (is_ws 34) with false. cbv iota. rewrite <- E.
      rewrite (parse_members_print ((k, x) :: xs) ltac:(discriminate) Hall f d rest []).
      * reflexivity.
      * cbn [need] in Hf. unfold need_members. lia.
      * unfold depth_members. lia.
      * exact Hn.
Qed.

(* ---------- json.loads (json.dumps v) ---------- *)
Lemma no_bom {A} (c : N) (r : text) (X Y : A) : c < 128 -> match c :: r with 65279 :: _ => X | _ => Y end = Y.
Proof.
  intros H. destruct c as [|p]; [reflexivity|].
  do 8 (try (destruct p as [p|p|]; try reflexivity)); lia.
Qed.

Lemma length_print_pos v : RT v -> (1 <= length (print v))%nat.
Proof. intros H. destruct (head_ok v H) as (c & r & E & _). rewrite E. cbn. lia. Qed.

Lemma need_elems_bound l : Forall (fun x => (need x <= length (print x) + 1)%nat) l -> l <> [] ->
  (need_elems l <= length (join_with 44 (map print l)) + 2)%nat.
Proof.
  induction l as [|x xs IH]; intros Hall Hne; [contradiction|].
  inversion Hall as [|? ? Hx Hxs]; subst. destruct xs as [|y ys].
  - cbn [need_elems fold_right map join_with]. lia.
  - change (need_elems (x :: y :: ys)) with (S (Nat.max (need x) (need_elems (y :: ys)))).
    change (join_with 44 (map print (x :: y :: ys))) with (print x ++ 44 :: join_with 44 (map print (y :: ys))).
    rewrite app_length. cbn [length]. specialize (IH Hxs ltac:(discriminate)). lia.
Qed.

Lemma need_members_bound l : Forall (fun kv => (need (snd kv) <= length (print (snd kv)) + 1)%nat) l -> l <> [] ->
  (need_members l <= length (join_with 44 (map pr l)) + 2)%nat.
Proof.
  induction l as [|[k x] xs IH]; intros Hall Hne; [contradiction|].
  inversion Hall as [|? ? Hx Hxs]; subst. cbn [snd] in Hx.
  assert (Hpr : (length (print x) + 3 <= length (pr (k, x)))%nat).
  { unfold pr, print_string. cbn [fst snd]. rewrite !app_length. cbn [length]. rewrite app_length. cbn [length]. lia. }
  destruct xs as [|y ys].
  - cbn [need_members fold_right map join_with snd]. lia.
  - change (need_members ((k, x) :: y :: ys)) with (S (Nat.max (need x) (need_members (y :: ys)))).
    change (join_with 44 (map pr ((k, x) :: y :: ys))) with (pr (k, x) ++ 44 :: join_with 44 (map pr (y :: ys))).
    rewrite app_length. cbn [length]. specialize (IH Hxs ltac:(discriminate)). lia.
Qed.

Lemma need_bound v : (need v <= length (print v) + 1)%nat.
Proof.
  induction v as [|b|z|t|s|l IHl|l IHl] using json_ind'; try (cbn [need]; lia).
  - cbn [need print]. destruct l as [|x xs]; [cbn; lia|].
    pose proof (need_elems_bound (x :: xs) IHl ltac:(discriminate)) as H. unfold need_elems in H.
    cbn [length]. rewrite app_length. cbn [length]. lia.
  - cbn [need print]. destruct l as [|kx xs]; [cbn; lia|].
    pose proof (need_members_bound (kx :: xs) IHl ltac:(discriminate)) as H. unfold need_members in H.
    change (map (fun kv => print_string (fst kv) ++ 58 :: print (snd kv)) (kx :: xs)) with (map pr (kx :: xs)).
    cbn [length]. rewrite app_length. cbn [length]. lia.
Qed.

Theorem loads_print v depth : RT v -> (jdepth v <= depth)%nat -> loads md depth (print v) = POk v [].
Proof.
  intros Hrt Hd. destruct (head_ok v Hrt) as (c & r & E & Hw & _ & _ & Hascii).
  unfold loads. rewrite E. rewrite (no_bom c r _ _ Hascii). rewrite <- E.
  pose proof (skip_ws_printed v [] Hrt) as Hs. rewrite app_nil_r in Hs. rewrite Hs.
  pose proof (parse_print v Hrt (S (S (length (print v)))) depth [] ) as Hp. rewrite app_nil_r in Hp.
  rewrite Hp; [reflexivity| |exact Hd|exact I]. pose proof (need_bound v). lia.
Qed.
End RoundTrip.

(* ---------- down to bytes: decoding what the encoder wrote ---------- *)
Lemma decode_fuel_ascii : forall l n, (length l <= n)%nat -> forallb (fun c => c <? 128) l = true -> decode_fuel n l = Some l.
Proof.
  induction l as [|b r IH]; intros n Hn Ha; [destruct n; reflexivity|].
  destruct n as [|n]; [cbn in Hn; lia|]. cbn [forallb] in Ha. apply andb_true_iff in Ha as [H1 H2].
  cbn [decode_fuel]. rewrite H1, (IH n); [reflexivity|cbn in Hn; lia|exact H2].
Qed.
Lemma decode_ascii l : forallb (fun c => c <? 128) l = true -> Utf8.decode l = Some l.
Proof. intros H. unfold Utf8.decode. apply decode_fuel_ascii; [lia|exact H]. Qed.

(* ---------- the float oracle is satisfiable: what float.__repr__ produces ---------- *)
Ltac float_ok :=
  split;
  [ intros fuel depth rest Ht; destruct rest as [|c r]; [reflexivity|destruct Ht as [-> | [-> | ->]]; reflexivity]
  | eexists _, _; split; [reflexivity|]; repeat split; try discriminate; lia ].
Example float_ok_nan md : FloatOk md [110; 97; 110].                          Proof. float_ok. Qed.
Example float_ok_inf md : FloatOk md [105; 110; 102].                         Proof. float_ok. Qed.
Example float_ok_neg_inf md : FloatOk md [45; 105; 110; 102].                 Proof. float_ok. Qed.
Example float_ok_1_5 md : FloatOk md [49; 46; 53].                            Proof. float_ok. Qed.
Example float_ok_neg_2_5em07 md : FloatOk md [45; 50; 46; 53; 101; 45; 48; 55]. Proof. float_ok. Qed.
Example float_ok_1ep22 md : FloatOk md [49; 101; 43; 50; 50].                 Proof. float_ok. Qed.
Example float_ok_0_0 md : FloatOk md [48; 46; 48].                            Proof. float_ok. Qed.

(* ---------- the shape of float.__repr__: for these tokens the float oracle is a theorem ---------- *)
(* [-] int-part [. digits] [e (+|-) digits] with a fraction or an exponent; int-part is 0 or has no leading zero *)
Definition ip_ok (ip : text) : Prop :=
  ip = [48] \/ (exists d ds, ip = d :: ds /\ forallb is_digit (d :: ds) = true /\ d <> 48).
Definition frac_ok (frac : text) : Prop :=
  frac = [] \/ (exists d ds, frac = 46 :: d :: ds /\ forallb is_digit (d :: ds) = true).
Definition exp_ok (ex : text) : Prop :=
  ex = [] \/ (exists sg d ds, ex = 101 :: sg :: d :: ds /\ (sg = 43 \/ sg = 45) /\ forallb is_digit (d :: ds) = true).
Inductive FloatShape : text -> Prop :=
| float_shape (neg : bool) (ip frac ex : text) :
    ip_ok ip -> frac_ok frac -> exp_ok ex -> (frac <> [] \/ ex <> []) ->
    FloatShape ((if neg then [45] else []) ++ ip ++ frac ++ ex).

Lemma take_digits_run (d : N) (ds tail : text) : forallb is_digit (d :: ds) = true -> no_digit_ahead tail ->
  take_digits (d :: ds ++ tail) [] = (d :: ds, tail).
Proof. intros H1 H2. change (d :: ds ++ tail) with ((d :: ds) ++ tail). now rewrite take_digits_spec. Qed.

Lemma scan_number_float (md : nat) (neg : bool) (ip frac ex rest : text) :
  ip_ok ip -> frac_ok frac -> exp_ok ex -> (frac <> [] \/ ex <> []) -> term_ahead rest ->
  scan_number md ((if neg then [45] else []) ++ ip ++ frac ++ ex ++ rest) =
  Some (POk (JFloat ((if neg then [45] else []) ++ ip ++ frac ++ ex)) rest).
Proof.
  unfold ip_ok, frac_ok, exp_ok. intros Hip Hfr Hex Hsome Ht.
  (* the tail after each run of digits does not begin with a digit *)
  assert (Hrest : no_digit_ahead rest) by now apply term_no_digit.
  assert (Hexrest : no_digit_ahead (ex ++ rest)).
  { destruct Hex as [-> | (sg & d & ds & -> & _)]; [exact Hrest|reflexivity]. }
  assert (Hfrexrest : no_digit_ahead (frac ++ ex ++ rest)).
  { destruct Hfr as [-> | (d & ds & -> & _)]; [exact Hexrest|reflexivity]. }
  (* the exponent part *)
  set (EX := fun (r2 : text) =>
    match r2 with
    | e :: r' =>
        if (e =? 101) || (e =? 69) then
          let '(sg, r'') := match r' with 43 :: q => ([43], q) | 45 :: q => ([45], q) | _ => ([], r') end in
          match r'' with
          | d :: _ => if is_digit d then let '(ed, r4) := take_digits r'' [] in (e :: sg ++ ed, r4) else ([], r2)
          | [] => ([], r2)
          end
        else ([], r2)
    | [] => ([], r2)
    end).
  assert (HEX : EX (ex ++ rest) = (ex, rest)).
  { unfold EX. destruct Hex as [-> | (sg & d & ds & -> & Hsg & Hd)].
    - cbn [app]. destruct rest as [|c r]; [reflexivity|]. destruct Ht as [-> | [-> | ->]]; reflexivity.
    - pose proof Hd as Hd'. cbn [forallb] in Hd'. apply andb_true_iff in Hd' as [Hd1 _].
      destruct Hsg as [-> | ->]; cbn [app]; change ((101 =? 101) || (101 =? 69)) with true; cbv iota;
        rewrite Hd1, (take_digits_run d ds rest Hd Hrest); reflexivity. }
  (* the fraction part *)
  set (FR := fun (r1 : text) =>
    match r1 with
    | 46 :: d :: r' => if is_digit d then let '(fd, r'') := take_digits (d :: r') [] in (46 :: fd, r'') else ([], r1)
    | _ => ([], r1)
    end).
  assert (HFR : FR (frac ++ ex ++ rest) = (frac, ex ++ rest)).
  { unfold FR. destruct Hfr as [-> | (d & ds & -> & Hd)].
    - cbn [app]. destruct Hex as [-> | (sg & d & ds & -> & _)].
      + cbn [app]. destruct rest as [|c r]; [reflexivity|]. destruct Ht as [-> | [-> | ->]]; reflexivity.
      + reflexivity.
    - pose proof Hd as Hd'. cbn [forallb] in Hd'. apply andb_true_iff in Hd' as [Hd1 _].
      cbn [app]. rewrite Hd1. change (d :: ds ++ ex ++ rest) with (d :: ds ++ (ex ++ rest)).
      rewrite (take_digits_run d ds (ex ++ rest) Hd Hexrest). reflexivity. }
  (* the integer part *)
  assert (Hhead : exists c r, ip = c :: r /\ is_digit c = true).
  { destruct Hip as [-> | (d & ds & -> & Hd & _)]; [exists 48, []; auto|].
    cbn [forallb] in Hd. apply andb_true_iff in Hd as [Hd _]. eauto. }
  destruct Hhead as (c & r & Eip & Hc).
  assert (Hc45 : (c =? 45) = false) by (unfold is_digit in Hc; lia).
  assert (HIP : (if c =? 48 then ([48], tl (ip ++ frac ++ ex ++ rest)) else take_digits (ip ++ frac ++ ex ++ rest) [])
                = (ip, frac ++ ex ++ rest)).
  { destruct Hip as [-> | (d & ds & -> & Hd & Hd48)].
    - injection Eip as <- <-. reflexivity.
    - injection Eip as <- <-. assert (E : (d =? 48) = false) by lia. rewrite E.
      change ((d :: ds) ++ frac ++ ex ++ rest) with (d :: ds ++ (frac ++ ex ++ rest)).
      now rewrite (take_digits_run d ds _ Hd Hfrexrest). }
  assert (Hnonint : match frac, ex with
                    | [], [] => @None (presult json)
                    | _, _ => Some (POk (JFloat ((if neg then [45] else []) ++ ip ++ frac ++ ex)) rest)
                    end = Some (POk (JFloat ((if neg then [45] else []) ++ ip ++ frac ++ ex)) rest)).
  { destruct frac, ex; try reflexivity. destruct Hsome; contradiction. }
  subst ip. cbn [app] in HIP. unfold FR in HFR. cbv beta in HFR. unfold EX in HEX. cbv beta in HEX. clear FR EX.
  unfold scan_number. rewrite match_45.
  destruct neg; cbn [app].
  - change (45 =? 45) with true. cbv iota. rewrite Hc, HIP. cbv beta iota zeta.
    match goal with |- (let '(a, b) := ?X in _) = _ => replace X with (frac, ex ++ rest) by (symmetry; exact HFR) end.
    cbv beta iota zeta.
    match goal with |- (let '(a, b) := ?X in _) = _ => replace X with (ex, rest) by (symmetry; exact HEX) end.
    cbv beta iota zeta.
    destruct frac, ex; try reflexivity. destruct Hsome; contradiction.
  - rewrite Hc45, Hc, HIP. cbv beta iota zeta.
    match goal with |- (let '(a, b) := ?X in _) = _ => replace X with (frac, ex ++ rest) by (symmetry; exact HFR) end.
    cbv beta iota zeta.
    match goal with |- (let '(a, b) := ?X in _) = _ => replace X with (ex, rest) by (symmetry; exact HEX) end.
    cbv beta iota zeta.
    destruct frac, ex; try reflexivity. destruct Hsome; contradiction.
Qed.

Lemma float_shape_head t : FloatShape t ->
  exists c r, t = c :: r /\ (c = 45 \/ is_digit c = true) /\ print_float t = t.
Proof.
  intros [neg ip frac ex Hip Hfr Hex Hs].
  assert (Hh : exists c r, ip = c :: r /\ is_digit c = true).
  { destruct Hip as [-> | (d & ds & -> & Hd & _)]; [exists 48, []; auto|].
    cbn [forallb] in Hd. apply andb_true_iff in Hd as [Hd _]. eauto. }
  destruct Hh as (c & r & -> & Hc). unfold print_float, text_eqb.
  destruct neg; cbn [app].
  - exists 45, (c :: r ++ frac ++ ex). split; [reflexivity|]. split; [now left|].
    cbn [list_eqb]. change (45 =? 110) with false. change (45 =? 105) with false. change (45 =? 45) with true.
    cbn [andb]. assert (E : (c =? 105) = false) by (unfold is_digit in Hc; lia). rewrite E. reflexivity.
  - exists c, (r ++ frac ++ ex). split; [reflexivity|]. split; [now right|].
    cbn [list_eqb].
    assert (E1 : (c =? 110) = false) by (unfold is_digit in Hc; lia).
    assert (E2 : (c =? 105) = false) by (unfold is_digit in Hc; lia).
    assert (E3 : (c =? 45) = false) by (unfold is_digit in Hc; lia).
    rewrite E1, E2, E3. reflexivity.
Qed.

(* for every token of the shape float.__repr__ produces, the float oracle holds *)
Theorem float_shape_ok md t : FloatShape t -> FloatOk md t.
Proof.
  intros Hsh. destruct (float_shape_head t Hsh) as (c & r & Et & Hc & Hp). split.
  - intros fuel depth rest Ht. rewrite Hp.
    assert (Hn : scan_number md (t ++ rest) = Some (POk (JFloat t) rest)).
    { destruct Hsh as [neg ip frac ex Hip Hfr Hex Hs].
      pose proof (scan_number_float md neg ip frac ex rest Hip Hfr Hex Hs Ht) as Hn.
      rewrite <- !app_assoc. exact Hn. }
    replace (t ++ rest) with (c :: r ++ rest) in * by (rewrite Et; reflexivity).
    apply pv_number; try exact Hn; unfold is_digit in Hc; destruct Hc; lia.
  - rewrite Hp. exists c, r. split; [exact Et|]. unfold is_ws, is_digit in *. destruct Hc as [-> | Hc]; repeat split; lia.
Qed.

Example float_shape_examples :
  FloatShape [49; 46; 53] /\ FloatShape [45; 50; 46; 53; 101; 45; 48; 55] /\ FloatShape [49; 101; 43; 50; 50] /\
  FloatShape [48; 46; 48] /\ FloatShape [45; 48; 46; 48].
Proof.
  split; [apply (float_shape false [49] [46; 53] []); unfold ip_ok, frac_ok, exp_ok|].
  { right. exists 49, []. repeat split; try reflexivity; discriminate. }
  { right. exists 53, []. split; reflexivity. }
  { now left. }
  { left. discriminate. }
  split; [apply (float_shape true [50] [46; 53] [101; 45; 48; 55]); unfold ip_ok, frac_ok, exp_ok|].
  { right. exists 50, []. repeat split; try reflexivity; discriminate. }
  { right. exists 53, []. split; reflexivity. }
  { right. exists 45, 48, [55]. repeat split; auto. }
  { left. discriminate. }
  split; [apply (float_shape false [49] [] [101; 43; 50; 50]); unfold ip_ok, frac_ok, exp_ok|].
  { right. exists 49, []. repeat split; try reflexivity; discriminate. }
  { now left. }
  { right. exists 43, 50, [50]. repeat split; auto. }
  { right. discriminate. }
  split; [apply (float_shape false [48] [46; 48] []); unfold ip_ok, frac_ok, exp_ok|
          apply (float_shape true [48] [46; 48] []); unfold ip_ok, frac_ok, exp_ok].
  all: try (now left); try (right; exists 48, []; split; reflexivity); try (left; discriminate).
Qed.
