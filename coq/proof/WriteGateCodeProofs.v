(* C15: the model's labels Pause / Resume / Lost / Send / Run are the runs of the statement lists translated
   from the transports' source (model/WriteGateCode.v gives the statements their meaning). *)
From AV Require Import Base Gen_transport WriteGate WriteGateCode WriteGateProofs.

Lemma transport_code_known :
  wknown 4 pause_code && wknown 4 resume_code && wknown 4 lost_code && wknown 4 write_code && transports_agree = true.
Proof. reflexivity. Qed.

(* pause_writing() *)
Theorem pause_from_source g : callback pause_code g = Some (wstep g Pause).
Proof. destruct g as [cs cl rd wa re wi bl dn tmo]. destruct cl; reflexivity. Qed.

(* resume_writing() *)
Theorem resume_from_source g : callback resume_code g = Some (wstep g Resume).
Proof. destruct g as [cs cl rd wa re wi bl dn tmo]. destruct cs; reflexivity. Qed.

(* connection_lost(): asyncio has marked the transport closing, then the callback runs.  (Event.set() on a flag
   that is already set wakes nobody: there is nobody to wake - in every reachable state a set flag means an empty
   wait queue, WriteGateProofs.GateInv) *)
Theorem lost_from_source g : (can_send g = true -> waiting g = []) ->
  callback lost_code (set_closing g) = Some (wstep g Lost).
Proof.
  destruct g as [cs cl rd wa re wi bl dn tmo]. cbn. intros H. destruct cs; cbn; [|reflexivity].
  rewrite (H eq_refl), app_nil_r. reflexivity.
Qed.

(* where a writer blocked in write() continues when woken: after the first wait() - and after the wait() inside the
   loop that is the same place (the loop test comes next) *)
(* a call of write(message w) is the model's Send w ... *)
Theorem send_from_source g w : known g w = false ->
  match write_call g w with
  | WDone g' => wstep g (Send w) = g'
  | WBlocked g' k => wstep g (Send w) = g' /\ k = resume_point
  | WStuck => False
  end.
Proof.
  intros Hk. cbn [wstep]. rewrite Hk. destruct g as [cs cl rd wa re wi bl dn tmo].
  destruct cs, cl; cbn; auto.
Qed.

(* ... and a woken writer continuing is the model's Run w: it writes only if the gate is open NOW, otherwise it
   waits again - at the same resume point, so the model needs no per-writer program counter *)
Theorem run_from_source g w : memN w (released g) = true ->
  match write_resume (take_released g w) w resume_point with
  | WDone g' => wstep g (Run w) = g'
  | WBlocked g' k => wstep g (Run w) = g' /\ k = resume_point
  | WStuck => False
  end.
Proof.
  intros Hm. cbn [wstep]. rewrite Hm. destruct g as [cs cl rd wa re wi bl dn tmo].
  destruct cs, cl; cbn; auto.
Qed.

(* nothing a writer does between two suspensions touches the gate's flag, the wait queue of OTHER writers or the
   released list: the interleaving granularity of the model (one label = one run between suspensions) is the code's *)
Theorem write_is_atomic_on_gate g w k :
  k = write_code \/ k = resume_point ->
  match wexec FUEL g w k with
  | WDone g' => can_send g' = can_send g /\ waiting g' = waiting g /\ released g' = released g
  | WBlocked g' _ => can_send g' = can_send g /\ waiting g' = waiting g ++ [w] /\ released g' = released g /\ wire g' = wire g
  | WStuck => False
  end.
Proof.
  destruct g as [cs cl rd wa re wi bl dn tmo]. intros [->| ->]; destruct cs, cl; cbn; auto.
Qed.

(* so the whole model, run over ANY sequence of labels, is the run of the source's statements *)
Lemma wstep_src_is_wstep g l : GateInv g -> wstep_src g l = wstep g l.
Proof.
  intros (_ & Hw & _). destruct l as [w| | |w| |w]; cbn [wstep_src].
  - destruct (known g w) eqn:Hk; [cbn [wstep]; now rewrite Hk|].
    pose proof (send_from_source g w Hk) as H. destruct (write_call g w); [now symmetry|symmetry; apply H|contradiction].
  - now rewrite pause_from_source.
  - now rewrite resume_from_source.
  - destruct (memN w (released g)) eqn:Hm; [|cbn [wstep]; now rewrite Hm].
    pose proof (run_from_source g w Hm) as H. destruct (write_resume _ _ _); [now symmetry|symmetry; apply H|contradiction].
  - now rewrite (lost_from_source g Hw).
  - reflexivity.
Qed.

Theorem wrun_from_source ls : wrun_src ls = wrun ls.
Proof.
  unfold wrun_src, wrun. assert (H : GateInv ginit) by (repeat split; auto; discriminate). revert H. generalize ginit.
  induction ls as [|l ls IH]; intros g H; cbn [fold_left]; [reflexivity|].
  rewrite (wstep_src_is_wstep g l H). apply IH. now apply wstep_inv.
Qed.
