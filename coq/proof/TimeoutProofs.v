(* Proofs about the one-task timeout semantics (model/Timeout.v). *)
From AV Require Import Base Gen_curio Timeout.
Local Open Scope Z_scope.

Ltac crush :=
  repeat (match goal with
          | |- context [if ?b then _ else _] => destruct b
          | |- context [match ?x with _ => _ end] => destruct x
          end; cbn); auto.

Lemma minl_snoc l d :
  minl (l ++ [d]) = match minl l with Some m => Some (Z.min m d) | None => Some d end.
Proof. destruct l as [|x r]; cbn; auto. rewrite fold_left_app. reflexivity. Qed.

(* ---------- the deadline stack is restored; the armed timer is the minimum ---------- *)
Definition ArmedInv (s : st) : Prop := armed s = None \/ armed s = minl (deadlines s).

Lemma await_stack d s : deadlines (snd (await d s)) = deadlines s.
Proof. unfold await. crush. Qed.
Lemma await_inv d s : ArmedInv s -> ArmedInv (snd (await d s)).
Proof. unfold await, ArmedInv. intros H. crush. Qed.

Lemma aexit_stack k dl r s : deadlines (snd (aexit k dl r s)) = removelast (deadlines s).
Proof. unfold aexit, unset_deadline. crush. Qed.
Lemma aexit_armed k dl r s : armed (snd (aexit k dl r s)) = minl (removelast (deadlines s)).
Proof. unfold aexit, unset_deadline. crush. Qed.

Theorem eval_stack : forall p s, deadlines (snd (eval p s)) = deadlines s.
Proof.
  induction p; intros s; cbn [eval].
  - apply await_stack.
  - specialize (IHp1 s). destruct (eval p1 s) as [[|e] s']; cbn in *; auto. now rewrite IHp2.
  - specialize (IHp (set_deadline s (if abs then t else now s + t))).
    destruct (eval p _) as [r s2]. cbn [snd] in IHp. rewrite aexit_stack, IHp. cbn. apply removelast_last.
  - specialize (IHp1 s). destruct (eval p1 s) as [[|e] s']; cbn in *; auto.
    destruct (existsb _ _); cbn; auto. now rewrite IHp2.
  - reflexivity.
  - reflexivity.
Qed.

Theorem eval_inv : forall p s, ArmedInv s -> ArmedInv (snd (eval p s)).
Proof.
  induction p; intros s H; cbn [eval].
  - now apply await_inv.
  - specialize (IHp1 s H). destruct (eval p1 s) as [[|e] s']; cbn in *; auto.
  - pose proof (eval_stack p (set_deadline s (if abs then t else now s + t))) as Hs.
    destruct (eval p _) as [r s2]. right. rewrite aexit_armed, aexit_stack. reflexivity.
  - specialize (IHp1 s H). destruct (eval p1 s) as [[|e] s']; cbn in *; auto.
    destruct (existsb _ _); cbn; auto.
  - auto.
  - auto.
Qed.

(* after a block exits, the armed timer is exactly the minimum of the REMAINING deadlines:
   the exited block's own deadline is no longer armed *)
Theorem block_exit_rearms k (ab : bool) t body s :
  let s' := snd (eval (Block k ab t body) s) in
  deadlines s' = deadlines s /\ armed s' = minl (deadlines s).
Proof.
  cbn [eval]. pose proof (eval_stack body (set_deadline s (if ab then t else now s + t))) as Hs.
  destruct (eval body _) as [r s2]. cbn [snd] in Hs. cbn zeta.
  rewrite aexit_stack, aexit_armed, Hs. cbn. rewrite removelast_last. auto.
Qed.

Theorem nothing_left_armed : forall p e, armed (snd (eval p (init e))) = None.
Proof.
  intros p e. pose proof (eval_inv p (init e)) as H. pose proof (eval_stack p (init e)) as Hs.
  destruct H as [H|H]; [left; reflexivity | exact H |]. rewrite H, Hs. reflexivity.
Qed.

(* hence a follow-on suspension can only be ended by its own completion or by an external
   cancel - never by a deadline of a block that has exited *)
Theorem no_stray_cancel p d : 0 <= d ->
  let s' := snd (eval p (init None)) in
  ext s' = None -> fst (await d s') = Ok.
Proof.
  intros Hd s' He. pose proof (nothing_left_armed p None) as Ha. fold s' in Ha.
  unfold await. rewrite Ha, He. reflexivity.
Qed.

(* ---------- early completion: the block is transparent ---------- *)
Definition cancelish_res (r : res) : bool := match r with Ok => false | Exc e => is_cancelish e end.

Theorem block_transparent k (ab : bool) t body s :
  let deadline := if ab then t else now s + t in
  cancelish_res (fst (eval body (set_deadline s deadline))) = false ->
  fst (eval (Block k ab t body) s) = fst (eval body (set_deadline s deadline)).
Proof.
  intros deadline H. cbn [eval]. fold deadline. destruct (eval body (set_deadline s deadline)) as [r s2].
  cbn [fst] in *. unfold aexit, unset_deadline. destruct r as [|e]; cbn in *; auto. now rewrite H.
Qed.

(* ---------- the timer fires at the minimum deadline, never earlier ---------- *)
Theorem fires_on_time d s r s' a :
  ArmedInv s -> await d s = (r, s') -> timed_out s' = Some a -> timed_out s <> Some a ->
  r = Exc ECancelled /\ armed s = Some a /\ minl (deadlines s) = Some a /\
  now s' = Z.max a (now s) /\ armed s' = None.
Proof.
  intros Hi. unfold await.
  destruct (armed s) as [a0|] eqn:Ea; cbn.
  - destruct ((Z.max a0 (now s) <=? now s + d) &&
              match (match ext s with Some e => if now s <=? e then Some e else None | None => None end) with
              | Some e => Z.max a0 (now s) <=? e | None => true end) eqn:E1.
    + intros H Ht Hn. injection H as <- <-. cbn in *. injection Ht as <-.
      destruct Hi as [Hi|Hi]; [congruence|]. rewrite Ea in Hi. auto.
    + destruct (match (match ext s with Some e => if now s <=? e then Some e else None | None => None end) with
                | Some e => e <=? now s + d | None => false end).
      * destruct (ext s) as [e|]; [destruct (now s <=? e)|]; intros H Ht Hn; injection H as <- <-; cbn in *; congruence.
      * intros H Ht Hn; injection H as <- <-; cbn in *; congruence.
  - destruct (match (match ext s with Some e => if now s <=? e then Some e else None | None => None end) with
              | Some e => e <=? now s + d | None => false end).
    + destruct (ext s) as [e|]; [destruct (now s <=? e)|]; intros H Ht Hn; injection H as <- <-; cbn in *; congruence.
    + intros H Ht Hn; injection H as <- <-; cbn in *; congruence.
Qed.

(* a suspension that outlasts the armed deadline IS interrupted at that deadline *)
Theorem interrupted_at_deadline d s a :
  armed s = Some a -> Z.max a (now s) <= now s + d ->
  (forall e, ext s = Some e -> now s <= e -> Z.max a (now s) <= e) ->
  fst (await d s) = Exc ECancelled /\ now (snd (await d s)) = Z.max a (now s) /\
  timed_out (snd (await d s)) = Some a.
Proof.
  intros Ha Hd He. unfold await. rewrite Ha.
  assert (E1 : (Z.max a (now s) <=? now s + d) = true) by (apply Z.leb_le; lia). rewrite E1. cbn [andb].
  destruct (ext s) as [e|] eqn:Ee.
  - destruct (now s <=? e) eqn:El.
    + apply Z.leb_le in El. assert (E2 : (Z.max a (now s) <=? e) = true) by (apply Z.leb_le; eauto).
      rewrite E2. cbn. auto.
    + cbn. auto.
  - cbn. auto.
Qed.

(* ---------- C12: an external cancel reaches the top level unchanged ---------- *)
Fixpoint no_catch_cancel (p : prog) : bool :=
  match p with
  | Seq a b => no_catch_cancel a && no_catch_cancel b
  | Block _ _ _ b => no_catch_cancel b
  | Try b c h => no_catch_cancel b && no_catch_cancel h &&
                 negb (existsb (exn_eqb ECancelled) c) && negb (existsb (exn_eqb ETimeoutCancellation) c)
  | _ => true
  end.
Fixpoint pos_awaits (p : prog) : bool :=
  match p with
  | Await d => 0 <=? d
  | Seq a b => pos_awaits a && pos_awaits b
  | Block _ _ _ b => pos_awaits b
  | Try b _ h => pos_awaits b && pos_awaits h
  | _ => true
  end.

Definition Stale (s : st) : Prop := opt_in (timed_out s) (deadlines s) = false.
Definition Due (s : st) : Prop := exists a, armed s = Some a /\ a <= now s.
Definition J (s : st) : Prop := Stale s \/ Due s.
Definition K (s : st) : Prop := forall d, timed_out s = Some d -> d <= now s.
Definition InFlight (s : st) : Prop := opt_in (timed_out s) (deadlines s) = true.

(* what a fragment may do: either the external cancel is untouched, or it was delivered
   and its CancelledError is what comes out, the timeout record being stale *)
Definition Post (s : st) (r : res) (s' : st) : Prop :=
  K s' /\
  ((ext s' = ext s /\ (J s' \/ (r = Exc ECancelled /\ InFlight s'))) \/
   (ext s <> None /\ ext s' = None /\ r = Exc ECancelled /\ Stale s')).

Lemma existsb_exn_false e c : existsb (exn_eqb e) c = false -> forall x, In x c -> exn_eqb x e = false.
Proof.
  intros H x Hx. destruct (exn_eqb x e) eqn:E; auto.
  assert (existsb (exn_eqb e) c = true).
  { apply existsb_exists. exists x. split; auto. destruct x, e; cbn in *; auto. }
  congruence.
Qed.

Lemma opt_in_removelast o l : opt_in o l = false -> opt_in o (removelast l) = false.
Proof.
  destruct o as [x|]; cbn; auto. induction l as [|y l IH]; cbn; auto.
  intros H. apply orb_false_iff in H as [H1 H2]. destruct l; cbn; auto. cbn in IH.
  rewrite H1. cbn. apply IH. exact H2.
Qed.

Lemma minl_le_mem l x : existsb (Z.eqb x) l = true -> exists m, minl l = Some m /\ m <= x.
Proof.
  destruct l as [|y r]; cbn; [discriminate|]. intros H. exists (fold_left Z.min r y). split; auto.
  assert (G : forall r acc, fold_left Z.min r acc <= acc).
  { induction r0 as [|z r0 IH]; intros acc; cbn; [lia|]. etransitivity; [apply IH|]. lia. }
  assert (G2 : forall r acc, existsb (Z.eqb x) r = true -> fold_left Z.min r acc <= x).
  { induction r0 as [|z r0 IH]; intros acc Hx; cbn in *; [discriminate|].
    apply orb_true_iff in Hx as [Hx|Hx].
    - apply Z.eqb_eq in Hx; subst. etransitivity; [apply G|]. lia.
    - now apply IH. }
  apply orb_true_iff in H as [H|H].
  - apply Z.eqb_eq in H; subst. apply G.
  - now apply G2.
Qed.

(* __aexit__ always leaves the state "stale or due", whatever came out of the body *)
Lemma aexit_J k dl r s : K s -> J (snd (aexit k dl r s)).
Proof.
  intros Hk. assert (H : forall r' e, J (add_log (snd (fst (unset_deadline s), snd (unset_deadline s))) r' e)).
  { intros r' e. unfold unset_deadline, J, Stale, Due. cbn.
    destruct (opt_in (timed_out s) (removelast (deadlines s))) eqn:E; [right|left; auto].
    destruct (timed_out s) as [d|] eqn:Et; [|discriminate]. cbn in E.
    destruct (minl_le_mem _ _ E) as (m & Hm & Hle). exists m. split; auto. specialize (Hk d Et). lia. }
  unfold aexit. destruct (unset_deadline s) as [[tod unc] s1] eqn:Eu. cbn [fst snd] in H.
  destruct r as [|e]; cbn; [apply H|].
  destruct (negb (is_cancelish e)); cbn; [apply H|].
  destruct tod as [d|]; [|apply H].
  destruct (d =? dl); [destruct k; apply H|].
  destruct unc; [destruct (exn_eqb e ETaskTimeout); apply H|].
  destruct (exn_eqb e ETimeoutCancellation); apply H.
Qed.

Lemma aexit_K k dl r s : K s -> K (snd (aexit k dl r s)).
Proof.
  intros Hk. unfold aexit, unset_deadline, K in *. crush.
Qed.

Lemma aexit_ext k dl r s : ext (snd (aexit k dl r s)) = ext s.
Proof. unfold aexit, unset_deadline. crush. Qed.

(* an external CancelledError meeting a stale record passes __aexit__ unchanged *)
Lemma aexit_external k dl s :
  Stale s -> last (deadlines s) 0 = dl -> deadlines s <> [] ->
  fst (aexit k dl (Exc ECancelled) s) = Exc ECancelled /\ Stale (snd (aexit k dl (Exc ECancelled) s)).
Proof.
  intros Hs Hl Hne. unfold aexit, unset_deadline, Stale in *. cbn [is_cancelish].
  unfold aexit_handles_Cancelled. cbn [negb].
  destruct (timed_out s) as [d|] eqn:Et.
  - rewrite Hs. cbn [negb].
    assert (Hd : (d =? dl) = false).
    { apply Z.eqb_neq. intros ->. cbn in Hs.
      assert (existsb (Z.eqb dl) (deadlines s) = true).
      { apply existsb_exists. exists dl. split; [|apply Z.eqb_refl].
        rewrite <- Hl. destruct (deadlines s) as [|x l]; [contradiction|].
        apply (@exists_last _ (x :: l)) in Hne as (l' & a & E). rewrite E, last_last. apply in_or_app. right. now left. }
      congruence. }
    rewrite Hd. cbn. split; auto. now apply (opt_in_removelast (Some d)).
  - cbn. auto.
Qed.

Lemma fold_min_mem : forall r y,
  fold_left Z.min r y = y \/ existsb (Z.eqb (fold_left Z.min r y)) r = true.
Proof.
  induction r as [|z r IH]; intros y; cbn; auto.
  destruct (IH (Z.min y z)) as [E|E].
  - rewrite E. destruct (Z.min_spec y z) as [[_ E2]|[_ E2]]; rewrite E2; auto.
    right. now rewrite Z.eqb_refl.
  - right. rewrite E. apply orb_true_r.
Qed.
Lemma minl_mem l m : minl l = Some m -> existsb (Z.eqb m) l = true.
Proof.
  destruct l as [|y r]; cbn; [discriminate|]. intros H. injection H as <-.
  destruct (fold_min_mem r y) as [E|E].
  - rewrite E at 1. now rewrite Z.eqb_refl.
  - rewrite E. apply orb_true_r.
Qed.

Lemma set_deadline_inv s d : ArmedInv s -> ArmedInv (set_deadline s d).
Proof.
  unfold ArmedInv, set_deadline. cbn. rewrite minl_snoc. intros [H|H].
  - destruct (minl (deadlines s)) as [m|]; [|auto].
    destruct (d <? m) eqn:E; [right; f_equal; apply Z.ltb_lt in E; lia|left; exact H].
  - rewrite H. destruct (minl (deadlines s)) as [m|]; [|auto].
    destruct (d <? m) eqn:E; right; f_equal; [apply Z.ltb_lt in E|apply Z.ltb_ge in E]; lia.
Qed.

Lemma await_post d s : 0 <= d -> K s -> J s -> ArmedInv s ->
  Post s (fst (await d s)) (snd (await d s)).
Proof.
  intros Hd Hk Hj Ha. unfold await.
  set (t_timer := match armed s with Some a => Some (Z.max a (now s)) | None => None end).
  set (t_ext := match ext s with Some e => if now s <=? e then Some e else None | None => None end).
  destruct (match t_timer with
            | Some a => (a <=? now s + d) && match t_ext with Some e => a <=? e | None => true end
            | None => false end) eqn:Etf.
  - (* the timer fires *)
    destruct (armed s) as [a0|] eqn:Ear; [|discriminate]. cbn [t_timer fst snd].
    unfold Post. split.
    + intros x Hx. cbn in Hx. injection Hx as <-. cbn. lia.
    + left. cbn. split; auto. right. split; [reflexivity|]. unfold InFlight. cbn.
      destruct Ha as [Ha|Ha]; [congruence|]. apply minl_mem. now rewrite <- Ha, Ear.
  - destruct (match t_ext with Some e => e <=? now s + d | None => false end) eqn:Eef.
    + (* the external cancel is delivered *)
      destruct t_ext as [e|] eqn:Ete; [|discriminate]. cbn [fst snd].
      assert (He : ext s = Some e /\ now s <= e).
      { subst t_ext. destruct (ext s) as [e'|]; [|discriminate].
        destruct (now s <=? e') eqn:El; [|discriminate]. injection Ete as ->. split; auto. now apply Z.leb_le. }
      destruct He as [He Hle]. unfold Post. split.
      * intros x Hx. cbn in Hx. specialize (Hk x Hx). cbn. lia.
      * right. cbn. repeat split; try congruence.
        destruct Hj as [Hs|(a & Har & Hal)]; [exact Hs|]. exfalso.
        subst t_timer. rewrite Har in Etf.
        assert (E1 : (Z.max a (now s) <=? now s + d) = true) by (apply Z.leb_le; lia).
        assert (E2 : (Z.max a (now s) <=? e) = true) by (apply Z.leb_le; lia).
        rewrite E1, E2 in Etf. discriminate.
    + (* completion *)
      cbn [fst snd]. unfold Post. split.
      * intros x Hx. cbn in Hx. specialize (Hk x Hx). cbn. lia.
      * left. cbn. split; auto. left. destruct Hj as [Hs|(a & Har & Hal)]; [left; exact Hs|right].
        exists a. cbn. split; auto. lia.
Qed.

Theorem eval_post : forall p s,
  no_catch_cancel p = true -> pos_awaits p = true -> K s -> J s -> ArmedInv s ->
  Post s (fst (eval p s)) (snd (eval p s)).
Proof.
  induction p as [d|p1 IH1 p2 IH2|k ab t body IH|b IHb c h IHh|e|]; intros s Hn Hp Hk Hj Ha; cbn [eval].
  - cbn in Hp. apply await_post; auto. now apply Z.leb_le.
  - cbn in Hn, Hp. apply andb_true_iff in Hn as [Hn1 Hn2]. apply andb_true_iff in Hp as [Hp1 Hp2].
    specialize (IH1 s Hn1 Hp1 Hk Hj Ha). pose proof (eval_inv p1 s Ha) as Ha1.
    destruct (eval p1 s) as [[|e] s1]; cbn [fst snd] in *; [|exact IH1].
    destruct IH1 as (Hk1 & [(He1 & [Hj1|(Hr & _)])|(_ & _ & Hr & _)]); try discriminate.
    specialize (IH2 s1 Hn2 Hp2 Hk1 Hj1 Ha1). unfold Post in *. rewrite <- He1. exact IH2.
  - cbn in Hn, Hp. set (dl := if ab then t else now s + t).
    set (s1 := set_deadline s dl).
    assert (Hk1 : K s1).
    { intros x Hx. subst s1. unfold set_deadline in Hx. cbn in Hx.
      destruct (opt_in (timed_out s) (deadlines s)); [|discriminate]. cbn. now apply Hk. }
    assert (Hj1 : J s1).
    { subst s1. unfold J, Stale, Due, set_deadline. cbn.
      destruct (opt_in (timed_out s) (deadlines s)) eqn:Ei; [|left; reflexivity]. right.
      destruct Hj as [Hs|(a & Har & Hal)]; [unfold Stale in Hs; congruence|].
      destruct (timed_out s) as [x|] eqn:Et; [|discriminate]. cbn in Ei.
      destruct (minl_le_mem _ _ Ei) as (m & Em & Hm). rewrite Em.
      pose proof (Hk x Et) as Hx.
      destruct (dl <? m) eqn:El; [exists dl; split; auto; apply Z.ltb_lt in El; lia|exists a; auto]. }
    assert (Ha1 : ArmedInv s1) by (now apply set_deadline_inv).
    specialize (IH s1 Hn Hp Hk1 Hj1 Ha1). pose proof (eval_stack body s1) as Hst.
    destruct (eval body s1) as [r s2]. cbn [fst snd] in *.
    destruct IH as (Hk2 & Hcase). unfold Post. split; [now apply aexit_K|].
    rewrite aexit_ext. destruct Hcase as [(He & _)|(Hne & He & Hr & Hs)].
    + left. split; [exact He|]. left. now apply aexit_J.
    + right. subst r.
      assert (Hl : last (deadlines s2) 0 = dl /\ deadlines s2 <> []).
      { rewrite Hst. cbn. rewrite last_last. split; auto. intros E. apply app_eq_nil in E as [_ E]. discriminate. }
      destruct (aexit_external k dl s2 Hs (proj1 Hl) (proj2 Hl)) as [E1 E2].
      repeat split; auto.
  - cbn in Hn, Hp. apply andb_true_iff in Hn as [Hn Hc2]. apply andb_true_iff in Hn as [Hn Hc1].
    apply andb_true_iff in Hn as [Hnb Hnh]. apply andb_true_iff in Hp as [Hpb Hph].
    apply negb_true_iff in Hc1, Hc2.
    specialize (IHb s Hnb Hpb Hk Hj Ha). pose proof (eval_inv b s Ha) as Ha1.
    destruct (eval b s) as [[|e] s1]; cbn [fst snd] in *; [exact IHb|].
    destruct (existsb (exn_eqb e) c) eqn:Ec; [|exact IHb].
    assert (Hne : e <> ECancelled).
    { intros ->. congruence. }
    destruct IHb as (Hk1 & [(He1 & [Hj1|(Hr & _)])|(_ & _ & Hr & _)]).
    + specialize (IHh s1 Hnh Hph Hk1 Hj1 Ha1). unfold Post in *. rewrite <- He1. exact IHh.
    + (* a timer's cancellation in flight is a CancelledError: it cannot have been caught *)
      injection Hr as ->. contradiction.
    + injection Hr as ->. contradiction.
  - unfold Post. cbn. split; auto.
  - unfold Post. cbn. split; auto.
Qed.

Theorem external_cancel_propagates p e :
  no_catch_cancel p = true -> pos_awaits p = true ->
  ext (snd (eval p (init (Some e)))) = None ->
  fst (eval p (init (Some e))) = Exc ECancelled.
Proof.
  intros Hn Hp Hd.
  assert (Hk : K (init (Some e))) by (intros x Hx; discriminate).
  assert (Hj : J (init (Some e))) by (left; reflexivity).
  assert (Ha : ArmedInv (init (Some e))) by (left; reflexivity).
  destruct (eval_post p _ Hn Hp Hk Hj Ha) as (_ & [(He & _)|(_ & _ & Hr & _)]); auto.
  rewrite Hd in He. discriminate.
Qed.

(* ---------- nesting: who reports the timeout (two levels, symbolic deadlines) ---------- *)
Ltac zcmp :=
  repeat match goal with
         | |- context [?a <? ?b] => destruct (Z.ltb_spec a b); try lia
         | |- context [?a <=? ?b] => destruct (Z.leb_spec a b); try lia
         | |- context [?a =? ?b] => destruct (Z.eqb_spec a b); try lia
         | |- context [Z.max ?a ?b] => rewrite (Z.max_l a b) by lia
         | |- context [Z.max ?a ?b] => rewrite (Z.max_r a b) by lia
         | |- context [Z.min ?a ?b] => rewrite (Z.min_l a b) by lia
         | |- context [Z.min ?a ?b] => rewrite (Z.min_r a b) by lia
         end; cbn.

Definition two k1 t1 k2 t2 d := Block k1 false t1 (Block k2 false t2 (Await d)).
Ltac run2 :=
  unfold two, init; cbn [eval]; unfold set_deadline at 2; cbn; unfold set_deadline; cbn; zcmp;
  unfold await; cbn; zcmp; unfold aexit, unset_deadline; cbn; zcmp;
  rewrite ?Z.eqb_refl; cbn; zcmp; repeat split; auto; try lia.

(* the OUTER deadline passes first: the inner block sees TimeoutCancellationError and does not
   report expiry, the outer block reports the timeout *)
Theorem outer_deadline_first k1 k2 t1 t2 d :
  0 <= t1 -> t1 < t2 -> t1 < d ->
  let '(r, s) := eval (two k1 t1 k2 t2 d) (init None) in
  r = match k1 with KTimeout => Exc ETaskTimeout | KIgnore => Ok end /\
  log s = [(Exc ETimeoutCancellation, false); (r, true)] /\ now s = t1 /\ armed s = None.
Proof.
  intros H0 H1 H2. destruct k1, k2; run2.
Qed.

(* the INNER deadline passes first: the inner block reports it; an un-handled inner
   TaskTimeout surfaces as UncaughtTimeoutError in the enclosing block; an ignored one ends
   quietly and the enclosing block is unaffected *)
Theorem inner_deadline_first k1 k2 t1 t2 d :
  0 <= t2 -> t2 < t1 -> t2 < d ->
  let '(r, s) := eval (two k1 t1 k2 t2 d) (init None) in
  match k2 with
  | KTimeout => r = Exc EUncaught /\ log s = [(Exc ETaskTimeout, true); (Exc EUncaught, false)]
  | KIgnore => r = Ok /\ log s = [(Ok, true); (Ok, false)]
  end /\ now s = t2 /\ armed s = None.
Proof.
  intros H0 H1 H2. destruct k1, k2; run2.
Qed.

(* the body finishes before both deadlines: nothing is reported *)
Theorem body_first k1 k2 t1 t2 d :
  0 <= d -> d < t1 -> d < t2 ->
  let '(r, s) := eval (two k1 t1 k2 t2 d) (init None) in
  r = Ok /\ log s = [(Ok, false); (Ok, false)] /\ now s = d /\ armed s = None.
Proof.
  intros H0 H1 H2. destruct k1, k2; run2.
Qed.

(* ---------- a single wait under timeout_after(T) is bounded (used by C20) ---------- *)
Theorem wait_bounded T d e : 0 <= T -> 0 <= d ->
  let '(r, s) := eval (Block KTimeout false T (Await d)) (init e) in
  now s <= Z.max T 0 /\ (now s <= d \/ r <> Ok) /\
  (r = Ok \/ r = Exc ETaskTimeout \/ r = Exc ECancelled) /\ armed s = None.
Proof.
  intros HT Hd. unfold init. cbn [eval]. unfold set_deadline. cbn. unfold await. cbn.
  destruct e as [e|]; cbn; zcmp; unfold aexit, unset_deadline; cbn; zcmp;
    rewrite ?Z.eqb_refl; cbn; zcmp; repeat split; auto; try lia; try (right; discriminate).
Qed.

(* ---------- the level at which an expiry is reported, for ANY nesting ---------- *)
(* what leaves a block, given what left its body *)
Definition body_result (k : kind) (ab : bool) (t : Z) (body : prog) (s : st) : res :=
  fst (eval body (set_deadline s (if ab then t else now s + t))).
Definition block_expired (k : kind) (ab : bool) (t : Z) (body : prog) (s : st) : bool :=
  match rev (log (snd (eval (Block k ab t body) s))) with (_, e) :: _ => e | [] => false end.

Lemma aexit_cases k dl r s :
  let '(r', s') := aexit k dl r s in
  exists e, log s' = log s ++ [(r', e)] /\
    ((e = false /\ r' = r) \/
     (e = true /\ timed_out s = Some dl /\ r' = match k with KIgnore => Ok | KTimeout => Exc ETaskTimeout end) \/
     (e = false /\ r = Exc ETaskTimeout /\ r' = Exc EUncaught) \/
     (e = false /\ r' = Exc ETimeoutCancellation /\ exists d, timed_out s = Some d /\ d <> dl)).
Proof.
  unfold aexit, unset_deadline. cbn [fst snd]. destruct r as [|e0].
  - eexists. split; [reflexivity|]. left. auto.
  - destruct (negb (is_cancelish e0)).
    + eexists. split; [reflexivity|]. left. auto.
    + destruct (timed_out s) as [d|] eqn:Et.
      * destruct (d =? dl) eqn:Ed.
        -- apply Z.eqb_eq in Ed. subst d. destruct k; eexists; (split; [reflexivity|]); right; left; auto.
        -- apply Z.eqb_neq in Ed.
           destruct (negb (opt_in (Some d) (deadlines s))).
           ++ destruct (exn_eqb e0 ETaskTimeout) eqn:Ee.
              ** destruct e0; try discriminate. eexists. split; [reflexivity|]. right. right. left. auto.
              ** eexists. split; [reflexivity|]. left. auto.
           ++ destruct (exn_eqb e0 ETimeoutCancellation) eqn:Ee.
              ** eexists. split; [reflexivity|]. left. auto.
              ** eexists. split; [reflexivity|]. right. right. right. split; [reflexivity|]. split; [reflexivity|]. eauto.
      * eexists. split; [reflexivity|]. left. auto.
Qed.

(* UncaughtTimeoutError leaves a block only when a TaskTimeout (an inner block's, unhandled) or that very
   error left its body; TaskTimeout leaves a block only when the block itself expired or it left the body;
   an ignore block ends quietly only when its body did or the block itself expired *)
Theorem reporting_level k (ab : bool) t body s :
  let r := fst (eval (Block k ab t body) s) in
  let rb := body_result k ab t body s in
  (r = Exc EUncaught -> rb = Exc ETaskTimeout \/ rb = Exc EUncaught) /\
  (r = Exc ETaskTimeout -> rb = Exc ETaskTimeout \/ block_expired k ab t body s = true) /\
  (r = Ok -> rb = Ok \/ (k = KIgnore /\ block_expired k ab t body s = true)) /\
  (block_expired k ab t body s = true -> r = match k with KIgnore => Ok | KTimeout => Exc ETaskTimeout end).
Proof.
  unfold body_result, block_expired. cbn [eval]. cbv zeta.
  destruct (eval body (set_deadline s (if ab then t else now s + t))) as [rb s2] eqn:Eb. cbn [fst].
  pose proof (aexit_cases k (if ab then t else now s + t) rb s2) as H.
  destruct (aexit k (if ab then t else now s + t) rb s2) as [r' s'] eqn:Ea. cbn [fst snd].
  destruct H as (e & Hl & Hc). rewrite Hl, rev_app_distr. cbn.
  destruct Hc as [[-> ->]|[[-> [_ ->]]|[[-> [-> ->]]|[-> [-> _]]]]].
  - repeat split; auto; try discriminate.
  - destruct k; repeat split; auto; try discriminate; intros _; right; auto.
  - repeat split; auto; try discriminate.
  - repeat split; auto; try discriminate.
Qed.

(* entering a block forgets a stale record of an earlier timeout - but not the record of an enclosing block that is still
   active: its cancellation is being delivered, and this block was entered while it unwinds (a finally clause) *)
Lemma entry_keeps_inflight_record s d :
  timed_out (set_deadline s d) = if opt_in (timed_out s) (deadlines s) then timed_out s else None.
Proof. reflexivity. Qed.
