(* C04, the text level composed with the payload level: what encode_payload writes,
   message_to_payload / message_to_item read back. *)
From AV Require Import Base Utf8 Json Gen_jsonrpc Codec CodecProofs JsonRoundTrip.
From Coq Require Import Lia.
Local Open Scope N_scope.

Lemma max_digits_pos : (1 <= json_max_digits)%nat.
Proof. unfold json_max_digits. apply Nat.leb_le. vm_compute. reflexivity. Qed.

Lemma printable_ascii l : forallb printable l = true -> forallb (fun c => c <? 128) l = true.
Proof.
  intros H. rewrite forallb_forall in *. intros c Hc. specialize (H c Hc). unfold printable in H. lia.
Qed.

(* a payload within the limits the decoder enforces survives encode_payload / message_to_payload *)
Theorem payload_text_roundtrip j :
  RT json_max_digits j -> wf_json j = true -> (jdepth j <= json_max_depth)%nat ->
  message_to_payload (encode_payload j) = inl j.
Proof.
  intros Hrt Hwf Hd. unfold message_to_payload, encode_payload.
  rewrite decode_ascii by (apply printable_ascii, print_ascii; exact Hwf).
  now rewrite (loads_print json_max_digits max_digits_pos j json_max_depth Hrt Hd).
Qed.

Theorem item_text_roundtrip d j :
  RT json_max_digits j -> wf_json j = true -> (jdepth j <= json_max_depth)%nat ->
  message_to_item d (encode_payload j) = DRes (payload_to_item d j).
Proof. intros H1 H2 H3. unfold message_to_item. now rewrite payload_text_roundtrip. Qed.
