(* The generated code of TaskGroup._on_done / _add_task = the model's on_done / add_task. *)
From AV Require Import Base Gen_curio TaskGroup TaskGroupProofs TaskGroupCode.

Theorem generated_on_done g t m : get t (members g) = Some m ->
  grun 12 (view g t) g {| c_t := t; c_daemon := m_daemon m; c_status := m_status m |} on_done_code = GOk (on_done g t).
Proof.
  intros E. unfold on_done. rewrite E. unfold on_done_code. destruct (m_daemon m); reflexivity.
Qed.

Theorem generated_add_task g t d st :
  grun 20 (view g t) g {| c_t := t; c_daemon := d; c_status := st |} add_task_code =
  if snd (add_task g t d st) then GOk (fst (add_task g t d st)) else GRaised.
Proof.
  unfold add_task, view. rewrite probe_refused. cbn [andb]. unfold add_task_code.
  destruct (get t (members g)) as [m0|] eqn:Em.
  - destruct (joined g); reflexivity.
  - destruct (joined g) eqn:Ej; [reflexivity|].
    destruct st as [| |o].
    + destruct d; reflexivity.
    + destruct d; reflexivity.
    + cbn [snd fst]. unfold on_done. cbn [members upd_members]. rewrite get_set_same. cbn [m_daemon].
      destruct d; reflexivity.
Qed.

Fixpoint gknown (fuel : nat) (ss : list gstmt) : bool :=
  match fuel with
  | O => false
  | S f => forallb (fun s => match s with
                             | GSUnknown => false
                             | GIf GCUnknown _ _ => false
                             | GIf _ a b => gknown f a && gknown f b
                             | _ => true end) ss
  end.
Theorem taskgroup_code_known : gknown 6 on_done_code && gknown 6 add_task_code = true.
Proof. reflexivity. Qed.
