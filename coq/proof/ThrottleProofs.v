(* C13, the session level: request-processing coroutines running against the incoming limiter
   (model/Throttle.v).  For EVERY list of operations that is well bracketed (the handler is called only
   inside the limiter's block, blocks are not nested and are left again) and every label sequence:
   the handlers that are running all hold a permit, so their number is bounded by what the limiter
   theorems (LimiterProofs) give for the holders.  For every list of operations that starts by asking
   for the permit and asks only once: requests ask the limiter in arrival order. *)
From Coq Require Permutation.
From AV Require Import Base Limiter LimiterProofs Gen_session Throttle.
Local Open Scope Z_scope.
Local Arguments memN : simpl never.
Local Arguments removeN : simpl never.

(* ---------- small facts ---------- *)
Lemma memN_In x l : memN x l = true <-> In x l.
Proof.
  unfold memN. rewrite existsb_exists. split.
  - intros (y & Hy & E). apply N.eqb_eq in E. now subst.
  - intros H. exists x. split; [exact H|apply N.eqb_refl].
Qed.
Lemma memN_false x l : memN x l = false <-> ~ In x l.
Proof. rewrite <- memN_In. destruct (memN x l); split; congruence. Qed.
Lemma memN_cons_other x y l : x <> y -> memN x (y :: l) = memN x l.
Proof. intros H. unfold memN. cbn. apply N.eqb_neq in H. now rewrite H. Qed.
Lemma memN_cons_same x l : memN x (x :: l) = true.
Proof. unfold memN. cbn. now rewrite N.eqb_refl. Qed.
Lemma memN_app x a b : memN x (a ++ b) = memN x a || memN x b.
Proof. unfold memN. apply existsb_app. Qed.
Lemma In_removeN x y l : In x (removeN y l) <-> In x l /\ x <> y.
Proof.
  unfold removeN. rewrite filter_In. split; intros [H1 H2]; split; auto.
  - intros ->. rewrite N.eqb_refl in H2. discriminate.
  - apply negb_true_iff. apply N.eqb_neq. congruence.
Qed.
Lemma memN_removeN_other x y l : x <> y -> memN x (removeN y l) = memN x l.
Proof.
  intros H. destruct (memN x l) eqn:E.
  - apply memN_In. apply In_removeN. split; [now apply memN_In|exact H].
  - apply memN_false. intros Hin. apply In_removeN in Hin as [Hin _]. apply memN_In in Hin. congruence.
Qed.
Lemma memN_removeN_same x l : memN x (removeN x l) = false.
Proof. apply memN_false. intros H. apply In_removeN in H as [_ H]. now apply H. Qed.
Lemma NoDup_removeN x l : NoDup l -> NoDup (removeN x l).
Proof. intros H. unfold removeN. now apply NoDup_filter. Qed.

(* ---------- the limiter: whose membership of the holders a step can change ---------- *)
Definition subject (l : label) : option N :=
  match l with Start w | Wake w | Exit w | Cancel w => Some w | SetTarget _ => None end.

Lemma holders_wake_next st : holders (wake_next st) = holders st.
Proof. destruct (wake_next_spec st) as ((_ & _ & H & _) & _). now symmetry. Qed.
Lemma holders_release st : holders (release st) = holders st.
Proof. destruct (release_spec st) as ((_ & _ & H & _) & _). now symmetry. Qed.
Lemma holders_retarget st w : holders (retarget st w) = holders st \/ holders (retarget st w) = w :: holders st.
Proof.
  unfold retarget. destruct (target st <=? 0); [left; reflexivity|]. right. cbn.
  destruct (release_n_spec (Z.to_nat (target st - semv st)) st) as (_ & _ & H & _). now rewrite H.
Qed.

Lemma holders_step_other st l w' : subject l <> Some w' ->
  memN w' (holders (step st l)) = memN w' (holders st).
Proof.
  intros Hs. destruct l as [w|w|w|w|n]; cbn [step].
  - assert (Hne : w' <> w) by (intros ->; now apply Hs).
    destruct (known st w); [reflexivity|]. destruct (target st <=? 0); [reflexivity|].
    destruct (locked st); [reflexivity|].
    destruct (holders_retarget (upd_sem st (value st - 1) (waiters st)) w) as [-> | ->]; [reflexivity|].
    now apply memN_cons_other.
  - assert (Hne : w' <> w) by (intros ->; now apply Hs).
    destruct (find_waiter w (waiters st)) as [[| |]|]; try reflexivity.
    destruct (memN w (cpend st)).
    + cbn. now rewrite holders_release.
    + match goal with |- context [retarget ?S w] => destruct (holders_retarget S w) as [-> | ->] end.
      * destruct (0 <? _); [now rewrite holders_wake_next|reflexivity].
      * rewrite memN_cons_other by exact Hne. destruct (0 <? _); [now rewrite holders_wake_next|reflexivity].
  - assert (Hne : w' <> w) by (intros ->; now apply Hs).
    destruct (memN w (holders st)); [|reflexivity].
    match goal with |- context [if ?b then _ else _] => destruct b end; cbn; rewrite ?holders_release; cbn;
      now apply memN_removeN_other.
  - destruct (find_waiter w (waiters st)) as [[| |]|]; try reflexivity. destruct (memN w (cpend st)); reflexivity.
  - reflexivity.
Qed.

Lemma holders_exit_self st w : memN w (holders (step st (Exit w))) = false.
Proof.
  cbn [step]. destruct (memN w (holders st)) eqn:E; [|exact E].
  match goal with |- context [if ?b then _ else _] => destruct b end; cbn; rewrite ?holders_release; cbn;
    apply memN_removeN_same.
Qed.

Local Arguments step : simpl never.

(* ---------- requests ---------- *)
Definition keys (l : list (N * treq)) : list N := map fst l.

Lemma lookup_req_in w l q : lookup_req w l = Some q -> In (w, q) l.
Proof.
  induction l as [|[x q0] l IH]; cbn; [discriminate|]. destruct (N.eqb_spec x w) as [->|Hne].
  - intros H. injection H as ->. now left.
  - intros H. right. auto.
Qed.
Lemma in_keys w q l : In (w, q) l -> In w (keys l).
Proof. intros H. apply in_map_iff. exists (w, q). auto. Qed.
Lemma nodup_keys_fun l : NoDup (keys l) -> forall w q q', In (w, q) l -> In (w, q') l -> q = q'.
Proof.
  induction l as [|[x q0] l IH]; cbn; intros Hn w q q' H1 H2; [contradiction|].
  inversion Hn as [|? ? Hx Hn']; subst.
  destruct H1 as [H1|H1], H2 as [H2|H2].
  - congruence.
  - injection H1 as -> ->. exfalso. apply Hx. eapply in_keys; eauto.
  - injection H2 as -> ->. exfalso. apply Hx. eapply in_keys; eauto.
  - eapply IH; eauto.
Qed.
Lemma in_remove_req w' q w l : In (w', q) (remove_req w l) <-> In (w', q) l /\ w' <> w.
Proof.
  unfold remove_req. rewrite filter_In. cbn. split; intros [H1 H2]; split; auto.
  - intros ->. rewrite N.eqb_refl in H2. discriminate.
  - apply negb_true_iff. now apply N.eqb_neq.
Qed.
Lemma keys_remove_req w l : keys (remove_req w l) = removeN w (keys l).
Proof.
  unfold keys, remove_req, removeN. induction l as [|[x q] l IH]; cbn; [reflexivity|].
  rewrite (N.eqb_sym x w). destruct (N.eqb w x); cbn; now rewrite IH.
Qed.

Lemma nodup_app_disjoint {A} (a b : list A) x : NoDup (a ++ b) -> In x a -> In x b -> False.
Proof.
  induction a as [|y a IH]; cbn; intros Hn Ha Hb; [contradiction|]. inversion Hn as [|? ? Hy Hn']; subst.
  destruct Ha as [->|Ha]; [apply Hy; apply in_or_app; now right|eauto].
Qed.
Lemma nodup_app_r {A} (a b : list A) : NoDup (a ++ b) -> NoDup b.
Proof. induction a as [|y a IH]; cbn; intros Hn; [exact Hn|]. inversion Hn; subst. auto. Qed.
Lemma nodup_app_removeN a b w : NoDup (a ++ b) -> NoDup (a ++ removeN w b).
Proof.
  induction a as [|x r IH]; cbn; intros Hn.
  - now apply NoDup_removeN.
  - inversion Hn as [|? ? Hx Hn']; subst. constructor; [|auto]. intros H. apply Hx.
    apply in_app_or in H as [H|H]; apply in_or_app; [now left|right]. now apply In_removeN in H as [H _].
Qed.
Lemma removeN_notin x l : ~ In x l -> removeN x l = l.
Proof.
  intros H. unfold removeN. induction l as [|y l IH]; cbn; [reflexivity|].
  destruct (N.eqb_spec x y) as [->|Hne]; cbn; [exfalso; apply H; now left|]. f_equal. apply IH. intros Hin. apply H. now right.
Qed.

Lemma bracketed_inside : forall ops inside, bracketed_from inside ops = true -> inside_block ops = inside.
Proof.
  induction ops as [|o ops IH]; intros inside H; cbn in *.
  - now destruct inside.
  - destruct o; try (now apply IH); apply andb_true_iff in H as [H1 H2]; destruct inside; try discriminate; auto.
Qed.

(* ---------- the invariant ---------- *)
(* [cur] is the request that is executing (between two labels: none) *)
Record TInvC (cur : option N) (st : tstate) : Prop := {
  i_lim : InvN (lim st);
  i_nodup : NoDup (ready st ++ keys (reqs st));
  i_arrived : incl (ready st ++ keys (reqs st)) (arrived st);
  i_req : forall w q, In (w, q) (reqs st) ->
            if memN w (waiting st) then t_in_handler q = false /\ bracketed_from true (t_rest q) = true
            else bracketed_from (memN w (holders (lim st))) (t_rest q) = true /\
                 (t_in_handler q = true -> memN w (holders (lim st)) = true);
  i_waiting : forall w, memN w (waiting st) = true -> In w (keys (reqs st));
  i_running : forall w, In w (running st) ->
                exists q, In (w, q) (reqs st) /\ t_in_handler q = true /\ memN w (waiting st) = false;
  i_running_nodup : NoDup (running st);
  (* no permit is held by a request that is gone, or that has not started *)
  i_holders : forall w, memN w (holders (lim st)) = true -> cur = Some w \/ In w (keys (reqs st)) }.
Definition TInv := TInvC None.

Definition tok_label (l : tlabel) : Prop := match l with TSetTarget n => 1 <= n | _ => True end.

Lemma tinit_inv t : 1 <= t -> TInv (tinit t).
Proof.
  intros Ht. split; cbn.
  - now apply init_inv.
  - constructor.
  - intros x [].
  - intros w q [].
  - intros w H. discriminate.
  - intros w [].
  - constructor.
  - intros w H. discriminate.
Qed.

(* the limiter takes a step whose subject is the request that is executing *)
Lemma lim_step_inv st l w : TInvC (Some w) st -> subject l = Some w -> ~ In w (keys (reqs st)) ->
  TInvC (Some w) (set_lim st (step (lim st) l)).
Proof.
  intros [I1 I2 I3 I4 I5 I6 I7 I8] Hs Hw. split; cbn; auto.
  - apply step_inv; auto. destruct l; cbn; auto. discriminate.
  - intros w' q Hin. specialize (I4 w' q Hin). rewrite holders_step_other; [exact I4|].
    rewrite Hs. intros E. injection E as ->. apply Hw. eapply in_keys; eauto.
  - intros w' Hh. destruct (N.eq_dec w' w) as [->|Hne]; [now left|].
    apply I8. rewrite holders_step_other in Hh; auto. rewrite Hs. congruence.
Qed.

(* ... or a step that changes nobody's membership *)
Lemma lim_step_inv_same c st l : TInvC c st -> ok_label l ->
  (forall w, memN w (holders (step (lim st) l)) = memN w (holders (lim st))) ->
  TInvC c (set_lim st (step (lim st) l)).
Proof.
  intros [I1 I2 I3 I4 I5 I6 I7 I8] Hl Hsame. split; cbn; auto.
  - now apply step_inv.
  - intros w' q Hin. specialize (I4 w' q Hin). now rewrite Hsame.
  - intros w' Hh. apply I8. now rewrite Hsame in Hh.
Qed.

Lemma drop_cur st w : TInvC (Some w) st -> memN w (holders (lim st)) = false -> TInv st.
Proof.
  intros [I1 I2 I3 I4 I5 I6 I7 I8] Hm. split; auto.
  intros w' Hh. destruct (I8 w' Hh) as [E|H]; [|now right]. injection E as ->. congruence.
Qed.
Lemma take_cur st w : TInv st -> TInvC (Some w) st.
Proof.
  intros [I1 I2 I3 I4 I5 I6 I7 I8]. split; auto.
  intros w' Hh. destruct (I8 w' Hh) as [E|H]; [discriminate|now right].
Qed.

Lemma suspend_inv st w q (queued : bool) :
  TInvC (Some w) st -> ~ In w (ready st ++ keys (reqs st)) -> In w (arrived st) ->
  (if queued then t_in_handler q = false /\ bracketed_from true (t_rest q) = true
   else bracketed_from (memN w (holders (lim st))) (t_rest q) = true /\
        (t_in_handler q = true -> memN w (holders (lim st)) = true)) ->
  TInv (suspend st w q queued).
Proof.
  intros [I1 I2 I3 I4 I5 I6 I7 I8] Hw Ha Hq.
  assert (Hnw : memN w (waiting st) = false).
  { apply memN_false. intros H. apply memN_In in H. apply I5 in H. apply Hw. apply in_or_app. now right. }
  unfold suspend. split; cbn; auto.
  - unfold keys. rewrite map_app. cbn. rewrite app_assoc. apply NoDup_app_snoc; auto.
  - unfold keys. rewrite map_app. cbn. rewrite app_assoc. intros x Hx. apply in_app_or in Hx as [Hx|[<-|[]]]; auto.
  - intros w' q' Hin. apply in_app_or in Hin as [Hin|[Hin|[]]].
    + assert (Hne : w' <> w).
      { intros ->. apply Hw. apply in_or_app. right. eapply in_keys; eauto. }
      specialize (I4 w' q' Hin). destruct queued; [|exact I4].
      rewrite memN_app. rewrite (memN_cons_other w' w []) by exact Hne. cbn. now rewrite orb_false_r.
    + injection Hin as <- <-. destruct queued.
      * rewrite memN_app, memN_cons_same, orb_true_r. exact Hq.
      * rewrite Hnw. exact Hq.
  - intros w' Hw'. unfold keys. rewrite map_app. apply in_or_app. destruct queued.
    + rewrite memN_app in Hw'. apply orb_true_iff in Hw' as [Hw'|Hw'].
      * left. now apply I5.
      * right. apply memN_In in Hw'. destruct Hw' as [<-|[]]. now left.
    + left. now apply I5.
  - intros w' Hr. destruct (I6 w' Hr) as (q' & Hin & Hh & Hwt). exists q'. split; [apply in_or_app; now left|]. split; auto.
    destruct queued; auto. rewrite memN_app, Hwt. cbn.
    assert (Hne : w' <> w) by (intros ->; apply Hw; apply in_or_app; right; eapply in_keys; eauto).
    now rewrite (memN_cons_other w' w []).
  - intros w' Hh. right. unfold keys. rewrite map_app. apply in_or_app.
    destruct (I8 w' Hh) as [E|H]; [injection E as ->; right; now left|now left].
Qed.

Lemma set_ended_inv c st e : TInvC c st -> TInvC c (set_ended st e).
Proof. intros [I1 I2 I3 I4 I5 I6 I7 I8]. split; auto. Qed.
Lemma set_asked_inv c st a : TInvC c st -> TInvC c (set_asked st a).
Proof. intros [I1 I2 I3 I4 I5 I6 I7 I8]. split; auto. Qed.

Lemma handle_inv st w rest s :
  TInvC (Some w) st -> ~ In w (ready st ++ keys (reqs st)) -> In w (arrived st) ->
  memN w (holders (lim st)) = true -> bracketed_from true rest = true ->
  TInv (suspend (set_running st (running st ++ [w]) s) w {| t_in_handler := true; t_rest := rest |} false).
Proof.
  intros Hi Hw Ha Hm Hb. pose proof Hi as [I1 I2 I3 I4 I5 I6 I7 I8].
  assert (Hk : ~ In w (keys (reqs st))) by (intros H; apply Hw; apply in_or_app; now right).
  assert (Hnw : memN w (waiting st) = false).
  { apply memN_false. intros H. apply memN_In in H. apply I5 in H. contradiction. }
  assert (Hnr : ~ In w (running st)).
  { intros H. destruct (I6 w H) as (q & Hin & _). apply Hk. eapply in_keys; eauto. }
  unfold suspend. split; cbn; auto.
  - unfold keys. rewrite map_app. cbn. rewrite app_assoc. apply NoDup_app_snoc; auto.
  - unfold keys. rewrite map_app. cbn. rewrite app_assoc. intros x Hx. apply in_app_or in Hx as [Hx|[<-|[]]]; auto.
  - intros w' q' Hin. apply in_app_or in Hin as [Hin|[Hin|[]]]; [now apply I4|].
    injection Hin as <- <-. rewrite Hnw. cbn. rewrite Hm. auto.
  - intros w' Hw'. unfold keys. rewrite map_app. apply in_or_app. left. now apply I5.
  - intros w' Hr. apply in_app_or in Hr as [Hr|[<-|[]]].
    + destruct (I6 w' Hr) as (q' & Hin & Hh & Hwt). exists q'. split; [apply in_or_app; now left|auto].
    + eexists. split; [apply in_or_app; right; now left|]. cbn. auto.
  - apply NoDup_app_snoc; auto.
  - intros w' Hh. right. unfold keys. rewrite map_app. apply in_or_app.
    destruct (I8 w' Hh) as [E|H]; [injection E as ->; right; now left|now left].
Qed.

(* one request executes *)
Lemma exec_inv : forall ops w st inside,
  TInvC (Some w) st -> ~ In w (ready st ++ keys (reqs st)) -> In w (arrived st) ->
  bracketed_from inside ops = true -> memN w (holders (lim st)) = inside ->
  TInv (exec ops w st).
Proof.
  induction ops as [|o ops IH]; intros w st inside Hi Hw Ha Hb Hm; cbn [exec].
  - apply set_ended_inv. apply (drop_cur st w); auto. cbn in Hb. rewrite Hm. now destruct inside.
  - assert (Hk : ~ In w (keys (reqs st))) by (intros H; apply Hw; apply in_or_app; now right).
    destruct o; cbn [bracketed_from] in Hb.
    + (* TAcquire *)
      apply andb_true_iff in Hb as [Hb1 Hb2]. cbv zeta.
      set (st1 := set_asked (set_lim st (step (lim st) (Start w))) (asked st ++ [w])).
      assert (H1 : TInvC (Some w) st1) by (apply set_asked_inv; eapply lim_step_inv; eauto; reflexivity).
      destruct (memN w (holders (lim st1))) eqn:Eh.
      * eapply IH; eauto.
      * destruct (memN w (refused (lim st1))); [apply set_ended_inv; now apply (drop_cur st1 w)|].
        apply suspend_inv; auto.
    + (* TSleep *)
      apply suspend_inv; auto. rewrite Hm. split; [exact Hb|discriminate].
    + (* THandle *)
      apply andb_true_iff in Hb as [Hb1 Hb2]. subst inside.
      apply handle_inv; auto.
    + (* TRelease *)
      apply andb_true_iff in Hb as [Hb1 Hb2].
      apply (IH w _ false); auto; [apply lim_step_inv; auto|cbn [lim set_lim]; apply holders_exit_self].
    + (* TAwait *)
      apply suspend_inv; auto. rewrite Hm. split; [exact Hb|discriminate].
Qed.

(* removing a suspended request (it is about to go on, or its task ends) *)
Lemma remove_inv st w q :
  TInv st -> In (w, q) (reqs st) ->
  let st1 := set_reqs st (remove_req w (reqs st)) (removeN w (waiting st)) in
  let st2 := if t_in_handler q then set_running st1 (removeN w (running st1)) (started st1) else st1 in
  TInvC (Some w) st2 /\ ~ In w (ready st2 ++ keys (reqs st2)) /\ In w (arrived st2) /\ lim st2 = lim st.
Proof.
  intros Hi Hin. pose proof Hi as [I1 I2 I3 I4 I5 I6 I7 I8]. cbv zeta.
  assert (Hkw : In w (keys (reqs st))) by (eapply in_keys; eauto).
  assert (Hnready : ~ In w (ready st)) by (intros H; eapply nodup_app_disjoint; eauto).
  assert (Hnd : NoDup (ready st ++ removeN w (keys (reqs st)))) by now apply nodup_app_removeN.
  assert (Hnot : ~ In w (ready st ++ removeN w (keys (reqs st)))).
  { intros H. apply in_app_or in H as [H|H]; [contradiction|]. apply In_removeN in H as [_ H]. now apply H. }
  assert (Harr : In w (arrived st)) by (apply I3; apply in_or_app; now right).
  assert (Hrun : t_in_handler q = false -> ~ In w (running st)).
  { intros Hh Hr. destruct (I6 w Hr) as (q' & Hin' & Hh' & _).
    assert (q = q') by (eapply nodup_keys_fun; eauto; now apply nodup_app_r in I2). congruence. }
  assert (Hcommon : forall rn, (forall w', In w' rn -> In w' (running st) /\ w' <> w) -> NoDup rn ->
            forall s, TInvC (Some w) (set_running (set_reqs st (remove_req w (reqs st)) (removeN w (waiting st))) rn s)).
  { intros rn Hrn Hnrn s. split; cbn; auto.
    - now rewrite keys_remove_req.
    - rewrite keys_remove_req. intros x Hx. apply I3. apply in_app_or in Hx as [Hx|Hx]; apply in_or_app; [now left|right].
      now apply In_removeN in Hx as [Hx _].
    - intros w' q' Hq'. apply in_remove_req in Hq' as [Hq' Hne]. rewrite memN_removeN_other by exact Hne. now apply I4.
    - intros w' Hw'. rewrite keys_remove_req. apply In_removeN.
      assert (Hne : w' <> w) by (intros ->; rewrite memN_removeN_same in Hw'; discriminate).
      split; [|exact Hne]. apply I5. now rewrite memN_removeN_other in Hw'.
    - intros w' Hr. destruct (Hrn w' Hr) as [Hr' Hne]. destruct (I6 w' Hr') as (q' & Hq' & Hh & Hwt).
      exists q'. split; [apply in_remove_req; auto|]. split; auto. now rewrite memN_removeN_other.
    - intros w' Hh. destruct (N.eq_dec w' w) as [->|Hne]; [now left|]. right. rewrite keys_remove_req.
      apply In_removeN. split; auto. destruct (I8 w' Hh) as [E|H]; [discriminate|exact H]. }
  destruct (t_in_handler q) eqn:Eh.
  - split; [|cbn; rewrite keys_remove_req; auto].
    apply Hcommon; [intros w' H; now apply In_removeN in H|now apply NoDup_removeN].
  - split; [|cbn; rewrite keys_remove_req; auto].
    specialize (Hcommon (running st)). apply (Hcommon) with (s := started st); auto.
    intros w' H. split; auto. intros ->. now apply (Hrun eq_refl).
Qed.

Lemma tstep_inv ops st l : bracketed ops = true -> TInv st -> tok_label l -> TInv (tstep ops st l).
Proof.
  intros Hb Hi Hl. pose proof Hi as [I1 I2 I3 I4 I5 I6 I7 I8]. destruct l as [w| |w|w|w|w|n]; cbn [tstep].
  - (* TArrive *)
    destruct (memN w (arrived st)) eqn:Ea; [exact Hi|]. apply memN_false in Ea.
    split; cbn; auto.
    + rewrite <- app_assoc. cbn.
      apply (Permutation.Permutation_NoDup (l := w :: ready st ++ keys (reqs st))); [apply Permutation.Permutation_middle|].
      constructor; auto.
    + intros x Hx. rewrite <- app_assoc in Hx. apply in_or_app. apply in_app_or in Hx as [Hx|[<-|Hx]].
      * left. apply I3. apply in_or_app. now left.
      * right. now left.
      * left. apply I3. apply in_or_app. now right.
  - (* TFirst *)
    destruct (ready st) as [|w r] eqn:Er; [exact Hi|].
    cbn in I2. inversion I2 as [|? ? Hx Hn]; subst.
    apply (exec_inv ops w _ false); cbn; auto.
    + split; cbn; auto.
      * intros x Hx'. apply I3. cbn. now right.
      * intros w' Hh. right. destruct (I8 w' Hh) as [E|H]; [discriminate|exact H].
    + apply I3. cbn. now left.
    + (* a request that has not run yet holds nothing *)
      destruct (memN w (holders (lim st))) eqn:Eh; [|reflexivity]. exfalso.
      destruct (I8 w Eh) as [E|H]; [discriminate|]. apply Hx. apply in_or_app. now right.
  - (* TResume *)
    destruct (lookup_req w (reqs st)) as [q|] eqn:El; [|exact Hi]. apply lookup_req_in in El.
    destruct (memN w (waiting st)) eqn:Ew; [exact Hi|].
    pose proof (remove_inv st w q Hi El) as Hr. cbv zeta in Hr.
    rewrite (removeN_notin w (waiting st)) in Hr by (now apply memN_false).
    destruct Hr as (H1 & H2 & H3 & H4).
    specialize (I4 w q El). rewrite Ew in I4. destruct I4 as [I4 _].
    eapply exec_inv; eauto. now rewrite H4.
  - (* TWake *)
    destruct (lookup_req w (reqs st)) as [q|] eqn:El; [|exact Hi]. apply lookup_req_in in El.
    destruct (memN w (waiting st)) eqn:Ew; [|exact Hi]. cbv zeta.
    pose proof (I4 w q El) as Hq. rewrite Ew in Hq. destruct Hq as [Hq1 Hq2].
    pose proof (remove_inv st w q Hi El) as Hr. cbv zeta in Hr. rewrite Hq1 in Hr.
    destruct Hr as (H1 & H2 & H3 & H4).
    set (str := set_reqs st (remove_req w (reqs st)) (removeN w (waiting st))) in *.
    assert (H5 : TInvC (Some w) (set_lim str (step (lim str) (Wake w)))).
    { apply lim_step_inv; auto. intros H. apply H2. apply in_or_app. now right. }
    change (lim str) with (lim st) in H5.
    destruct (memN w (holders (lim (set_lim st (step (lim st) (Wake w)))))) eqn:Eh.
    + apply (exec_inv (t_rest q) w (set_lim str (step (lim st) (Wake w))) true); auto.
    + destruct (find_waiter w (waiters (lim (set_lim st (step (lim st) (Wake w)))))).
      * (* still queued *)
        split; cbn; auto.
        -- apply step_inv; auto.
        -- intros w' q' Hin. specialize (I4 w' q' Hin). destruct (N.eq_dec w' w) as [->|Hne].
           ++ rewrite Ew in *. exact I4.
           ++ rewrite holders_step_other; [exact I4|]. cbn. congruence.
        -- intros w' Hh. destruct (N.eq_dec w' w) as [->|Hne]; [cbn in Eh; congruence|].
           apply I8. rewrite holders_step_other in Hh; auto. cbn. congruence.
      * apply (set_ended_inv None (set_lim str (step (lim st) (Wake w)))). now apply (drop_cur _ w).
  - (* TCancelW *)
    destruct (memN w (waiting st)); [|exact Hi].
    apply lim_step_inv_same; auto. intros w'. unfold step.
    destruct (find_waiter w (waiters (lim st))) as [[| |]|]; try reflexivity. destruct (memN w (cpend (lim st))); reflexivity.
  - (* TAbort *)
    destruct (lookup_req w (reqs st)) as [q|] eqn:El; [|exact Hi]. apply lookup_req_in in El.
    destruct (memN w (waiting st)) eqn:Ew; [exact Hi|]. cbv zeta.
    pose proof (remove_inv st w q Hi El) as Hr. cbv zeta in Hr.
    rewrite (removeN_notin w (waiting st)) in Hr by (now apply memN_false).
    destruct Hr as (H1 & H2 & H3 & H4).
    specialize (I4 w q El). rewrite Ew in I4. destruct I4 as [I4 _]. apply bracketed_inside in I4.
    match goal with |- TInv (set_ended ?S _) => apply (set_ended_inv None S) end.
    match type of H1 with TInvC _ ?S => set (st2 := S) in * end.
    rewrite I4. rewrite <- H4.
    destruct (memN w (holders (lim st2))) eqn:Eh.
    + apply (drop_cur _ w).
      * apply lim_step_inv; auto. intros H. apply H2. apply in_or_app. now right.
      * cbn. apply holders_exit_self.
    + now apply (drop_cur st2 w).
  - (* TSetTarget *)
    apply lim_step_inv_same; auto.
Qed.

Theorem trun_inv ops t ls : bracketed ops = true -> 1 <= t -> Forall tok_label ls -> TInv (trun ops t ls).
Proof.
  intros Hb Ht Hl. unfold trun. assert (H0 : TInv (tinit t)) by now apply tinit_inv.
  revert H0. generalize (tinit t). induction Hl as [|l ls Hl1 Hl2 IH]; intros st H0; cbn [fold_left]; [exact H0|].
  apply IH. now apply tstep_inv.
Qed.

(* ---------- consequences ---------- *)
(* every running handler holds a permit *)
Lemma running_hold st : TInv st -> incl (running st) (holders (lim st)).
Proof.
  intros [I1 I2 I3 I4 I5 I6 I7 I8] w Hr. destruct (I6 w Hr) as (q & Hin & Hh & Hw).
  specialize (I4 w q Hin). rewrite Hw in I4. apply memN_In. now apply I4.
Qed.

Lemma running_le_holders st : TInv st -> (length (running st) <= length (holders (lim st)))%nat.
Proof. intros H. apply NoDup_incl_length; [apply (i_running_nodup _ _ H)|now apply running_hold]. Qed.

(* every permit is held by a request that is still there (none is leaked by a request that ended) *)
Lemma holders_live st : TInv st -> forall w, In w (holders (lim st)) -> In w (keys (reqs st)).
Proof.
  intros H w Hw. apply memN_In in Hw. destruct (i_holders _ _ H w Hw) as [E|Hk]; [discriminate|exact Hk].
Qed.

(* ---------- arrival order ---------- *)
Record AInv (st : tstate) : Prop := {
  a_order : arrived st = asked st ++ ready st;
  a_rest : forall w q, In (w, q) (reqs st) -> existsb is_acquire (t_rest q) = false }.

Lemma exec_ainv : forall ops w st, existsb is_acquire ops = false ->
  (forall w' q, In (w', q) (reqs st) -> existsb is_acquire (t_rest q) = false) ->
  arrived (exec ops w st) = arrived st /\ asked (exec ops w st) = asked st /\ ready (exec ops w st) = ready st /\
  (forall w' q, In (w', q) (reqs (exec ops w st)) -> existsb is_acquire (t_rest q) = false).
Proof.
  induction ops as [|o ops IH]; intros w st Hn Hr; cbn [exec].
  - cbn. auto.
  - cbn in Hn. apply orb_false_iff in Hn as [Hn1 Hn2].
    assert (Hs : forall st0 b q, t_rest q = ops ->
              (forall w' q', In (w', q') (reqs st0) -> existsb is_acquire (t_rest q') = false) ->
              forall w' q', In (w', q') (reqs (suspend st0 w q b)) -> existsb is_acquire (t_rest q') = false).
    { intros st0 b q Hq H0 w' q' Hin. unfold suspend in Hin. cbn in Hin. apply in_app_or in Hin as [Hin|[Hin|[]]]; [eauto|].
      injection Hin as <- <-. now rewrite Hq. }
    destruct o; try discriminate.
    + split; [reflexivity|]. split; [reflexivity|]. split; [reflexivity|]. apply Hs; auto.
    + split; [reflexivity|]. split; [reflexivity|]. split; [reflexivity|]. apply Hs; auto.
    + destruct (IH w (set_lim st (step (lim st) (Exit w))) Hn2 Hr) as (E1 & E2 & E3 & E4). auto.
    + split; [reflexivity|]. split; [reflexivity|]. split; [reflexivity|]. apply Hs; auto.
Qed.

Lemma tstep_ainv ops st l : acquire_first_once ops = true -> AInv st -> AInv (tstep ops st l).
Proof.
  intros Ha [A1 A2]. unfold acquire_first_once in Ha. destruct ops as [|[] rest]; try discriminate.
  apply negb_true_iff in Ha.
  assert (Hrem : forall w, forall w' q, In (w', q) (remove_req w (reqs st)) -> existsb is_acquire (t_rest q) = false).
  { intros w w' q Hin. apply in_remove_req in Hin as [Hin _]. eauto. }
  destruct l as [w| |w|w|w|w|n]; cbn [tstep].
  - destruct (memN w (arrived st)); [split; auto|]. split; cbn; auto. now rewrite A1, app_assoc.
  - destruct (ready st) as [|w r] eqn:Er; [split; [now rewrite Er|auto]|]. cbn [exec]. cbv zeta.
    match goal with |- AInv (if ?b then _ else _) => destruct b end.
    + match goal with |- AInv (exec rest w ?S) => destruct (exec_ainv rest w S Ha) as (E1 & E2 & E3 & E4) end; [exact A2|].
      split; [|exact E4]. rewrite E1, E2, E3. cbn. rewrite A1, <- app_assoc. reflexivity.
    + match goal with |- AInv (if ?b then _ else _) => destruct b end.
      * split; cbn; auto. rewrite A1, <- app_assoc. reflexivity.
      * split; cbn; [rewrite A1, <- app_assoc; reflexivity|].
        intros w' q Hin. apply in_app_or in Hin as [Hin|[Hin|[]]]; [eauto|]. injection Hin as <- <-. exact Ha.
  - destruct (lookup_req w (reqs st)) as [q|] eqn:El; [|split; auto]. apply lookup_req_in in El.
    destruct (memN w (waiting st)); [split; auto|]. cbv zeta.
    match goal with |- AInv (exec _ w ?S) => destruct (exec_ainv (t_rest q) w S (A2 _ _ El)) as (E1 & E2 & E3 & E4) end.
    { destruct (t_in_handler q); cbn; apply Hrem. }
    split; [|exact E4]. rewrite E1, E2, E3. destruct (t_in_handler q); cbn; exact A1.
  - destruct (lookup_req w (reqs st)) as [q|] eqn:El; [|split; auto]. apply lookup_req_in in El.
    destruct (memN w (waiting st)); [|split; auto]. cbv zeta.
    match goal with |- AInv (if ?b then _ else _) => destruct b end.
    + match goal with |- AInv (exec _ w ?S) => destruct (exec_ainv (t_rest q) w S (A2 _ _ El)) as (E1 & E2 & E3 & E4) end.
      { cbn. apply Hrem. }
      split; [|exact E4]. rewrite E1, E2, E3. cbn. exact A1.
    + match goal with |- AInv (match ?x with _ => _ end) => destruct x end; split; cbn; auto. apply Hrem.
  - destruct (memN w (waiting st)); split; auto.
  - destruct (lookup_req w (reqs st)) as [q|] eqn:El; [|split; auto].
    destruct (memN w (waiting st)); [split; auto|]. cbv zeta.
    destruct (t_in_handler q), (inside_block (t_rest q)); split; cbn; auto; apply Hrem.
  - split; auto.
Qed.

(* requests ask the limiter for their permit in the order in which they arrived *)
Theorem trun_arrival_order ops t ls : acquire_first_once ops = true ->
  arrived (trun ops t ls) = asked (trun ops t ls) ++ ready (trun ops t ls).
Proof.
  intros Ha. unfold trun. assert (H0 : AInv (tinit t)) by (split; cbn; [reflexivity|intros w q []]).
  revert H0. generalize (tinit t). induction ls as [|l ls IH]; intros st H0; cbn [fold_left]; [apply H0|].
  apply IH. now apply tstep_ainv.
Qed.

(* ---------- the unanswered-request count ---------- *)
(* every request that has arrived is accounted for exactly once: not yet started, suspended, or ended *)
Definition accounted (st : tstate) : list N := ready st ++ keys (reqs st) ++ ended st.

Import Permutation.

Lemma exec_accounted : forall ops w st, Permutation (accounted (exec ops w st)) (w :: accounted st).
Proof.
  assert (Hsus : forall st w q b, Permutation (accounted (suspend st w q b)) (w :: accounted st)).
  { intros st w q b. unfold accounted, suspend. cbn [ready reqs ended set_reqs]. unfold keys. rewrite map_app. cbn.
    rewrite <- !app_assoc. cbn. apply Permutation_sym. rewrite !(app_assoc (ready st)). apply Permutation_middle. }
  assert (Hend : forall st w, Permutation (accounted (set_ended st (ended st ++ [w]))) (w :: accounted st)).
  { intros st w. unfold accounted. cbn [ready reqs ended set_ended]. rewrite !app_assoc. apply Permutation_sym.
    apply Permutation_cons_append. }
  induction ops as [|o ops IH]; intros w st; cbn [exec].
  - apply Hend.
  - destruct o.
    + cbv zeta. match goal with |- context [if ?b then _ else _] => destruct b end.
      * eapply perm_trans; [apply IH|]. apply Permutation_refl.
      * match goal with |- context [if ?b then _ else _] => destruct b end.
        -- eapply perm_trans; [apply Hend|]. apply Permutation_refl.
        -- eapply perm_trans; [apply Hsus|]. apply Permutation_refl.
    + apply Hsus.
    + eapply perm_trans; [apply Hsus|]. apply Permutation_refl.
    + eapply perm_trans; [apply IH|]. apply Permutation_refl.
    + apply Hsus.
Qed.

Lemma keys_remove_perm w q l : NoDup (keys l) -> In (w, q) l -> Permutation (keys l) (w :: keys (remove_req w l)).
Proof.
  unfold keys, remove_req. induction l as [|[x q0] l IH]; cbn; intros Hn Hin; [contradiction|].
  inversion Hn as [|? ? Hx Hn']; subst. destruct Hin as [E|Hin].
  - injection E as -> ->. rewrite N.eqb_refl. cbn.
    assert (E : filter (fun x0 => negb (N.eqb (fst x0) w)) l = l).
    { clear - Hx. induction l as [|y l IH]; cbn; auto. cbn in Hx. destruct (N.eqb_spec (fst y) w) as [E|E]; cbn.
      - exfalso. apply Hx. now left.
      - f_equal. apply IH. intros H. apply Hx. now right. }
    rewrite E. apply Permutation_refl.
  - destruct (N.eqb_spec x w) as [->|Hne]; cbn.
    + exfalso. apply Hx. apply in_map_iff. exists (w, q). auto.
    + eapply perm_trans; [apply perm_skip, IH; auto|]. apply perm_swap.
Qed.

Lemma exec_arrived : forall ops w s, arrived (exec ops w s) = arrived s.
Proof.
  induction ops as [|o ops IH]; intros w s; cbn [exec]; [reflexivity|]. destruct o; try reflexivity.
  - cbv zeta. repeat match goal with |- context [if ?b then _ else _] => destruct b end; rewrite ?IH; reflexivity.
  - now rewrite IH.
Qed.

Lemma tstep_accounted ops st l : TInv st -> Permutation (arrived st) (accounted st) ->
  Permutation (arrived (tstep ops st l)) (accounted (tstep ops st l)).
Proof.
  intros Hi Hp. pose proof Hi as [I1 I2 I3 I4 I5 I6 I7 I8].
  assert (Hk : NoDup (keys (reqs st))) by (now apply nodup_app_r in I2).
  assert (Hrem : forall w q, In (w, q) (reqs st) ->
            Permutation (arrived st) (w :: ready st ++ keys (remove_req w (reqs st)) ++ ended st)).
  { intros w q Hin. eapply perm_trans; [exact Hp|]. unfold accounted.
    eapply perm_trans; [apply Permutation_app_head, Permutation_app_tail, (keys_remove_perm w q); auto|].
    cbn. apply Permutation_sym. apply Permutation_middle. }
  destruct l as [w| |w|w|w|w|n]; cbn [tstep].
  - destruct (memN w (arrived st)); [exact Hp|]. unfold accounted. cbn [arrived ready reqs ended set_ready].
    rewrite <- app_assoc. cbn. eapply perm_trans; [apply Permutation_sym, Permutation_cons_append|].
    eapply perm_trans; [apply perm_skip; exact Hp|]. unfold accounted. apply Permutation_middle.
  - destruct (ready st) as [|w r] eqn:Er; [exact Hp|].
    rewrite exec_arrived. cbn [arrived set_ready]. eapply perm_trans; [exact Hp|]. apply Permutation_sym. eapply perm_trans; [apply exec_accounted|].
    unfold accounted. cbn [ready reqs ended set_ready]. rewrite Er. apply Permutation_refl.
  - destruct (lookup_req w (reqs st)) as [q|] eqn:El; [|exact Hp]. apply lookup_req_in in El.
    destruct (memN w (waiting st)); [exact Hp|]. cbv zeta.
    match goal with |- Permutation (arrived (exec _ w ?S)) _ => set (s0 := S) end.
    rewrite exec_arrived. apply Permutation_sym. eapply perm_trans; [apply exec_accounted|].
    apply Permutation_sym. subst s0. destruct (t_in_handler q); cbn; apply (Hrem w q El).
  - destruct (lookup_req w (reqs st)) as [q|] eqn:El; [|exact Hp]. apply lookup_req_in in El.
    destruct (memN w (waiting st)); [|exact Hp]. cbv zeta.
    match goal with |- context [if ?b then _ else _] => destruct b end.
    + rewrite exec_arrived. apply Permutation_sym. eapply perm_trans; [apply exec_accounted|].
      apply Permutation_sym. cbn. apply (Hrem w q El).
    + match goal with |- context [match ?x with Some _ => _ | None => _ end] => destruct x end; [exact Hp|].
      unfold accounted. cbn [arrived ready reqs ended set_ended set_reqs set_lim].
      eapply perm_trans; [apply (Hrem w q El)|]. rewrite !app_assoc. apply Permutation_cons_append.
  - destruct (memN w (waiting st)); exact Hp.
  - destruct (lookup_req w (reqs st)) as [q|] eqn:El; [|exact Hp]. apply lookup_req_in in El.
    destruct (memN w (waiting st)); [exact Hp|]. cbv zeta.
    eapply perm_trans; [|apply Permutation_refl].
    destruct (t_in_handler q), (inside_block (t_rest q)); unfold accounted; cbn [arrived ready reqs ended set_ended set_reqs set_lim set_running];
      (eapply perm_trans; [apply (Hrem w q El)|]); rewrite !app_assoc; apply Permutation_cons_append.
  - exact Hp.
Qed.

(* the number of requests received whose handling has not finished = arrived - ended *)
Theorem trun_unanswered ops t ls : bracketed ops = true -> 1 <= t -> Forall tok_label ls ->
  let st := trun ops t ls in
  Permutation (arrived st) (ready st ++ keys (reqs st) ++ ended st) /\
  (unfinished st + length (ended st) = length (arrived st))%nat.
Proof.
  intros Hb Ht Hl. cbv zeta.
  assert (H : TInv (trun ops t ls) /\ Permutation (arrived (trun ops t ls)) (accounted (trun ops t ls))).
  { unfold trun. assert (H0 : TInv (tinit t) /\ Permutation (arrived (tinit t)) (accounted (tinit t))).
    { split; [now apply tinit_inv|apply Permutation_refl]. }
    revert H0. generalize (tinit t). induction Hl as [|l ls Hl1 Hl2 IH]; intros st [H1 H2]; cbn [fold_left]; [auto|].
    apply IH. split; [now apply tstep_inv|now apply tstep_accounted]. }
  destruct H as [_ H]. split; [exact H|].
  apply Permutation_length in H. unfold accounted in H. rewrite !app_length in H. unfold unfinished, keys in *.
  rewrite map_length in H. lia.
Qed.
