(* Proofs about the life-cycle LTS (model/Lifecycle.v): C08. *)
From AV Require Import Base Lifecycle.
From Coq Require Import Lia.

(* ---------- association lists ---------- *)
Section Assoc.
  Context {A : Type}.
  Implicit Types (l : list (N * A)).

  Lemma lookup_update_same k v l : lookup k l <> None -> lookup k (update k v l) = Some v.
  Proof.
    induction l as [|[x v0] l IH]; cbn; [congruence|].
    destruct (N.eqb x k) eqn:E; cbn; rewrite E; auto.
  Qed.
  Lemma lookup_update_other k k' v l : k <> k' -> lookup k' (update k v l) = lookup k' l.
  Proof.
    intros Hne. induction l as [|[x v0] l IH]; cbn; [reflexivity|].
    destruct (N.eqb_spec x k) as [->|Hx]; cbn.
    - destruct (N.eqb_spec k k'); [contradiction|reflexivity].
    - destruct (N.eqb x k'); auto.
  Qed.
  Lemma lookup_snoc k k' v l : lookup k' (l ++ [(k, v)]) =
    match lookup k' l with Some x => Some x | None => if N.eqb k k' then Some v else None end.
  Proof. induction l as [|[x v0] l IH]; cbn; [reflexivity|]. destruct (N.eqb x k'); auto. Qed.
  Lemma keys_update k v l : map fst (update k v l) = map fst l.
  Proof. induction l as [|[x v0] l IH]; cbn; [reflexivity|]. destruct (N.eqb_spec x k) as [->|]; cbn; congruence. Qed.
  Lemma lookup_In k v l : lookup k l = Some v -> In (k, v) l.
  Proof.
    induction l as [|[x v0] l IH]; cbn; [discriminate|].
    destruct (N.eqb_spec x k) as [->|]; [intros E; injection E as ->; now left|intros E; right; auto].
  Qed.
  Lemma In_lookup k v l : NoDup (map fst l) -> In (k, v) l -> lookup k l = Some v.
  Proof.
    induction l as [|[x v0] l IH]; cbn; [intros _ []|]. intros Hnd [E|Hin].
    - injection E as -> ->. now rewrite N.eqb_refl.
    - inversion Hnd as [|? ? Hnot Hnd']; subst. destruct (N.eqb_spec x k) as [->|]; [|auto].
      exfalso. apply Hnot. apply in_map_iff. exists (k, v). auto.
  Qed.
  Lemma lookup_none_notin k l : lookup k l = None -> ~ In k (map fst l).
  Proof.
    induction l as [|[x v0] l IH]; cbn; [intros _ []|].
    destruct (N.eqb_spec x k) as [->|Hne]; [discriminate|]. intros E [H|H]; [contradiction|]. now apply IH.
  Qed.
  Lemma forallb_update (P : N * A -> bool) k v l :
    forallb P l = true -> P (k, v) = true -> forallb P (update k v l) = true.
  Proof.
    intros H Hv. induction l as [|[x v0] l IH]; cbn in *; [reflexivity|].
    apply andb_true_iff in H as [H1 H2]. destruct (N.eqb_spec x k) as [->|]; cbn; rewrite ?Hv, ?H1, ?H2; auto.
  Qed.
  Lemma update_In k v l x : In x (update k v l) -> In x l \/ x = (k, v).
  Proof.
    induction l as [|[y v0] l IH]; cbn; [intros []|]. destruct (N.eqb_spec y k) as [->|].
    - intros [<-|H]; [now right|left; now right].
    - intros [<-|H]; [left; now left|]. destruct (IH H); auto.
  Qed.
End Assoc.

(* ---------- the invariant ---------- *)
Definition not_running (x : N * (task_st * bool)) : bool := match fst (snd x) with TRun => false | _ => true end.
Definition plain_returned (x : N * (close_st * option N)) : bool :=
  match snd x with (CReturned, None) => true | _ => false end.

Record LInv (s : life) : Prop := {
  i_hook : hook s = match lp s with TDone => 1 | _ => 0 end;
  i_wait : hook s <> 0 -> existsb waiter_open (waiters s) = false;
  i_grp_run : grp s <> GBody -> forallb not_running (handlers s) = true;
  i_grp_lp : grp s = GCancelling -> lp s <> TRun;
  i_exit : grp s = GExited -> lp s = TDone /\ forallb handler_done (handlers s) = true;
  i_closed : closed s = true <-> grp s = GExited;
  i_ret : existsb plain_returned (closers s) = true -> closed s = true;
  i_hkeys : NoDup (map fst (handlers s));
  i_ckeys : NoDup (map fst (closers s)) }.

Lemma linv_init : LInv linit.
Proof.
  split; cbn; auto; try discriminate; try constructor; try (intros; discriminate).
  all: try (split; discriminate).
Qed.

Lemma existsb_map_cancel ws : existsb waiter_open (map cancel_waiter ws) = false.
Proof. induction ws as [|[w st] ws IH]; cbn; [reflexivity|]. rewrite IH. now destruct st. Qed.
Lemma forallb_map_request hs : forallb not_running (map request_cancel hs) = true.
Proof. induction hs as [|[h [st r]] hs IH]; cbn; [reflexivity|]. rewrite IH. now destruct st. Qed.
Lemma keys_map_request hs : map fst (map request_cancel hs) = map fst hs.
Proof. induction hs as [|[h [st r]] hs IH]; cbn; [reflexivity|]. rewrite IH. now destruct st. Qed.
Lemma forallb_done_map_request hs : forallb handler_done (map request_cancel hs) = forallb handler_done hs.
Proof. induction hs as [|[h [st r]] hs IH]; cbn; [reflexivity|]. rewrite IH. now destruct st. Qed.

Lemma existsb_update_false {A} (P : N * A -> bool) k v l :
  existsb P l = false -> P (k, v) = false -> existsb P (update k v l) = false.
Proof.
  intros H Hv. induction l as [|[x v0] l IH]; cbn in *; [reflexivity|].
  apply orb_false_iff in H as [H1 H2]. destruct (N.eqb_spec x k) as [->|]; cbn; rewrite ?Hv, ?H1, ?H2; auto.
Qed.
Lemma existsb_update_true {A} (P : N * A -> bool) k v l :
  existsb P (update k v l) = true -> existsb P l = true \/ P (k, v) = true.
Proof.
  intros H. apply existsb_exists in H as (x & Hin & Hx). apply update_In in Hin as [Hin| ->]; auto.
  left. apply existsb_exists. eauto.
Qed.

Lemma lstep_inv s l s' : LInv s -> lstep s l = Some s' -> LInv s'.
Proof.
  intros [I1 I2 I3 I4 I5 I6 I7 I8 I9] Hs. destruct l as [h|w|w|w|c o| | | | |h|h r| |c|c]; cbn in Hs.
  - (* LArrive *)
    destruct (lp s) eqn:El; try discriminate. destruct (grp s) eqn:Eg; try discriminate.
    destruct (lookup h (handlers s)) eqn:Eh; try discriminate. injection Hs as <-.
    split; cbn; rewrite ?El, ?Eg; auto; try congruence.
    rewrite map_app. cbn. apply NoDup_app_snoc; auto. now apply lookup_none_notin.
  - (* LWaiter *)
    destruct (lookup w (waiters s)) eqn:Ew; try discriminate. injection Hs as <-.
    split; cbn; auto. intros Hh. rewrite existsb_app, (I2 Hh). cbn.
    destruct (hook s =? 0)%nat eqn:E; [apply Nat.eqb_eq in E; contradiction|reflexivity].
  - (* LResolve *)
    assert (Hres : forall s0, Some (set_waiters s (update w WRes (waiters s))) = Some s0 -> LInv s0).
    { intros s0 E. injection E as <-. split; cbn; auto. intros Hh. apply existsb_update_false; auto. }
    destruct (lookup w (waiters s)) as [[]|]; try discriminate; auto.
  - (* LGiveUp *)
    assert (Hres : forall s0, Some (set_waiters s (update w WCanc (waiters s))) = Some s0 -> LInv s0).
    { intros s0 E. injection E as <-. split; cbn; auto. intros Hh. apply existsb_update_false; auto. }
    destruct (lookup w (waiters s)) as [[]|]; try discriminate; auto.
  - (* LCloseCall *)
    destruct (lookup c (closers s)) eqn:Ec; try discriminate. injection Hs as <-.
    assert (Hk : NoDup (map fst (closers s ++ [(c, (CWaiting, o))]))).
    { rewrite map_app. cbn. apply NoDup_app_snoc; auto. now apply lookup_none_notin. }
    assert (Hr : existsb plain_returned (closers s ++ [(c, (CWaiting, o))]) = true -> closed s = true).
    { rewrite existsb_app. cbn. rewrite orb_false_r. exact I7. }
    destruct (link s); split; cbn; auto.
  - (* LAbort *) injection Hs as <-. split; cbn; auto.
  - (* LLost *) destruct (link s); try discriminate; injection Hs as <-; split; cbn; auto.
  - (* LLoopEnd *)
    match type of Hs with (if ?b then _ else _) = _ => destruct b eqn:Eb end; try discriminate. injection Hs as <-.
    assert (Hl : lp s <> TDone) by (destruct (lp s); discriminate).
    assert (H0 : hook s = 0) by (rewrite I1; destruct (lp s); auto; congruence).
    split; cbn; auto; try (now rewrite H0); try (intros _; apply existsb_map_cancel); try discriminate.
    intros E. destruct (I5 E) as [E' _]. congruence.
  - (* LGroupCancel *)
    destruct (grp s) eqn:Eg; try discriminate.
    match type of Hs with (if ?b then _ else _) = _ => destruct b eqn:Eb end; try discriminate. injection Hs as <-.
    split; cbn; auto; try discriminate; try (intros _; apply forallb_map_request);
      try (rewrite I1; now destruct (lp s)); try (intros _; now destruct (lp s));
      try (rewrite I6; split; discriminate); try (now rewrite keys_map_request).
  - (* LCancelReq *)
    destruct (lookup h (handlers s)) as [[[] r]|] eqn:Eh; try discriminate; injection Hs as <-; [|split; auto].
    split; cbn; auto; try (now rewrite keys_update); try (intros Hg; apply forallb_update; auto; fail).
    intros Hg. destruct (I5 Hg) as [E1 E2]. split; auto. specialize (I3 ltac:(congruence)).
    apply lookup_In in Eh. rewrite forallb_forall in I3. specialize (I3 _ Eh). discriminate.
  - (* LHandlerDone *)
    assert (Hres : lookup h (handlers s) <> None -> forall s0,
              Some (set_handlers s (update h (TDone, r) (handlers s))) = Some s0 -> LInv s0).
    { intros Hn s0 E. injection E as <-.
      split; cbn; auto; try (now rewrite keys_update); try (intros Hg; apply forallb_update; auto; fail).
      intros Hg. destruct (I5 Hg) as [E1 E2]. split; auto. apply forallb_update; auto. }
    destruct (lookup h (handlers s)) as [[[] r0]|] eqn:Eh; try discriminate; apply Hres; auto; congruence.
  - (* LGroupExit *)
    assert (Hnr : forallb handler_done (handlers s) = true -> forallb not_running (handlers s) = true).
    { intros Hf. rewrite forallb_forall in *. intros [h [st r]] Hin. specialize (Hf _ Hin). now destruct st. }
    destruct (grp s) eqn:Eg; try discriminate; destruct (lp s) eqn:El; try discriminate;
      destruct (forallb handler_done (handlers s)) eqn:Ef; try discriminate; injection Hs as <-;
      split; cbn; rewrite ?El; auto; try (split; auto; fail); try discriminate.
  - (* LCloseReturn *)
    destruct (lookup c (closers s)) as [[st ow]|] eqn:Ec; try discriminate.
    assert (Hres : (closed s || match ow with
                                 | Some h => match lookup h (handlers s) with Some (TRun, _) => false | _ => true end
                                 | None => false end) = true ->
                   LInv (set_closers s (update c (CReturned, ow) (closers s)))).
    { intros Hb. split; cbn; auto; try (now rewrite keys_update).
      intros Hr. apply existsb_update_true in Hr as [Hr|Hr]; auto. unfold plain_returned in Hr. cbn in Hr.
      destruct ow; [discriminate|]. now rewrite orb_false_r in Hb. }
    destruct st; try discriminate;
      match type of Hs with (if ?b then _ else _) = _ => destruct b eqn:Eb end; try discriminate;
      injection Hs as <-; apply Hres; auto.
  - (* LForce *)
    destruct (lookup c (closers s)) as [[[] ow]|] eqn:Ec; try discriminate.
    destruct (closed s) eqn:Ecl; try discriminate. injection Hs as <-.
    split; cbn; rewrite ?Ecl; auto; try (now rewrite keys_update).
    intros Hr. apply existsb_update_true in Hr as [Hr|Hr]; auto.
Qed.

Lemma lrun_inv ls : forall s0 s, LInv s0 -> lrun s0 ls = Some s -> LInv s.
Proof.
  induction ls as [|l ls IH]; intros s0 s H0 E; cbn in E.
  - injection E as <-. exact H0.
  - destruct (lstep s0 l) eqn:El; [|discriminate]. eapply IH; [eapply lstep_inv; eauto|exact E].
Qed.

Theorem reachable_inv ls s : lrun linit ls = Some s -> LInv s.
Proof. apply lrun_inv, linv_init. Qed.

(* ---------- progress: once the link is lost, something internal can happen until all is clean ---------- *)
Lemma forallb_false_exists {A} (P : A -> bool) l : forallb P l = false -> exists x, In x l /\ P x = false.
Proof.
  induction l as [|a l IH]; cbn; [discriminate|]. destruct (P a) eqn:E; cbn.
  - intros H. destruct (IH H) as (x & Hin & Hx). exists x. auto.
  - intros _. exists a. auto.
Qed.

Theorem progress s : LInv s -> link s = Lost -> clean s = false ->
  exists l, internal s l = true /\ lstep s l <> None.
Proof.
  intros [I1 I2 I3 I4 I5 I6 I7 I8 I9] Hl Hc. destruct (lp s) eqn:El.
  - exists LLoopEnd. split; [reflexivity|]. cbn. rewrite El, Hl. discriminate.
  - exists LLoopEnd. split; [reflexivity|]. cbn. rewrite El. discriminate.
  - destruct (grp s) eqn:Eg.
    + exists LGroupCancel. split; [reflexivity|]. cbn. rewrite Eg, El. cbn. discriminate.
    + destruct (forallb handler_done (handlers s)) eqn:Ef.
      * exists LGroupExit. split; [reflexivity|]. cbn. rewrite Eg, El, Ef. discriminate.
      * apply forallb_false_exists in Ef as ([h [st r]] & Hin & Hd).
        assert (Hnr : not_running (h, (st, r)) = true).
        { specialize (I3 ltac:(discriminate)). rewrite forallb_forall in I3. now apply I3. }
        assert (st = TReq) by (destruct st; cbn in *; congruence). subst st.
        pose proof (In_lookup _ _ _ I8 Hin) as Hlk.
        exists (LHandlerDone h false). cbn. rewrite Hlk. split; [reflexivity|discriminate].
    + destruct (I5 eq_refl) as [_ Hd]. assert (Hcl : closed s = true) by now apply I6.
      assert (Hh : hook s = 1) by (rewrite I1; reflexivity).
      assert (Hw : existsb waiter_open (waiters s) = false) by (apply I2; lia).
      unfold clean in Hc. rewrite El, Eg, Hh, Hcl, Hd, Hw in Hc. cbn in Hc.
      apply negb_false_iff in Hc. apply existsb_exists in Hc as ([c [st ow]] & Hin & Ho).
      pose proof (In_lookup _ _ _ I9 Hin) as Hlk.
      exists (LCloseReturn c). split; [reflexivity|]. cbn. rewrite Hlk, Hcl. cbn.
      destruct st; cbn in Ho; try discriminate.
Qed.

(* quiescent and lost => clean *)
Theorem quiescent_clean s : LInv s -> link s = Lost ->
  (forall l, internal s l = true -> lstep s l = None) -> clean s = true.
Proof.
  intros Hi Hl Hq. destruct (clean s) eqn:Hc; [reflexivity|].
  destruct (progress s Hi Hl Hc) as (l & H1 & H2). now rewrite (Hq l H1) in H2.
Qed.

(* ---------- termination of the internal steps ---------- *)
Definition handler_open (x : N * (task_st * bool)) : bool := negb (handler_done x).
Definition lmeasure (s : life) : nat :=
  (match lp s with TDone => 0 | _ => 1 end) + (match grp s with GBody => 2 | GCancelling => 1 | GExited => 0 end) +
  length (filter handler_open (handlers s)) + length (filter closer_open (closers s)).

Lemma filter_update_lt {A} (P : N * A -> bool) k v v' l :
  lookup k l = Some v -> P (k, v) = true -> P (k, v') = false ->
  length (filter P (update k v' l)) < length (filter P l).
Proof.
  induction l as [|[x v0] l IH]; cbn; [discriminate|]. destruct (N.eqb_spec x k) as [->|Hne].
  - intros E Hp Hp'. injection E as ->. cbn. rewrite Hp, Hp'. cbn. lia.
  - intros E Hp Hp'. cbn. specialize (IH E Hp Hp'). destruct (P (x, v0)); cbn; lia.
Qed.
Lemma filter_open_request hs :
  length (filter handler_open (map request_cancel hs)) = length (filter handler_open hs).
Proof. induction hs as [|[h [st r]] hs IH]; cbn; [reflexivity|]. destruct st; cbn; rewrite IH; reflexivity. Qed.

Theorem internal_decreases s l s' : internal s l = true -> lstep s l = Some s' -> lmeasure s' < lmeasure s.
Proof.
  intros Hi Hs. destruct l as [h|w|w|w|c o| | | | |h|h r| |c|c]; try discriminate; cbn in Hs, Hi.
  - match type of Hs with (if ?b then _ else _) = _ => destruct b eqn:Eb end; try discriminate. injection Hs as <-.
    unfold lmeasure. cbn. destruct (lp s); try discriminate; lia.
  - destruct (grp s) eqn:Eg; try discriminate.
    match type of Hs with (if ?b then _ else _) = _ => destruct b eqn:Eb end; try discriminate. injection Hs as <-.
    unfold lmeasure. cbn. rewrite Eg, filter_open_request. destruct (lp s); lia.
  - destruct (lookup h (handlers s)) as [[[] r0]|] eqn:Eh; try discriminate. injection Hs as <-.
    unfold lmeasure. cbn.
    pose proof (filter_update_lt handler_open h (TReq, r0) (TDone, r) (handlers s) Eh eq_refl eq_refl). lia.
  - destruct (grp s) eqn:Eg; try discriminate; destruct (lp s) eqn:El; try discriminate;
      destruct (forallb handler_done (handlers s)); try discriminate; injection Hs as <-;
      unfold lmeasure; cbn; rewrite Eg, El; lia.
  - destruct (lookup c (closers s)) as [[st ow]|] eqn:Ec; try discriminate.
    assert (Hres : st <> CReturned -> lmeasure (set_closers s (update c (CReturned, ow) (closers s))) < lmeasure s).
    { intros Hst. unfold lmeasure. cbn.
      assert (Ho : closer_open (c, (st, ow)) = true) by (destruct st; auto; congruence).
      pose proof (filter_update_lt closer_open c (st, ow) (CReturned, ow) (closers s) Ec Ho eq_refl). lia. }
    destruct st; try discriminate;
      match type of Hs with (if ?b then _ else _) = _ => destruct b end; try discriminate;
      injection Hs as <-; apply Hres; discriminate.
Qed.

(* hence: from a reachable state whose link is lost, EVERY run of internal steps has at most
   lmeasure s steps, and it can always be continued until the state is clean *)
Fixpoint internal_run (s : life) (ls : list llabel) : option life :=
  match ls with
  | [] => Some s
  | l :: r => if internal s l then match lstep s l with Some s' => internal_run s' r | None => None end else None
  end.

Lemma link_lost_stays s l s' : lstep s l = Some s' -> link s = Lost -> link s' = Lost.
Proof.
  intros Hs Hl. destruct l as [h|w|w|w|c o| | | | |h|h r| |c|c]; cbn in Hs; rewrite ?Hl in Hs;
    repeat match type of Hs with
           | match ?x with _ => _ end = _ => destruct x eqn:?; try discriminate
           | (if ?b then _ else _) = _ => destruct b eqn:?; try discriminate
           end; try (injection Hs as <-; cbn; congruence); congruence.
Qed.

Theorem internal_runs_bounded ls : forall s s', internal_run s ls = Some s' -> length ls + lmeasure s' <= lmeasure s.
Proof.
  induction ls as [|l ls IH]; intros s s' H; cbn in H; [injection H as <-; cbn; lia|].
  destruct (internal s l) eqn:Ei; [|discriminate]. destruct (lstep s l) as [s1|] eqn:Es; [|discriminate].
  specialize (IH _ _ H). pose proof (internal_decreases _ _ _ Ei Es). cbn. lia.
Qed.

Theorem lost_leads_to_clean s : LInv s -> link s = Lost ->
  exists ls s', internal_run s ls = Some s' /\ clean s' = true.
Proof.
  remember (lmeasure s) as n eqn:En. revert s En.
  induction n as [n IH] using (well_founded_induction lt_wf). intros s En Hi Hl.
  destruct (clean s) eqn:Hc; [exists [], s; auto|].
  destruct (progress s Hi Hl Hc) as (l & H1 & H2). destruct (lstep s l) as [s1|] eqn:Es; [|congruence].
  pose proof (internal_decreases _ _ _ H1 Es) as Hlt.
  destruct (IH (lmeasure s1) ltac:(lia) s1 eq_refl (lstep_inv _ _ _ Hi Es) (link_lost_stays _ _ _ Es Hl))
    as (ls & s' & Hr & Hc').
  exists (l :: ls), s'. cbn. rewrite H1, Es. auto.
Qed.

(* ---------- the safety statements ---------- *)
Theorem hook_once ls s : lrun linit ls = Some s ->
  hook s <= 1 /\ (hook s = 1 <-> lp s = TDone).
Proof.
  intros H. destruct (reachable_inv _ _ H) as [I1 _ _ _ _ _ _ _ _]. rewrite I1.
  destruct (lp s); split; try lia; split; congruence.
Qed.

Theorem waiters_released ls s : lrun linit ls = Some s -> lp s = TDone ->
  forall w, lookup w (waiters s) <> Some WPend.
Proof.
  intros H Hd w Hw. destruct (reachable_inv _ _ H) as [I1 I2 _ _ _ _ _ _ _].
  assert (Hh : hook s <> 0) by (rewrite I1, Hd; discriminate).
  specialize (I2 Hh). apply lookup_In in Hw.
  assert (existsb waiter_open (waiters s) = true) by (apply existsb_exists; eexists; split; [exact Hw|reflexivity]).
  congruence.
Qed.

Theorem closed_means_no_task_left ls s : lrun linit ls = Some s -> closed s = true ->
  lp s = TDone /\ hook s = 1 /\ forall h st r, lookup h (handlers s) = Some (st, r) -> st = TDone.
Proof.
  intros H Hc. destruct (reachable_inv _ _ H) as [I1 _ _ _ I5 I6 _ _ _].
  apply I6 in Hc. destruct (I5 Hc) as [E1 E2]. split; [exact E1|]. split; [now rewrite I1, E1|].
  intros h st r Hl. apply lookup_In in Hl. rewrite forallb_forall in E2. specialize (E2 _ Hl).
  unfold handler_done in E2. cbn in E2. now destruct st.
Qed.

Theorem close_returns_after_closed ls s : lrun linit ls = Some s ->
  forall c, lookup c (closers s) = Some (CReturned, None) -> closed s = true.
Proof.
  intros H c Hc. destruct (reachable_inv _ _ H) as [_ _ _ _ _ _ I7 _ _]. apply I7.
  apply existsb_exists. exists (c, (CReturned, None)). split; [now apply lookup_In|reflexivity].
Qed.

(* close(force_after): while the graceful close has not finished, the deadline forces an abort *)
Theorem close_forces s c ow : lookup c (closers s) = Some (CWaiting, ow) -> closed s = false ->
  exists s', lstep s (LForce c) = Some s' /\ aborted s' = true /\
             lookup c (closers s') = Some (CForcing, ow).
Proof.
  intros Hc Hcl. cbn. rewrite Hc, Hcl. eexists. split; [reflexivity|]. split; [reflexivity|]. cbn.
  apply lookup_update_same. congruence.
Qed.
