(* C01: the statements translated from JSONRPCConnection._receive_response / _receive_response_batch do what the
   model's receive_response / receive_response_batch do (live future), and consume the late response to an abandoned
   request quietly. *)
From AV Require Import Base Utf8 Json Codec Conn Gen_jsonrpc ConnCode ConnProofs.
Local Open Scope Z_scope.

Lemma response_code_known : rknown 4 receive_response_code && rknown 4 receive_response_batch_code = true.
Proof. reflexivity. Qed.

(* ---------- a single response ---------- *)
Theorem generated_receive_response c v rid :
  receive_response_generated c v rid false = let '(o, c') := receive_response c v rid in RFinished o c'.
Proof.
  unfold receive_response_generated, receive_response, rout_unhashable.
  cbn -[has_key set_reqs remove_key classify_id Z.ltb]. unfold single_key.
  destruct (classify_id rid) as [z| |]; [|reflexivity|reflexivity].
  destruct (z <? 0) eqn:Ez; [reflexivity|].
  cbn -[has_key set_reqs remove_key]. unfold pop. cbn -[has_key set_reqs remove_key].
  destruct (has_key (KOne (Z.to_N z)) c) eqn:Eh; cbn -[has_key set_reqs remove_key]; [|reflexivity].
  destruct (is_exception v); reflexivity.
Qed.

(* the caller had given up (its future is finished) while the request was outstanding: the late response is consumed
   quietly - no exception, nothing completes - and the id is no longer outstanding; an id that is not outstanding is
   refused exactly as before *)
Theorem abandoned_response_consumed c v rid k :
  single_key rid = Some k -> has_key k c = true ->
  receive_response_generated c v rid true =
  RFinished (RItems [] None) (set_reqs c (remove_key k (reqs c)) (next_id c) (cproto c)).
Proof.
  intros Hk Hh. unfold receive_response_generated. cbn -[has_key set_reqs remove_key single_key].
  rewrite Hk. cbn -[has_key set_reqs remove_key]. rewrite ?Hh. cbn -[has_key set_reqs remove_key].
  unfold pop. cbn -[has_key set_reqs remove_key]. rewrite ?Hh. reflexivity.
Qed.

Theorem abandoned_unknown_refused c v rid :
  match single_key rid with Some k => has_key k c = false | None => True end ->
  receive_response_generated c v rid true = RFinished (RProtoErr INVALID_REQUEST None) c.
Proof.
  intros H. unfold receive_response_generated. cbn -[has_key set_reqs remove_key single_key].
  destruct (single_key rid) as [k|]; cbn -[has_key set_reqs remove_key]; rewrite ?H; reflexivity.
Qed.

(* ---------- a response batch ---------- *)
Lemma insert_sorted_length {A} k (x : A) l l' : insert_sorted k x l = Some l' -> length l' = S (length l).
Proof.
  revert l'. induction l as [|[k' v'] r IH]; cbn; intros l' H; [injection H as <-; reflexivity|].
  destruct (ord_lt k k') as [[|]|]; try discriminate.
  - injection H as <-. reflexivity.
  - destruct (insert_sorted k x r) as [r'|] eqn:E; [|discriminate]. injection H as <-. cbn. f_equal. now apply IH.
Qed.

Lemma sort_length (rs : list (json * respval)) acc l :
  fold_left (fun acc x => match acc, ord_of (fst x) with
                          | Some l, Some k => insert_sorted k x l
                          | _, _ => None
                          end) rs (Some acc) = Some l -> length l = (length acc + length rs)%nat.
Proof.
  revert acc. induction rs as [|x rs IH]; cbn [fold_left]; intros acc H.
  - injection H as <-. cbn. lia.
  - destruct (ord_of (fst x)) as [k|].
    + destruct (insert_sorted k x acc) as [acc'|] eqn:E.
      * rewrite (IH _ H), (insert_sorted_length _ _ _ _ E). cbn. lia.
      * exfalso. clear -H. induction rs as [|y rs IH']; cbn in H; [discriminate|]. destruct (ord_of (fst y)); auto.
    + exfalso. clear -H. induction rs as [|y rs IH']; cbn in H; [discriminate|]. destruct (ord_of (fst y)); auto.
Qed.

Lemma batch_responses_nonempty p payloads rs : payloads <> [] -> batch_responses p payloads = inl rs -> rs <> [].
Proof.
  destruct payloads as [|m r]; [congruence|]. intros _. cbn.
  destruct (process_response p m) as [[| |v rid|]| |]; try discriminate.
  destruct (batch_responses p r); [|discriminate]. intros H. injection H as <-. discriminate.
Qed.

(* (receive_message hands over the members of a non-empty array only: an empty one is refused before) *)
Theorem generated_receive_response_batch c p payloads : payloads <> [] ->
  receive_response_batch_generated c p payloads false =
  let '(o, c') := receive_response_batch c p payloads in RFinished o c'.
Proof.
  intros Hne. unfold receive_response_batch_generated, receive_response_batch.
  cbn -[has_key set_reqs remove_key batch_responses fold_left all_some map].
  destruct (batch_responses p payloads) as [rs|[code j]] eqn:Eb; [|reflexivity].
  cbn -[has_key set_reqs remove_key batch_responses fold_left all_some map].
  destruct (fold_left _ rs (Some [])) as [l|] eqn:Es; [|reflexivity].
  cbn -[has_key set_reqs remove_key batch_responses fold_left all_some map].
  assert (Hl : l <> []).
  { pose proof (sort_length rs [] l Es) as Hlen. pose proof (batch_responses_nonempty p payloads rs Hne Eb) as Hrs.
    destruct l; [|discriminate]. destruct rs; [congruence|]. cbn in Hlen. lia. }
  destruct l as [|x l]; [congruence|].
  cbn -[has_key set_reqs remove_key batch_responses fold_left all_some map].
  destruct (all_some _) as [ns|] eqn:Ea; cbn -[has_key set_reqs remove_key batch_responses fold_left all_some map]; [|reflexivity].
  destruct (has_key (KMany ns) c) eqn:Eh; cbn -[has_key set_reqs remove_key batch_responses fold_left all_some map]; [|reflexivity].
  unfold pop. cbn -[has_key set_reqs remove_key batch_responses fold_left all_some map]. rewrite ?Eh. reflexivity.
Qed.

(* ---------- the whole of receive_message ---------- *)
Lemma process_request_not_batch p m l : process_request p m <> MItem (IBatch l).
Proof.
  unfold process_request. destruct (message_id p m false); [|discriminate]. destruct (validate p m); [discriminate|].
  destruct (request_args p m); [|discriminate]. destruct (getn k_method m); try discriminate.
  destruct (is_null j); discriminate.
Qed.

Lemma process_response_not_batch p m l : process_response p m <> MItem (IBatch l).
Proof.
  unfold process_response. destruct (message_id p m true); [|discriminate]. destruct (validate p m); [discriminate|].
  destruct (response_value p m); discriminate.
Qed.

Lemma batch_nonempty p m l : payload_to_item p m = MItem (IBatch l) -> l <> [].
Proof.
  unfold payload_to_item. destruct m as [| | | | |a|o]; try discriminate.
  - destruct (allow_batches p); [|discriminate]. destruct a; [discriminate|]. intros H. injection H as <-. discriminate.
  - destruct (has k_method (JObj o)); intros H; exfalso; [eapply process_request_not_batch|eapply process_response_not_batch]; exact H.
Qed.

(* with the response paths taken from the source, receive_message is the model's receive_message - for every
   connection state and every byte string *)
Theorem receive_message_from_source c msg : receive_message_src c msg = receive_message c msg.
Proof.
  unfold receive_message_src, receive_message. destruct (message_to_payload msg) as [m|f]; [|reflexivity].
  cbv zeta. set (p := match cproto c with Some p => p | None => detect_protocol m end).
  set (c1 := set_reqs c (reqs c) (next_id c) (Some p)).
  destruct (payload_to_item p m) as [[meth args rid|meth args|v rid|payloads]|code rid|code rid] eqn:Ep; try reflexivity.
  - rewrite generated_receive_response. now destruct (receive_response c1 (inl v) rid).
  - destruct (forallb is_response_payload payloads); [|reflexivity].
    rewrite (generated_receive_response_batch c1 p payloads (batch_nonempty _ _ _ Ep)).
    now destruct (receive_response_batch c1 p payloads).
  - rewrite generated_receive_response. now destruct (receive_response c1 (inr code) rid).
Qed.

(* ================= the reply side ================= *)
Lemma reply_code_known : bknown 4 item_send_result_code && bknown 4 send_result_code = true.
Proof. reflexivity. Qed.

(* the closure a request of a batch answers through: the new accumulator (parts, size) and the batch message once every
   member has its result are the model's batch_send_result - for every accumulator, limit, id and result *)
Theorem generated_batch_send_result c p ctx rid v :
  match batch_send_result_generated c p ctx rid v with
  | BReturned r msg =>
      batch_send_result c p ctx rid v = ({| parts := b_parts r; count := count ctx; bsize := b_size r |}, msg)
  | _ => False
  end.
Proof.
  unfold batch_send_result_generated, batch_send_result.
  cbn -[encode_payload respval_payload oversized_reply batch_text N.ltb N.add N.of_nat Nat.eqb length].
  set (part := encode_payload (respval_payload p v rid)).
  rewrite (Bool.andb_comm (0 <? max_response_size c)%N).
  destruct ((max_response_size c <? bsize ctx + (N.of_nat (length part) + 2))%N) eqn:E1;
    replace (bsize ctx + N.of_nat (length part) + 2)%N with (bsize ctx + (N.of_nat (length part) + 2))%N by lia; rewrite E1;
    cbn -[encode_payload respval_payload oversized_reply batch_text N.ltb N.add N.of_nat Nat.eqb length].
  - destruct (0 <? max_response_size c)%N;
      cbn -[encode_payload respval_payload oversized_reply batch_text N.ltb N.add N.of_nat Nat.eqb length];
      match goal with |- context [Nat.eqb ?a ?b] => destruct (Nat.eqb a b) end; reflexivity.
  - match goal with |- context [Nat.eqb ?a ?b] => destruct (Nat.eqb a b) end; reflexivity.
Qed.

Theorem generated_send_result c p rid v :
  match send_result_generated c p rid v with
  | BReturned _ msg => msg = Some (send_result c p rid v)
  | _ => False
  end.
Proof.
  unfold send_result_generated, send_result.
  cbn -[encode_payload respval_payload oversized_reply N.ltb N.of_nat length].
  set (m := encode_payload (respval_payload p v rid)).
  rewrite (Bool.andb_comm (0 <? max_response_size c)%N).
  destruct ((max_response_size c <? N.of_nat (length m))%N), (0 <? max_response_size c)%N; reflexivity.
Qed.

(* ================= sending ================= *)
Lemma send_code_known : qknown send_request_code && qknown send_batch_code = true.
Proof. reflexivity. Qed.

(* ids are taken first, then the message is encoded - which may refuse -, and only then is the awaitable registered:
   a refused send consumes its ids and leaves nothing outstanding *)
Theorem generated_send_request c meth args :
  send_request_generated c meth args = let '(m, c') := send_request c meth args in QFinished m c'.
Proof.
  unfold send_request_generated, send_request, effective, set_reqs. cbn -[request_payload encode_payload].
  destruct (request_payload _ meth args (JInt (Z.of_N (next_id c)))); reflexivity.
Qed.

Theorem generated_send_batch c ms :
  send_batch_generated c ms = let '(m, c') := send_batch c ms in QFinished m c'.
Proof.
  unfold send_batch_generated, send_batch, effective, set_reqs. cbn -[assign_ids batch_message].
  destruct (assign_ids ms (next_id c)) as [[ps ids] n']. cbn -[batch_message].
  destruct (batch_message _ ps); [|reflexivity]. cbn. destruct ids; reflexivity.
Qed.

(* ================= the dispatcher ================= *)
Lemma receive_message_code_known : mknown 4 receive_message_code = true.
Proof. reflexivity. Qed.

Local Opaque payload_to_item message_to_payload request_batch detect_protocol err_reply batch_text
  receive_response_generated receive_response_batch_generated forallb dfail_code.

(* receive_message as the source has it - detection on the first message, decoding, the ProtocolError that belongs to a
   response, the dispatch on the kind of item, the test that tells a response batch from a request batch - run over the
   translated response paths is receive_message_src, hence (receive_message_from_source) the model's receive_message *)
Theorem generated_receive_message c msg : receive_message_generated c msg = MFinished (receive_message_src c msg).
Proof.
  unfold receive_message_generated, receive_message_src, parse_failure.
  destruct c as [cp ni rq mx]. destruct cp as [p0|]; cbn.
  - destruct (message_to_payload msg) as [m|fl]; [|reflexivity].
    unfold effective, set_reqs; cbn.
    destruct (payload_to_item p0 m) as [[meth args rid|meth args|v rid|l]|code rid|code rid]; cbn; try reflexivity.
    destruct (forallb is_response_payload l); cbn; [reflexivity|].
    destruct (request_batch p0 l [] [] 0) as [[items ps] cnt]. reflexivity.
  - destruct (message_to_payload msg) as [m|fl]; [|reflexivity].
    cbn. unfold effective, set_reqs; cbn.
    destruct (payload_to_item (detect_protocol m) m) as [[meth args rid|meth args|v rid|l]|code rid|code rid]; cbn; try reflexivity.
    destruct (forallb is_response_payload l); cbn; [reflexivity|].
    destruct (request_batch (detect_protocol m) l [] [] 0) as [[items ps] cnt]. reflexivity.
Qed.

Theorem generated_receive_message_is_model c msg : receive_message_generated c msg = MFinished (receive_message c msg).
Proof. rewrite generated_receive_message. f_equal. apply receive_message_from_source. Qed.

(* the run of the translated dispatcher never ends in an escaping exception *)
Theorem translated_receive_total c msg :
  exists o c', receive_message_generated c msg = MFinished (o, c') /\ o <> REscape.
Proof.
  rewrite generated_receive_message_is_model. destruct (receive_message c msg) as [o c'] eqn:E.
  exists o, c'. split; [reflexivity|]. intros H. apply (receive_total c msg). now rewrite E.
Qed.
