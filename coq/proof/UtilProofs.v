(* Proofs for C18: each regenerated regex accepts exactly the language of its specification
   automaton (verified bisimulation check), and each automaton accepts exactly the strings of
   the English definition. *)
From AV Require Import Base Utf8 Json Rx Gen_util Util UtilSpec.
Local Open Scope N_scope.

Lemma lq_eqb_eq a b : lq_eqb a b = true -> a = b.
Proof.
  destruct a, b; cbn; try discriminate; auto. intros H. apply andb_true_iff in H as [H1 H2].
  apply Nat.eqb_eq in H1. apply eqb_prop in H2. now subst.
Qed.
Lemma nq_eqb_eq a b : nq_eqb a b = true -> a = b.
Proof. destruct a, b; cbn; try discriminate; auto. Qed.
Lemma pq_eqb_eq a b : pq_eqb a b = true -> a = b.
Proof. destruct a, b; cbn; try discriminate; auto. Qed.

(* the automata's transitions depend on a character only through the listed classes *)
Lemma lstep_same q c c' : same_on lcls c c' -> lstep q c = lstep q c'.
Proof.
  intros H. assert (H1 := H C_alnum_ (or_introl eq_refl)). assert (H2 := H C_hyphen (or_intror (or_introl eq_refl))).
  destruct q; cbn [lstep]; rewrite ?H1, ?H2; reflexivity.
Qed.
Lemma nstep_same q c c' : same_on ncls c c' -> nstep q c = nstep q c'.
Proof. intros H. assert (H1 := H C_digit (or_introl eq_refl)). destruct q; cbn [nstep]; rewrite ?H1; reflexivity. Qed.
Lemma pstep_same q c c' : same_on pcls c c' -> pstep q c = pstep q c'.
Proof.
  intros H. assert (H1 := H C_letter (or_introl eq_refl)). assert (H2 := H C_proto_rest (or_intror (or_introl eq_refl))).
  destruct q; cbn [pstep]; rewrite ?H1, ?H2; reflexivity.
Qed.

(* ---------- the verified bisimulation checks (re-run against the regenerated regexes) ---------- *)
Definition the_R {Q} (o : option (list (rx * Q))) : list (rx * Q) := match o with Some r => r | None => [] end.

Lemma label_check : check_bisim lq lq_eqb lstep lacc lcls (the_R label_R) = true /\ In (label_rx, LStart) (the_R label_R).
Proof.
  split; [vm_compute; reflexivity|]. apply (mem_pair_In lq lq_eqb lq_eqb_eq). vm_compute. reflexivity.
Qed.
Lemma numeric_check : check_bisim nq nq_eqb nstep nacc ncls (the_R numeric_R) = true /\ In (numeric_rx, NStart) (the_R numeric_R).
Proof.
  split; [vm_compute; reflexivity|]. apply (mem_pair_In nq nq_eqb nq_eqb_eq). vm_compute. reflexivity.
Qed.
Lemma protocol_check : check_bisim pq pq_eqb pstep pacc pcls (the_R protocol_R) = true /\ In (protocol_rx, PStart) (the_R protocol_R).
Proof.
  split; [vm_compute; reflexivity|]. apply (mem_pair_In pq pq_eqb pq_eqb_eq). vm_compute. reflexivity.
Qed.

Theorem label_regex_automaton s : matchb label_rx s = runq lq lstep lacc LStart s.
Proof.
  destruct label_check as [H1 H2].
  exact (check_bisim_sound lq lq_eqb lq_eqb_eq lstep lacc lcls lstep_same _ H1 s _ _ H2).
Qed.
Theorem numeric_regex_automaton s : matchb numeric_rx s = runq nq nstep nacc NStart s.
Proof.
  destruct numeric_check as [H1 H2].
  exact (check_bisim_sound nq nq_eqb nq_eqb_eq nstep nacc ncls nstep_same _ H1 s _ _ H2).
Qed.
Theorem protocol_regex_automaton s : matchb protocol_rx s = runq pq pstep pacc PStart s.
Proof.
  destruct protocol_check as [H1 H2].
  exact (check_bisim_sound pq pq_eqb pq_eqb_eq pstep pacc pcls pstep_same _ H1 s _ _ H2).
Qed.

(* ---------- the automata mean the English definitions ---------- *)
From Coq Require Import ZifyBool ZifyN.

Lemma alnum_not_hyphen c : in_cls C_alnum_ c = true -> in_cls C_hyphen c = false.
Proof. unfold in_cls, C_alnum_, C_hyphen, in_rng. cbn. lia. Qed.

Lemma run_ldead s : runq lq lstep lacc LDead s = false.
Proof. unfold runq. induction s as [|c s IH]; cbn; auto. Qed.

Definition lasth (h : bool) (s : text) : bool :=
  match s with [] => h | _ => in_cls C_hyphen (last s 0) end.
Definition in_label_chars (c : N) : bool := in_cls C_alnum_ c || in_cls C_hyphen c.

Lemma lasth_cons h c r : lasth h (c :: r) = lasth (in_cls C_hyphen c) r.
Proof. destruct r; reflexivity. Qed.

Lemma run_lin : forall s n h, (n <= 63)%nat ->
  runq lq lstep lacc (LIn n h) s =
  (n + length s <=? 63)%nat && forallb in_label_chars s && negb (lasth h s).
Proof.
  induction s as [|c r IH]; intros n h Hn.
  - unfold runq. cbn [fold_left lacc length forallb lasth]. rewrite Nat.add_0_r.
    assert (E : (n <=? 63)%nat = true) by (apply Nat.leb_le; lia). rewrite E. destruct h; reflexivity.
  - unfold runq. cbn [fold_left]. fold (runq lq lstep lacc (lstep (LIn n h) c) r).
    cbn [lstep length forallb]. rewrite lasth_cons. unfold in_label_chars at 1.
    destruct (63 <=? n)%nat eqn:E63.
    + apply Nat.leb_le in E63. rewrite run_ldead.
      assert (E : (n + S (length r) <=? 63)%nat = false) by (apply Nat.leb_gt; lia). now rewrite E.
    + apply Nat.leb_gt in E63.
      assert (Eq : (n + S (length r) <=? 63)%nat = (S n + length r <=? 63)%nat) by (f_equal; lia).
      destruct (in_cls C_alnum_ c) eqn:Ea.
      * rewrite (alnum_not_hyphen c Ea). rewrite IH by lia. rewrite Eq. cbn [orb andb]. reflexivity.
      * destruct (in_cls C_hyphen c) eqn:Eh.
        -- rewrite IH by lia. rewrite Eq. cbn [orb andb]. reflexivity.
        -- rewrite run_ldead. cbn [orb andb]. now rewrite andb_false_r.
Qed.

Theorem label_automaton_meaning s : runq lq lstep lacc LStart s = label_ok s.
Proof.
  destruct s as [|c r]; [reflexivity|].
  unfold runq. cbn [fold_left]. fold (runq lq lstep lacc (lstep LStart c) r). cbn [lstep].
  unfold label_ok. cbn [length hd forallb]. fold (in_label_chars c).
  destruct (in_cls C_alnum_ c) eqn:Ea.
  - rewrite run_lin by lia. pose proof (alnum_not_hyphen c Ea) as Eh.
    unfold in_label_chars at 2. rewrite Ea, Eh. cbn [orb andb negb].
    replace (1 + length r <=? 63)%nat with (S (length r) <=? 63)%nat by reflexivity.
    assert (El : lasth false r = in_cls C_hyphen (last (c :: r) 0)).
    { destruct r as [|x r']; [cbn [lasth last]; now rewrite Eh|reflexivity]. }
    rewrite El. cbn [Nat.leb]. rewrite andb_true_r. reflexivity.
  - rewrite run_ldead. unfold in_label_chars. rewrite Ea. cbn [orb].
    destruct (in_cls C_hyphen c) eqn:Eh; cbn [negb andb].
    + now rewrite andb_false_r.
    + now rewrite !andb_false_r.
Qed.

(* all-digit labels and protocol names *)
Lemma run_ndead s : runq nq nstep nacc NDead s = false.
Proof. unfold runq. induction s; cbn; auto. Qed.
Lemma run_ndigits s : runq nq nstep nacc NDigits s = forallb (in_cls C_digit) s.
Proof.
  induction s as [|c r IH]; [reflexivity|]. unfold runq in *. cbn [fold_left nstep forallb].
  destruct (in_cls C_digit c); [exact IH|apply run_ndead].
Qed.
Theorem numeric_automaton_meaning s : runq nq nstep nacc NStart s = numeric_ok s.
Proof.
  destruct s as [|c r]; [reflexivity|]. unfold runq, numeric_ok. cbn [fold_left nstep forallb length Nat.leb andb].
  destruct (in_cls C_digit c); [apply run_ndigits|apply run_ndead].
Qed.

Lemma run_pdead s : runq pq pstep pacc PDead s = false.
Proof. unfold runq. induction s; cbn; auto. Qed.
Lemma run_pmany s : runq pq pstep pacc PMany s = forallb (in_cls C_proto_rest) s.
Proof.
  induction s as [|c r IH]; [reflexivity|]. unfold runq in *. cbn [fold_left pstep forallb].
  destruct (in_cls C_proto_rest c); [exact IH|apply run_pdead].
Qed.
Theorem protocol_automaton_meaning s : runq pq pstep pacc PStart s = protocol_ok s.
Proof.
  destruct s as [|c r]; [reflexivity|]. unfold runq, protocol_ok. cbn [fold_left pstep].
  destruct (in_cls C_letter c); cbn [andb]; [|apply run_pdead].
  destruct r as [|d r']; [reflexivity|]. cbn [fold_left pstep length Nat.leb forallb andb].
  destruct (in_cls C_proto_rest d); [apply run_pmany|apply run_pdead].
Qed.

(* ---------- the validators are exact ---------- *)
Theorem label_regex_exact s : matchb label_rx s = label_ok s.
Proof. now rewrite label_regex_automaton, label_automaton_meaning. Qed.
Theorem numeric_regex_exact s : matchb numeric_rx s = numeric_ok s.
Proof. now rewrite numeric_regex_automaton, numeric_automaton_meaning. Qed.
Theorem protocol_regex_exact s : matchb protocol_rx s = protocol_ok s.
Proof. now rewrite protocol_regex_automaton, protocol_automaton_meaning. Qed.

Theorem hostname_exact s : is_valid_hostname s = hostname_ok s.
Proof.
  unfold is_valid_hostname, hostname_ok. set (t := strip_dot s).
  destruct (Nat.eqb_spec (length t) 0) as [E0|E0].
  - rewrite E0. reflexivity.
  - cbn [orb].
    assert (E1 : (1 <=? length t)%nat = true) by (apply Nat.leb_le; lia). rewrite E1. cbn [andb].
    destruct (Nat.ltb_spec 253 (length t)) as [H|H].
    + assert (E : (length t <=? 253)%nat = false) by (apply Nat.leb_gt; lia). now rewrite E.
    + assert (E : (length t <=? 253)%nat = true) by (apply Nat.leb_le; lia). rewrite E. cbn [andb].
      rewrite numeric_regex_exact. destruct (numeric_ok (last (split_on 46 t []) [])); [reflexivity|]. cbn [negb andb].
      induction (split_on 46 t []) as [|x l IHl]; cbn [forallb]; auto. now rewrite label_regex_exact, IHl.
Qed.

Theorem protocol_exact s :
  validate_protocol s = if protocol_ok s then Some (map lower s) else None.
Proof. unfold validate_protocol. now rewrite protocol_regex_exact. Qed.

(* ---------- ports ---------- *)
Theorem port_range p z : validate_port p = Some z -> (1 <= z <= 65535)%Z.
Proof.
  unfold validate_port, in_port_range. destruct p as [z0|s].
  - destruct ((0 <? z0)%Z && (z0 <=? 65535)%Z) eqn:E; [|discriminate]. intros H; injection H as <-. lia.
  - destruct s as [|c r]; [discriminate|]. destruct (forallb isdigit (c :: r)); [|discriminate].
    destruct (int_of_digits (c :: r)) as [v|]; [|discriminate].
    destruct ((0 <? v)%Z && (v <=? 65535)%Z) eqn:E; [|discriminate]. intros H; injection H as <-. lia.
Qed.
Theorem port_int_exact z : validate_port (PInt z) = if ((1 <=? z)%Z && (z <=? 65535)%Z) then Some z else None.
Proof.
  unfold validate_port, in_port_range.
  replace (0 <? z)%Z with (1 <=? z)%Z; [reflexivity|]. destruct (Z.leb_spec 1 z), (Z.ltb_spec 0 z); auto; lia.
Qed.

(* every port 1..65535 printed in decimal is read back (finite table checked by the kernel) *)
Definition ports_hi : list N := map N.of_nat (seq 0 256).
Definition port_row_ok (hi : N) : bool :=
  forallb (fun lo => let p := hi * 256 + lo in
                     if p =? 0 then true
                     else option_eqb Z.eqb (validate_port (PStr (print_nat p))) (Some (Z.of_N p))) ports_hi.
Lemma port_table : forallb port_row_ok ports_hi = true.
Proof. vm_compute. reflexivity. Qed.

Theorem port_text_roundtrip p : 1 <= p <= 65535 ->
  validate_port (PStr (print_nat p)) = Some (Z.of_N p).
Proof.
  intros Hp. pose proof port_table as T. rewrite forallb_forall in T.
  assert (Hhi : In (p / 256) ports_hi).
  { unfold ports_hi. apply in_map_iff. exists (N.to_nat (p / 256)). split; [lia|]. apply in_seq.
    assert (p / 256 < 256) by (apply N.div_lt_upper_bound; lia). lia. }
  specialize (T _ Hhi). unfold port_row_ok in T. rewrite forallb_forall in T.
  assert (Hlo : In (p mod 256) ports_hi).
  { unfold ports_hi. apply in_map_iff. exists (N.to_nat (p mod 256)). split; [lia|]. apply in_seq.
    assert (p mod 256 < 256) by (apply N.mod_lt; lia). lia. }
  specialize (T _ Hlo). cbn zeta in T.
  assert (E : p / 256 * 256 + p mod 256 = p) by (rewrite N.mul_comm; symmetry; apply N.div_mod; lia).
  rewrite E in T. destruct (p =? 0) eqn:E0; [apply N.eqb_eq in E0; lia|].
  destruct (validate_port (PStr (print_nat p))) as [z|]; cbn in T; [|discriminate].
  apply Z.eqb_eq in T. now subst.
Qed.

(* ---------- _split_address ---------- *)
Lemma find_char_app_none c s t i : find_char c s i = None -> find_char c (s ++ c :: t) i = Some (i + length s)%nat.
Proof.
  revert i. induction s as [|x s IH]; intros i H; cbn in *.
  - rewrite N.eqb_refl. f_equal. lia.
  - destruct (x =? c); [discriminate|]. rewrite IH by auto. f_equal. lia.
Qed.

(* host:port with a host text that has no colon and does not start with '[' *)
Theorem split_plain s p : hd 0 s <> 91 -> find_char 58 s 0 = None ->
  split_address (s ++ 58 :: p) = (s, p).
Proof.
  intros Hh Hc. unfold split_address. rewrite (find_char_app_none 58 s p 0 Hc). cbn [Nat.add].
  rewrite firstn_app_exact.
  replace (skipn (S (length s)) (s ++ 58 :: p)) with p.
  2:{ change (S (length s)) with (1 + length s)%nat. rewrite <- skipn_skipn, skipn_app_exact. reflexivity. }
  destruct s as [|x s']; [reflexivity|]. cbn [app]. cbn in Hh.
  destruct x; try reflexivity. destruct p0; try reflexivity.
  repeat (destruct p0; try reflexivity). contradiction.
Qed.

Lemma rfind_app_last c a t i acc :
  find_char c t 0 = None -> rfind_char c (a ++ c :: t) i acc = Some (i + length a)%nat.
Proof.
  revert i acc. induction a as [|x a IH]; intros i acc Ht; cbn [app rfind_char].
  - rewrite N.eqb_refl. cbn [length]. rewrite Nat.add_0_r.
    assert (G : forall t j ac, find_char c t 0 = None -> rfind_char c t j ac = ac).
    { clear. intros t. assert (G' : forall j k ac, find_char c t k = None -> rfind_char c t j ac = ac).
      { induction t as [|y t IHt]; intros j k ac H; cbn in *; auto. destruct (y =? c); [discriminate|]. eapply IHt; eauto. }
      intros j ac H. eapply G'; eauto. }
    now apply G.
  - rewrite IH by auto. f_equal. cbn [length]. lia.
Qed.

(* [host]:port : with the closing bracket taken from the right the bracketed text may contain
   anything - colons, and ']' itself (IPv6 scope ids) - as long as the port text has no ']' *)
Theorem split_bracket a p : split_uses_rfind = true -> find_char 93 p 0 = None ->
  split_address (91 :: a ++ 93 :: 58 :: p) = (a, p).
Proof.
  intros Hr Hp. unfold split_address, bracket_end. rewrite Hr.
  assert (Hp' : find_char 93 (58 :: p) 0 = None).
  { cbn. clear - Hp. assert (G : forall t j k, find_char 93 t j = None -> find_char 93 t k = None).
    { induction t as [|y t IH]; intros j k H; cbn in *; auto. destruct (y =? 93); [discriminate|]. eapply IH; eauto. }
    eapply G; eauto. }
  change (91 :: a ++ 93 :: 58 :: p) with ((91 :: a) ++ 93 :: 58 :: p).
  rewrite (rfind_app_last 93 (91 :: a) (58 :: p) 0 None Hp'). cbn [Nat.add length].
  assert (El : Nat.eqb (length ((91 :: a) ++ 93 :: 58 :: p)) (S (S (length a))) = false).
  { apply Nat.eqb_neq. rewrite app_length. cbn. lia. }
  rewrite El.
  assert (En : nth (S (S (length a))) ((91 :: a) ++ 93 :: 58 :: p) 0 = 58).
  { cbn [app nth]. rewrite app_nth2 by lia. replace (S (length a) - length a)%nat with 1%nat by lia. reflexivity. }
  rewrite En, N.eqb_refl. f_equal.
  - cbn [app skipn]. replace (S (length a) - 1)%nat with (length a) by lia. apply firstn_app_exact.
  - replace (S (length a + 2)) with (2 + length (91%N :: a))%nat by (cbn [length]; lia).
    rewrite <- (skipn_skipn 2 (length (91%N :: a))), skipn_app_exact. reflexivity.
Qed.
