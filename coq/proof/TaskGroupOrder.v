(* C10, part 1: next_done / join consume every non-daemon member exactly once, in the order in
   which the members finished; `completed` is the first consumed member that counts. *)
From Coq Require Permutation.
From AV Require Import Base Gen_curio TaskGroup TaskGroupProofs.

(* the labels of the traces considered: members are spawned running (TaskGroup.spawn); adding an
   already finished task (add_task) enters the queue at the time of the addition *)
Definition fresh_label (l : label) : bool :=
  match l with LSpawn _ _ (Some _) => false | _ => true end.

Definition od_h (h : handle) : list N := match h with HCb (OnDone t) => [t] | _ => [] end.
Definition od_c (c : cb) : list N := match c with OnDone t => [t] | _ => [] end.
Definition ondone_q (q : list handle) : list N := flat_map od_h q.
Definition ondone_cbs (l : list cb) : list N := flat_map od_c l.

Lemma ondone_q_app a b : ondone_q (a ++ b) = ondone_q a ++ ondone_q b.
Proof. apply flat_map_app. Qed.
Lemma ondone_cbs_app a b : ondone_cbs (a ++ b) = ondone_cbs a ++ ondone_cbs b.
Proof. apply flat_map_app. Qed.
Lemma ondone_q_map l : ondone_q (map HCb l) = ondone_cbs l.
Proof. induction l as [|c l IH]; cbn; [reflexivity|]. unfold ondone_q, ondone_cbs in IH. rewrite IH. now destruct c. Qed.

Record Ord (g : tg) : Prop := {
  o_order : app_consumed g ++ consumed g ++ doneq g ++ ondone_q (queue g) = log_done g;
  o_nodup : NoDup (log_done g);
  o_log : forall t, In t (log_done g) <->
                    exists m, get t (members g) = Some m /\ m_daemon m = false /\ is_fin m = true;
  o_cbs : forall t m, get t (members g) = Some m -> is_fin m = false ->
                      ondone_cbs (m_cbs m) = if m_daemon m then [] else [t] }.

Lemma ord_same g g' : Ord g -> members g' = members g -> log_done g' = log_done g ->
  app_consumed g' ++ consumed g' ++ doneq g' ++ ondone_q (queue g') =
  app_consumed g ++ consumed g ++ doneq g ++ ondone_q (queue g) -> Ord g'.
Proof.
  intros [O1 O2 O3 O4] Hm Hl Ho. split.
  - now rewrite Ho, Hl.
  - now rewrite Hl.
  - intros t. rewrite Hl, Hm. apply O3.
  - intros t m. rewrite Hm. apply O4.
Qed.

Lemma ord_set g t m m' : get t (members g) = Some m -> m_daemon m' = m_daemon m -> is_fin m' = is_fin m ->
  ondone_cbs (m_cbs m') = ondone_cbs (m_cbs m) -> Ord g -> Ord (upd_members g (set t m' (members g))).
Proof.
  intros Em Hd Hf Hc [O1 O2 O3 O4]. split; cbn.
  - exact O1.
  - exact O2.
  - intros t0. rewrite O3. destruct (N.eqb_spec t t0) as [<-|Hne].
    + rewrite get_set_same. split.
      * intros (m0 & E & D & F). rewrite Em in E. injection E as <-. exists m'. rewrite Hd, Hf. auto.
      * intros (m0 & E & D & F). injection E as <-. exists m. rewrite <- Hd, <- Hf. auto.
    + now rewrite get_set_other.
  - intros t0 m0. destruct (N.eqb_spec t t0) as [<-|Hne].
    + rewrite get_set_same. intros E F. injection E as <-. rewrite Hc, Hd. apply O4; auto. now rewrite <- Hf.
    + rewrite get_set_other by auto. apply O4.
Qed.

Lemma cancel_member_ord g t : Ord g -> Ord (cancel_member g t).
Proof.
  intros H. unfold cancel_member. destruct (get t (members g)) as [m|] eqn:Em; [|exact H].
  destruct (m_status m) eqn:Es; try exact H. apply ord_set with m; auto. unfold is_fin. cbn. now rewrite Es.
Qed.

Lemma register_pop_ord g t : Ord g -> Ord (register_pop g t).
Proof.
  intros H. unfold register_pop. destruct (get t (members g)) as [m|] eqn:Em; [|exact H].
  destruct (m_status m) eqn:Es.
  1,2: apply ord_set with m; auto; [unfold is_fin; cbn; now rewrite Es|cbn; rewrite ondone_cbs_app; cbn; apply app_nil_r].
  apply (ord_same g); auto. cbn. rewrite ondone_q_app. cbn. now rewrite app_nil_r.
Qed.

Lemma cancel_tasks_ord g ord : Ord g -> Ord (cancel_tasks g ord).
Proof.
  intros H. unfold cancel_tasks.
  assert (F : forall (f : tg -> N -> tg), (forall g t, Ord g -> Ord (f g t)) -> forall l g, Ord g -> Ord (fold_left f l g)).
  { intros f Hf. induction l as [|t l IH]; intros g0 H0; cbn; auto. }
  apply F; [apply register_pop_ord|]. apply F; [apply cancel_member_ord|exact H].
Qed.

Lemma sem_release_ord g :
  members (sem_release g) = members g /\ log_done (sem_release g) = log_done g /\
  consumed (sem_release g) = consumed g /\ doneq (sem_release g) = doneq g /\
  ondone_q (queue (sem_release g)) = ondone_q (queue g).
Proof.
  unfold sem_release. cbn. destruct (pc g), (wake g); cbn; repeat split; auto.
  rewrite ondone_q_app. cbn. apply app_nil_r.
Qed.

Lemma sem_release_app g : app_consumed (sem_release g) = app_consumed g.
Proof. unfold sem_release. cbn. destruct (pc g), (wake g); reflexivity. Qed.

Lemma on_done_ord g t rest : Ord g -> queue g = HCb (OnDone t) :: rest -> Ord (on_done (upd_queue g rest) t).
Proof.
  intros [O1 O2 O3 O4] Hq.
  assert (Hin : In t (log_done g)).
  { rewrite <- O1, Hq. apply in_or_app. right. apply in_or_app. right. apply in_or_app. right. cbn. now left. }
  apply O3 in Hin as (m & Em & Hd & Hf).
  unfold on_done. cbn [members upd_queue]. rewrite Em, Hd.
  match goal with |- Ord (sem_release ?G) => destruct (sem_release_ord G) as (S1 & S2 & S3 & S4 & S5); pose proof (sem_release_app G) as S6 end.
  split.
  - rewrite S6, S3, S4, S5, S2. cbn. rewrite <- O1, Hq. cbn. now rewrite <- !app_assoc.
  - rewrite S2. exact O2.
  - intros t0. rewrite S2, S1. apply O3.
  - intros t0 m0. rewrite S1. apply O4.
Qed.

Lemma finish_member_ord g t o : Ord g -> Ord (finish_member g t o).
Proof.
  intros H. unfold finish_member. destruct (get t (members g)) as [m|] eqn:Em; [|exact H].
  destruct (is_fin m) eqn:Efin.
  { unfold is_fin in Efin. destruct (m_status m); try discriminate. exact H. }
  destruct H as [O1 O2 O3 O4].
  assert (Hnot : ~ In t (log_done g)).
  { intros Hin. apply O3 in Hin as (m0 & E & _ & F). rewrite Em in E. injection E as <-. congruence. }
  pose proof (O4 _ _ Em Efin) as Hcbs.
  set (m1 := {| m_daemon := m_daemon m; m_status := Fin o; m_cbs := [] |}).
  assert (Hget : forall t0, get t0 (set t m1 (members g)) = if N.eqb t t0 then Some m1 else get t0 (members g)).
  { intros t0. destruct (N.eqb_spec t t0) as [<-|Hne]; [apply get_set_same|now apply get_set_other]. }
  assert (Hres : Ord (if m_daemon m then upd_queue (upd_members g (set t m1 (members g))) (queue g ++ map HCb (m_cbs m))
            else let g2 := upd_queue (upd_members g (set t m1 (members g))) (queue g ++ map HCb (m_cbs m)) in
            {| members := members g2; pending := pending g2; daemons := daemons g2; doneq := doneq g2;
               semv := semv g2; joined := joined g2; completed := completed g2; pol := pol g2;
               mode := mode g2; pc := pc g2; entered := entered g2; granted := granted g2; wake := wake g2;
               must_cancel := must_cancel g2; jexc := jexc g2; unfinished := unfinished g2;
               queue := queue g2; log_done := log_done g2 ++ [t]; consumed := consumed g2;
               app_consumed := app_consumed g2 |})).
  { destruct (m_daemon m) eqn:Ed; split; cbn.
    - rewrite ondone_q_app, ondone_q_map, Hcbs, app_nil_r. exact O1.
    - exact O2.
    - intros t0. rewrite O3, Hget. destruct (N.eqb_spec t t0) as [<-|Hne]; [|reflexivity].
      split; intros (m0 & E & D & F).
      + rewrite Em in E. injection E as <-. congruence.
      + injection E as <-. cbn in D. congruence.
    - intros t0 m0. rewrite Hget. destruct (N.eqb_spec t t0) as [<-|Hne]; [|apply O4].
      intros E F. injection E as <-. discriminate.
    - rewrite ondone_q_app, ondone_q_map, Hcbs, <- O1. now rewrite !app_assoc.
    - apply NoDup_app_snoc; auto.
    - intros t0. rewrite in_app_iff, O3, Hget. destruct (N.eqb_spec t t0) as [<-|Hne].
      + split; [intros _; exists m1; auto|intros _; right; now left].
      + split; [intros [H|[H|[]]]; [exact H|contradiction]|intros H; now left].
    - intros t0 m0. rewrite Hget. destruct (N.eqb_spec t t0) as [<-|Hne]; [|apply O4].
      intros E F. injection E as <-. discriminate. }
  unfold is_fin in Efin. destruct (m_status m); try discriminate; exact Hres.
Qed.

Lemma add_task_ord g t d : Ord g -> Ord (fst (add_task g t d Run)).
Proof.
  intros H. unfold add_task. destruct (add_refused_after_join && joined g); [exact H|].
  destruct (get t (members g)) as [m0|] eqn:Em; [exact H|].
  destruct H as [O1 O2 O3 O4].
  assert (Hget : forall mm t0, get t0 (set t mm (members g)) = if N.eqb t t0 then Some mm else get t0 (members g)).
  { intros mm t0. destruct (N.eqb_spec t t0) as [<-|Hne]; [apply get_set_same|now apply get_set_other]. }
  destruct d; cbn [fst]; split; cbn; auto.
  - intros t0. rewrite O3, Hget. destruct (N.eqb_spec t t0) as [<-|Hne]; [|reflexivity].
    rewrite Em. split; intros (m1 & E & D & F); [discriminate|]. injection E as <-. discriminate.
  - intros t0 m1. rewrite Hget. destruct (N.eqb_spec t t0) as [<-|Hne]; [|apply O4].
    intros E F. now injection E as <-.
  - intros t0. rewrite O3. destruct (N.eqb_spec t t0) as [<-|Hne].
    + rewrite get_set_same, Em. split; intros (m1 & E & D & F); [discriminate|]. injection E as <-. discriminate.
    + now rewrite !get_set_other.
  - intros t0 m1. destruct (N.eqb_spec t t0) as [<-|Hne].
    + rewrite get_set_same. intros E F. now injection E as <-.
    + rewrite !get_set_other by auto. apply O4.
Qed.

Lemma consume_ord g t rest : doneq g = t :: rest -> Ord g -> Ord (consume g t rest).
Proof.
  intros Hd H. apply (ord_same g); auto. cbn. rewrite Hd. cbn. now rewrite <- app_assoc.
Qed.

Lemma joiner_step_ord g order : Ord g -> Ord (joiner_step g order).
Proof.
  apply joiner_step_pres2.
  - intros g0 p en gr wk mc je unf jd H _. apply (ord_same g0); auto.
  - intros g0 sv H. apply (ord_same g0); auto.
  - intros g0 t rest. apply consume_ord.
  - intros g0 ord. apply cancel_tasks_ord.
Qed.

Lemma step_ord g l : fresh_label l = true -> Ord g -> Ord (step g l).
Proof.
  intros Hl H. destruct l as [t d al|t o|t| | |h order|]; cbn [step].
  - destruct al; [discriminate|]. apply add_task_ord; exact H.
  - apply finish_member_ord; exact H.
  - apply cancel_member_ord; exact H.
  - destruct (pc g); try exact H; destruct (wake g); try exact H;
      apply (ord_same g); auto; cbn; rewrite ondone_q_app; cbn; now rewrite app_nil_r.
  - unfold cancel_joiner. destruct (pc g); try exact H; destruct (wake g); try exact H; apply (ord_same g); auto;
      cbn; rewrite ondone_q_app; cbn; now rewrite app_nil_r.
  - destruct (queue g) as [|h0 rest] eqn:Eq; [exact H|]. cbv zeta. destruct h0 as [[t|t]|].
    + cbn [run_cb]. apply on_done_ord; auto.
    + assert (H1 : Ord (upd_queue g rest)) by (apply (ord_same g); auto; cbn; now rewrite Eq).
      cbn [run_cb]. cbv zeta.
      repeat match goal with |- context [match ?x with _ => _ end] => destruct x end;
        apply (ord_same (upd_queue g rest)); auto; cbn; rewrite ?ondone_q_app; cbn; now rewrite ?app_nil_r.
    + apply joiner_step_ord. apply (ord_same g); auto. cbn. now rewrite Eq.
  - destruct (app_next_cases g) as [->|(t & rest & sv & _ & Ec & Ed & _ & ->)]; [exact H|].
    destruct H as [O1 O2 O3 O4]. split; cbn; auto. rewrite <- O1, Ec, Ed. cbn. now rewrite <- app_assoc.
Qed.

Theorem reachable_ord p m ls : forallb fresh_label ls = true -> Ord (run p m ls).
Proof.
  unfold run. assert (H0 : Ord (init p m)).
  { split; cbn; auto; [constructor|intros t; split; [intros []|intros (m0 & E & _); discriminate]|intros t m0 E; discriminate]. }
  revert H0. generalize (init p m). induction ls as [|l ls IH]; intros g Hg Hf; cbn [fold_left]; [exact Hg|].
  cbn in Hf. apply andb_true_iff in Hf as [Hf1 Hf2]. apply IH; auto. apply step_ord; auto.
Qed.

(* ---------- exactly once, for EVERY label sequence: also tasks that had already finished when they
   were added (constructor, add_task), which enter _done at the instant of the addition ---------- *)
Definition yielded (g : tg) : list N := app_consumed g ++ consumed g ++ doneq g ++ ondone_q (queue g).
Definition fin_member (g : tg) (t : N) : Prop :=
  exists m, get t (members g) = Some m /\ m_daemon m = false /\ is_fin m = true.

Record Once (g : tg) : Prop := {
  n_nodup : NoDup (yielded g);
  n_in : forall t, In t (yielded g) <-> fin_member g t;
  n_cbs : forall t m, get t (members g) = Some m -> is_fin m = false ->
                      ondone_cbs (m_cbs m) = if m_daemon m then [] else [t] }.

Lemma once_same g g' : Once g -> members g' = members g -> yielded g' = yielded g -> Once g'.
Proof.
  intros [O1 O2 O3] Hm Hy. split.
  - now rewrite Hy.
  - intros t. unfold fin_member. rewrite Hy, Hm. apply O2.
  - intros t m. rewrite Hm. apply O3.
Qed.

Lemma once_set g t m m' : get t (members g) = Some m -> m_daemon m' = m_daemon m -> is_fin m' = is_fin m ->
  ondone_cbs (m_cbs m') = ondone_cbs (m_cbs m) -> Once g -> Once (upd_members g (set t m' (members g))).
Proof.
  intros Em Hd Hf Hc [O1 O2 O3]. split.
  - exact O1.
  - intros t0. change (yielded (upd_members g (set t m' (members g)))) with (yielded g). rewrite O2.
    unfold fin_member. cbn [members upd_members]. destruct (N.eqb_spec t t0) as [<-|Hne].
    + rewrite get_set_same. split.
      * intros (m0 & E & D & F). rewrite Em in E. injection E as <-. exists m'. rewrite Hd, Hf. auto.
      * intros (m0 & E & D & F). injection E as <-. exists m. rewrite <- Hd, <- Hf. auto.
    + now rewrite get_set_other.
  - intros t0 m0. cbn [members upd_members]. destruct (N.eqb_spec t t0) as [<-|Hne].
    + rewrite get_set_same. intros E F. injection E as <-. rewrite Hc, Hd. apply O3; auto. now rewrite <- Hf.
    + rewrite get_set_other by auto. apply O3.
Qed.

Lemma cancel_member_once g t : Once g -> Once (cancel_member g t).
Proof.
  intros H. unfold cancel_member. destruct (get t (members g)) as [m|] eqn:Em; [|exact H].
  destruct (m_status m) eqn:Es; try exact H. apply once_set with m; auto. unfold is_fin. cbn. now rewrite Es.
Qed.

Lemma register_pop_once g t : Once g -> Once (register_pop g t).
Proof.
  intros H. unfold register_pop. destruct (get t (members g)) as [m|] eqn:Em; [|exact H].
  destruct (m_status m) eqn:Es.
  1,2: apply once_set with m; auto; [unfold is_fin; cbn; now rewrite Es|cbn; rewrite ondone_cbs_app; cbn; apply app_nil_r].
  apply (once_same g); auto. unfold yielded. cbn. rewrite ondone_q_app. cbn. now rewrite app_nil_r.
Qed.

Lemma cancel_tasks_once g ord : Once g -> Once (cancel_tasks g ord).
Proof.
  intros H. unfold cancel_tasks.
  assert (F : forall (f : tg -> N -> tg), (forall g t, Once g -> Once (f g t)) -> forall l g, Once g -> Once (fold_left f l g)).
  { intros f Hf. induction l as [|t l IH]; intros g0 H0; cbn; auto. }
  apply F; [apply register_pop_once|]. apply F; [apply cancel_member_once|exact H].
Qed.

Lemma sem_release_yielded g : members (sem_release g) = members g /\ yielded (sem_release g) = yielded g.
Proof.
  destruct (sem_release_ord g) as (S1 & _ & S3 & S4 & S5). split; [exact S1|]. unfold yielded. now rewrite sem_release_app, S3, S4, S5.
Qed.

Lemma on_done_once g t rest : Once g -> queue g = HCb (OnDone t) :: rest -> Once (on_done (upd_queue g rest) t).
Proof.
  intros H Hq. pose proof H as [O1 O2 O3].
  assert (Hin : In t (yielded g)).
  { unfold yielded. rewrite Hq. apply in_or_app. right. apply in_or_app. right. apply in_or_app. right. cbn. now left. }
  apply O2 in Hin as (m & Em & Hd & Hf).
  unfold on_done. cbn [members upd_queue]. rewrite Em, Hd.
  match goal with |- Once (sem_release ?G) => destruct (sem_release_yielded G) as (S1 & S2) end.
  apply (once_same g); auto. rewrite S2. unfold yielded. cbn. rewrite Hq. cbn. now rewrite <- !app_assoc.
Qed.

Lemma finish_member_once g t o : Once g -> Once (finish_member g t o).
Proof.
  intros H. unfold finish_member. destruct (get t (members g)) as [m|] eqn:Em; [|exact H].
  destruct (is_fin m) eqn:Efin.
  { unfold is_fin in Efin. destruct (m_status m); try discriminate. exact H. }
  destruct H as [O1 O2 O3].
  assert (Hnot : ~ In t (yielded g)).
  { intros Hin. apply O2 in Hin as (m0 & E & _ & F). rewrite Em in E. injection E as <-. congruence. }
  pose proof (O3 _ _ Em Efin) as Hcbs.
  set (m1 := {| m_daemon := m_daemon m; m_status := Fin o; m_cbs := [] |}).
  assert (Hget : forall t0, get t0 (set t m1 (members g)) = if N.eqb t t0 then Some m1 else get t0 (members g)).
  { intros t0. destruct (N.eqb_spec t t0) as [<-|Hne]; [apply get_set_same|now apply get_set_other]. }
  assert (Hres : Once (if m_daemon m then upd_queue (upd_members g (set t m1 (members g))) (queue g ++ map HCb (m_cbs m))
            else let g2 := upd_queue (upd_members g (set t m1 (members g))) (queue g ++ map HCb (m_cbs m)) in
            {| members := members g2; pending := pending g2; daemons := daemons g2; doneq := doneq g2;
               semv := semv g2; joined := joined g2; completed := completed g2; pol := pol g2;
               mode := mode g2; pc := pc g2; entered := entered g2; granted := granted g2; wake := wake g2;
               must_cancel := must_cancel g2; jexc := jexc g2; unfinished := unfinished g2;
               queue := queue g2; log_done := log_done g2 ++ [t]; consumed := consumed g2;
               app_consumed := app_consumed g2 |})).
  { destruct (m_daemon m) eqn:Ed; split; unfold yielded, fin_member; cbn.
    - rewrite ondone_q_app, ondone_q_map, Hcbs, app_nil_r. exact O1.
    - intros t0. rewrite ondone_q_app, ondone_q_map, Hcbs, app_nil_r. fold (yielded g). rewrite O2, Hget.
      unfold fin_member. destruct (N.eqb_spec t t0) as [<-|Hne]; [|reflexivity].
      split; intros (m0 & E & D & F).
      + rewrite Em in E. injection E as <-. congruence.
      + injection E as <-. cbn in D. congruence.
    - intros t0 m0. rewrite Hget. destruct (N.eqb_spec t t0) as [<-|Hne]; [|apply O3].
      intros E F. injection E as <-. discriminate.
    - rewrite ondone_q_app, ondone_q_map, Hcbs, !app_assoc. apply NoDup_app_snoc; [|now rewrite <- !app_assoc].
      rewrite <- !app_assoc. exact O1.
    - intros t0. rewrite ondone_q_app, ondone_q_map, Hcbs, !app_assoc, in_app_iff, <- !app_assoc. fold (yielded g).
      rewrite O2, Hget. unfold fin_member. destruct (N.eqb_spec t t0) as [<-|Hne].
      + split; [intros _; exists m1; auto|intros _; right; now left].
      + split; [intros [H|[H|[]]]; [exact H|contradiction]|intros H; now left].
    - intros t0 m0. rewrite Hget. destruct (N.eqb_spec t t0) as [<-|Hne]; [|apply O3].
      intros E F. injection E as <-. discriminate. }
  unfold is_fin in Efin. destruct (m_status m); try discriminate; exact Hres.
Qed.

Lemma nodup_insert {A} (a b c : list A) x : NoDup (a ++ b ++ c) -> ~ In x (a ++ b ++ c) -> NoDup (a ++ (b ++ [x]) ++ c).
Proof.
  intros Hn Hx. rewrite <- app_assoc. cbn. rewrite app_assoc.
  apply (Permutation.Permutation_NoDup (l := x :: (a ++ b) ++ c)); [apply Permutation.Permutation_middle|].
  rewrite <- app_assoc. now constructor.
Qed.

Lemma add_task_once g t d al : Once g -> Once (fst (add_task g t d (match al with Some o => Fin o | None => Run end))).
Proof.
  intros H. unfold add_task. destruct (add_refused_after_join && joined g); [exact H|].
  destruct (get t (members g)) as [m0|] eqn:Em; [exact H|].
  pose proof H as [O1 O2 O3].
  assert (Hget : forall mm t0, get t0 (set t mm (members g)) = if N.eqb t t0 then Some mm else get t0 (members g)).
  { intros mm t0. destruct (N.eqb_spec t t0) as [<-|Hne]; [apply get_set_same|now apply get_set_other]. }
  assert (Hnot : ~ In t (yielded g)).
  { intros Hin. apply O2 in Hin as (m1 & E & _). rewrite Em in E. discriminate. }
  destruct al as [o|].
  - (* a task that has already finished *)
    cbn [fst]. unfold on_done. cbn [members upd_members]. rewrite get_set_same. cbn [m_daemon].
    destruct d.
    + split; unfold yielded, fin_member; cbn.
      * exact O1.
      * intros t0. fold (yielded g). rewrite O2, Hget. unfold fin_member.
        destruct (N.eqb_spec t t0) as [<-|Hne]; [|reflexivity]. rewrite Em.
        split; intros (m1 & E & D & F); [discriminate|]. injection E as <-. discriminate.
      * intros t0 m1. rewrite Hget. destruct (N.eqb_spec t t0) as [<-|Hne]; [|apply O3].
        intros E F. injection E as <-. discriminate.
    + match goal with |- Once (sem_release ?G) => destruct (sem_release_yielded G) as (S1 & S2) end.
      split.
      * rewrite S2. unfold yielded. cbn. rewrite !(app_assoc (app_consumed g)).
        apply nodup_insert; rewrite <- !app_assoc; [exact O1|exact Hnot].
      * intros t0. rewrite S2. unfold fin_member. rewrite S1. unfold yielded. cbn.
        rewrite Hget. rewrite !in_app_iff. cbn. destruct (N.eqb_spec t t0) as [<-|Hne].
        -- split; [intros _; eexists; split; [reflexivity|auto]|intros _; right; right; left; right; now left].
        -- pose proof (O2 t0) as Ht0. unfold yielded, fin_member in Ht0. rewrite !in_app_iff in Ht0. rewrite <- Ht0.
           split; [intros [Hc|[Hc|[[Hc|[Hc|[]]]|Hc]]]; auto; contradiction|intros [Hc|[Hc|[Hc|Hc]]]; auto].
      * intros t0 m1. rewrite S1. cbn. rewrite Hget. destruct (N.eqb_spec t t0) as [<-|Hne]; [|apply O3].
        intros E F. injection E as <-. discriminate.
  - destruct d; cbn [fst]; split; unfold yielded, fin_member; cbn; auto.
    + intros t0. fold (yielded g). rewrite O2, Hget. unfold fin_member. destruct (N.eqb_spec t t0) as [<-|Hne]; [|reflexivity].
      rewrite Em. split; intros (m1 & E & D & F); [discriminate|]. injection E as <-. discriminate.
    + intros t0 m1. rewrite Hget. destruct (N.eqb_spec t t0) as [<-|Hne]; [|apply O3].
      intros E F. now injection E as <-.
    + intros t0. fold (yielded g). rewrite O2. unfold fin_member. destruct (N.eqb_spec t t0) as [<-|Hne].
      * rewrite get_set_same, Em. split; intros (m1 & E & D & F); [discriminate|]. injection E as <-. discriminate.
      * now rewrite !get_set_other.
    + intros t0 m1. destruct (N.eqb_spec t t0) as [<-|Hne].
      * rewrite get_set_same. intros E F. now injection E as <-.
      * rewrite !get_set_other by auto. apply O3.
Qed.

Lemma consume_once g t rest : doneq g = t :: rest -> Once g -> Once (consume g t rest).
Proof.
  intros Hd H. apply (once_same g); auto. unfold yielded. cbn. rewrite Hd. cbn. now rewrite <- app_assoc.
Qed.

Lemma joiner_step_once g order : Once g -> Once (joiner_step g order).
Proof.
  apply joiner_step_pres2.
  - intros g0 p en gr wk mc je unf jd H _. apply (once_same g0); auto.
  - intros g0 sv H. apply (once_same g0); auto.
  - intros g0 t rest. apply consume_once.
  - intros g0 ord. apply cancel_tasks_once.
Qed.

Lemma step_once g l : Once g -> Once (step g l).
Proof.
  intros H. destruct l as [t d al|t o|t| | |h order|]; cbn [step].
  - apply add_task_once; exact H.
  - apply finish_member_once; exact H.
  - apply cancel_member_once; exact H.
  - destruct (pc g); try exact H; destruct (wake g); try exact H;
      apply (once_same g); auto; unfold yielded; cbn; rewrite ondone_q_app; cbn; now rewrite app_nil_r.
  - unfold cancel_joiner. destruct (pc g); try exact H; destruct (wake g); try exact H; apply (once_same g); auto;
      unfold yielded; cbn; rewrite ondone_q_app; cbn; now rewrite app_nil_r.
  - destruct (queue g) as [|h0 rest] eqn:Eq; [exact H|]. cbv zeta. destruct h0 as [[t|t]|].
    + cbn [run_cb]. apply on_done_once; auto.
    + assert (H1 : Once (upd_queue g rest)) by (apply (once_same g); auto; unfold yielded; cbn; now rewrite Eq).
      cbn [run_cb]. cbv zeta.
      repeat match goal with |- context [match ?x with _ => _ end] => destruct x end;
        apply (once_same (upd_queue g rest)); auto; unfold yielded; cbn; rewrite ?ondone_q_app; cbn; now rewrite ?app_nil_r.
    + apply joiner_step_once. apply (once_same g); auto. unfold yielded. cbn. now rewrite Eq.
  - destruct (app_next_cases g) as [->|(t & rest & sv & _ & Ec & Ed & _ & ->)]; [exact H|].
    apply (once_same g); auto. unfold yielded. cbn. rewrite Ec, Ed. cbn. now rewrite <- app_assoc.
Qed.

(* every non-daemon member that has finished is yielded exactly once - whatever the labels *)
Theorem reachable_once p m ls : Once (run p m ls).
Proof.
  unfold run. assert (H0 : Once (init p m)).
  { split; unfold yielded, fin_member; cbn; [constructor|intros t; split; [intros []|intros (m0 & E & _); discriminate]|
    intros t m0 E; discriminate]. }
  revert H0. generalize (init p m). induction ls as [|l ls IH]; intros g Hg; cbn [fold_left]; [exact Hg|].
  apply IH. apply step_once; auto.
Qed.

(* ---------- what a finished member was is never rewritten; the policy is fixed ---------- *)
Definition MemStable (g g' : tg) : Prop := forall t, finished g t = true -> status g' t = status g t.

Lemma memstable_refl g : MemStable g g.
Proof. intros t _. reflexivity. Qed.
Lemma memstable_trans a b c : MemStable a b -> MemStable b c -> MemStable a c.
Proof.
  intros H1 H2 t Hf. rewrite H2, H1; auto. rewrite (finished_status a b t); auto.
Qed.
Lemma memstable_members g g' : members g' = members g -> MemStable g g'.
Proof. intros E t _. unfold status. now rewrite E. Qed.

Lemma frame_memstable g g' : Frame g g' -> MemStable g g'.
Proof.
  intros (_ & _ & _ & _ & _ & A6 & _) t Hf. unfold finished, status in *.
  destruct (get t (members g)) as [m|] eqn:E; [|discriminate]. destruct (A6 _ _ E) as (m' & E' & (_ & Hs & _)).
  rewrite E'. cbn in *. destruct Hs as [->|[Hs _]]; [reflexivity|]. rewrite Hs in Hf. discriminate.
Qed.

Lemma cancel_tasks_fields g ord :
  pol (cancel_tasks g ord) = pol g /\ completed (cancel_tasks g ord) = completed g /\
  consumed (cancel_tasks g ord) = consumed g.
Proof.
  unfold cancel_tasks.
  assert (F : forall (f : tg -> N -> tg),
            (forall g t, pol (f g t) = pol g /\ completed (f g t) = completed g /\ consumed (f g t) = consumed g) ->
            forall l g, pol (fold_left f l g) = pol g /\ completed (fold_left f l g) = completed g /\
                        consumed (fold_left f l g) = consumed g).
  { intros f Hf. induction l as [|t l IH]; intros g0; cbn; [auto|]. destruct (IH (f g0 t)) as (-> & -> & ->). apply Hf. }
  destruct (F register_pop) with (l := ord) (g := fold_left cancel_member ord g) as (-> & -> & ->).
  { intros g0 t. unfold register_pop. destruct (get t (members g0)); auto. destruct (m_status m); auto. }
  apply F. intros g0 t. unfold cancel_member. destruct (get t (members g0)); auto. destruct (m_status m); auto.
Qed.

Definition joiner_runs (g : tg) (l : label) : bool :=
  match l, queue g with LRun _ _, HJoiner :: _ => true | _, _ => false end.

Lemma joiner_step_frame g order : pol (joiner_step g order) = pol g /\ MemStable g (joiner_step g order).
Proof.
  apply (joiner_step_pres (fun g' => pol g' = pol g /\ MemStable g g')).
  - intros g0 p en gr wk mc je unf jd cm cs [H1 H2] _ _. split; [exact H1|]. intros t Hf. apply (H2 t Hf).
  - intros g0 dq sv [H1 H2]. split; [exact H1|]. intros t Hf. apply (H2 t Hf).
  - intros g0 ord [H1 H2]. destruct (cancel_tasks_fields g0 ord) as (E1 & _). split; [congruence|].
    eapply memstable_trans; [exact H2|apply frame_memstable, cancel_tasks_frame].
  - split; [reflexivity|apply memstable_refl].
Qed.

Lemma sem_release_fields g :
  pol (sem_release g) = pol g /\ completed (sem_release g) = completed g.
Proof. unfold sem_release. cbn. destruct (pc g), (wake g); auto. Qed.

Lemma step_frame g l :
  pol (step g l) = pol g /\ MemStable g (step g l) /\
  (joiner_runs g l = false -> completed (step g l) = completed g /\ consumed (step g l) = consumed g).
Proof.
  destruct l as [t d al|t o|t| | |h order|]; cbn [step joiner_runs].
  - unfold add_task. destruct (add_refused_after_join && joined g); [repeat split; auto; apply memstable_refl|].
    destruct (get t (members g)) as [m0|] eqn:Em; [repeat split; auto; apply memstable_refl|].
    assert (Hms : forall mm, MemStable g (upd_members g (set t mm (members g)))).
    { intros mm t0 Hf. unfold status. cbn. destruct (N.eqb_spec t t0) as [<-|Hne].
      - unfold finished, status in Hf. rewrite Em in Hf. discriminate.
      - now rewrite get_set_other. }
    destruct (match al with Some o => Fin o | None => Run end) eqn:Est.
    1,2: destruct d; cbn [fst]; repeat split; auto;
         intros t0 Hf; unfold status; cbn; destruct (N.eqb_spec t t0) as [<-|Hne];
           try (unfold finished, status in Hf; rewrite Em in Hf; discriminate); now rewrite !get_set_other.
    cbn [fst]. unfold on_done. cbn [members upd_members]. rewrite get_set_same. cbn [m_daemon].
    destruct d.
    + repeat split; auto. apply Hms.
    + match goal with |- context [sem_release ?G] =>
        destruct (sem_release_fields G) as (S1 & S2); destruct (sem_release_ord G) as (S3 & _ & S5 & _) end.
      rewrite S1, S2, S5. repeat split; auto. intros t0 Hf. unfold status. rewrite S3. apply (Hms _ t0 Hf).
  - unfold finish_member. destruct (get t (members g)) as [m|] eqn:Em; [|repeat split; auto; apply memstable_refl].
    assert (Hms : forall mm, is_fin m = false -> MemStable g (upd_members g (set t mm (members g)))).
    { intros mm Hn t0 Hf. unfold status. cbn. destruct (N.eqb_spec t t0) as [<-|Hne].
      - apply finished_get in Hf as (m0 & E & F). rewrite Em in E. injection E as <-. congruence.
      - now rewrite get_set_other. }
    unfold is_fin in Hms.
    destruct (m_status m); try (repeat split; auto; apply memstable_refl);
      destruct (m_daemon m); repeat split; auto; intros t0 Hf; apply (Hms _ eq_refl t0 Hf).
  - split; [|split].
    + unfold cancel_member. destruct (get t (members g)); auto. destruct (m_status m); auto.
    + apply frame_memstable, cancel_member_frame.
    + intros _. unfold cancel_member. destruct (get t (members g)); auto. destruct (m_status m); auto.
  - destruct (pc g); try (repeat split; auto; apply memstable_refl);
      destruct (wake g); repeat split; auto; apply memstable_refl.
  - unfold cancel_joiner.
    destruct (pc g); try (repeat split; auto; apply memstable_refl);
      destruct (wake g); repeat split; auto; apply memstable_refl.
  - destruct (queue g) as [|h0 rest] eqn:Eq; [repeat split; auto; apply memstable_refl|]. cbv zeta.
    destruct h0 as [[t|t]|].
    + cbn [run_cb]. unfold on_done. cbn [members upd_queue].
      destruct (get t (members g)) as [m|]; [|repeat split; auto; apply memstable_refl].
      destruct (m_daemon m); [repeat split; auto; apply memstable_refl|].
      match goal with |- context [sem_release ?G] =>
        destruct (sem_release_fields G) as (S1 & S2); destruct (sem_release_ord G) as (S3 & _ & S5 & _) end.
      rewrite S1, S2, S5. repeat split; auto. apply memstable_members. now rewrite S3.
    + cbn [run_cb]. cbv zeta.
      repeat match goal with |- context [match ?x with _ => _ end] => destruct x end;
        repeat split; auto; apply memstable_refl.
    + destruct (joiner_step_frame (upd_queue g rest) order) as [H1 H2]. split; [exact H1|]. split; [|discriminate].
      intros t Hf. apply (H2 t Hf).
  - destruct (app_next_frame g) as (E1 & _ & _ & _ & _ & _ & E7 & E8 & E9 & _).
    split; [exact E9|]. split; [now apply memstable_members|]. intros _. auto.
Qed.

(* ---------- completed is the first consumed member that counts ---------- *)
Definition is_object (p : policy) : bool := match p with PObject => true | _ => false end.
Definition counts (g : tg) (t : N) : bool := negb (is_object (pol g) && ret_none g t).
Definition CF (g : tg) : Prop := completed g = find (counts g) (consumed g).

Lemma find_snoc {A} (f : A -> bool) l x :
  find f (l ++ [x]) = match find f l with Some y => Some y | None => if f x then Some x else None end.
Proof. induction l as [|a l IH]; cbn; [reflexivity|]. destruct (f a); auto. Qed.
Lemma find_ext_in {A} (f f' : A -> bool) l : (forall x, In x l -> f x = f' x) -> find f l = find f' l.
Proof.
  induction l as [|a l IH]; intros H; cbn; [reflexivity|]. rewrite (H a) by now left.
  destruct (f' a); auto. apply IH. intros x Hx. apply H. now right.
Qed.

Lemma consumed_finished g : Once g -> forall t, In t (consumed g) -> finished g t = true.
Proof.
  intros [_ O2 _] t Hin. apply finished_get.
  assert (Hl : In t (yielded g)) by (apply in_or_app; right; apply in_or_app; now left).
  apply O2 in Hl as (m & E & _ & F). eauto.
Qed.

Lemma counts_stable g g' : pol g' = pol g -> MemStable g g' ->
  forall t, finished g t = true -> counts g' t = counts g t.
Proof. intros Hp Hs t Hf. unfold counts, ret_none. now rewrite Hp, (Hs t Hf). Qed.

Lemma cf_stable g g' : Once g -> CF g -> pol g' = pol g -> MemStable g g' ->
  completed g' = completed g -> consumed g' = consumed g -> CF g'.
Proof.
  intros Ho Hc Hp Hs E1 E2. unfold CF. rewrite E1, E2, Hc. apply find_ext_in.
  intros t Hin. symmetry. apply counts_stable; auto. now apply consumed_finished.
Qed.

Lemma joiner_step_cf g order : Once g -> CF g -> Once (joiner_step g order) /\ CF (joiner_step g order).
Proof.
  intros Ho Hc. apply (joiner_step_pres2 (fun g' => Once g' /\ CF g')); [| | | |split; assumption].
  - intros g0 p en gr wk mc je unf jd [H1 H2] _. split; [apply (once_same g0); auto|exact H2].
  - intros g0 sv [H1 H2]. split; [apply (once_same g0); auto|exact H2].
  - intros g0 t rest Hd [H1 H2]. split; [now apply consume_once|].
    unfold CF in *. cbn [completed consumed consume upd_joiner upd_group]. rewrite find_snoc.
    change (counts (consume g0 t rest)) with (counts g0). rewrite <- H2.
    destruct (completed g0); [reflexivity|]. unfold counts. cbn [pol upd_group]. unfold is_object.
    change (ret_none (upd_group g0 (pending g0) (daemons g0) rest (semv g0)) t) with (ret_none g0 t).
    destruct (match pol g0 with PObject => true | _ => false end && ret_none g0 t); reflexivity.
  - intros g0 ord [H1 H2]. split; [now apply cancel_tasks_once|].
    destruct (cancel_tasks_fields g0 ord) as (E1 & E2 & E3).
    apply (cf_stable g0); auto. apply frame_memstable, cancel_tasks_frame.
Qed.

Lemma step_cf g l : Once g -> CF g -> CF (step g l).
Proof.
  intros Ho Hc. destruct (joiner_runs g l) eqn:Ej.
  - destruct l as [| | | | |h order|]; try discriminate. cbn in Ej. cbn [step].
    destruct (queue g) as [|[c|] rest] eqn:Eq; try discriminate. cbv zeta.
    apply joiner_step_cf; [apply (once_same g); auto; unfold yielded; cbn; now rewrite Eq|exact Hc].
  - destruct (step_frame g l) as (H1 & H2 & H3). destruct (H3 Ej) as [E1 E2]. apply (cf_stable g); auto.
Qed.

Theorem reachable_cf p m ls : CF (run p m ls).
Proof.
  unfold run.
  assert (H : Once (fold_left step ls (init p m)) /\ CF (fold_left step ls (init p m))).
  { assert (H0 : Once (init p m) /\ CF (init p m)) by (split; [apply (reachable_once p m [])|reflexivity]).
    revert H0. generalize (init p m). induction ls as [|l ls IH]; intros g Hg; cbn [fold_left]; [exact Hg|].
    apply IH; auto. destruct Hg as [Ho Hc].
    split; [now apply step_once|now apply step_cf]. }
  apply H.
Qed.
