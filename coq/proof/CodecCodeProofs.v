(* C04: the statements translated from the decoding functions of JSONRPCv1 / JSONRPCv2 / JSONRPCLoose do what the model's
   message_id / validate / request_args / response_value / best_effort_error do - for every JSON object handed to them
   (and, where the code tests it itself, for every JSON value). *)
From AV Require Import Base Utf8 Json Gen_jsonrpc Codec CodecCode.
Local Open Scope Z_scope.

Lemma decoder_code_known :
  forallb (fun c => vknown 6 c)
    [v1_message_id_code; v1_validate_code; v1_request_args_code; v1_response_value_code;
     v2_message_id_code; v2_validate_code; v2_request_args_code; v2_response_value_code;
     loose_message_id_code; loose_validate_code; loose_request_args_code; loose_response_value_code; best_effort_code;
     protocol_for_payload_code] = true.
Proof. reflexivity. Qed.

Local Opaque obj_get text_eqb.

(* ---------- _message_id ---------- *)
Definition id_result (r : json + Z) : vres := match r with inl i => VRet i | inr c => VRaised c end.

Theorem generated_message_id_v1 l req :
  run_code v1_message_id_code (JObj l) req = id_result (message_id V1 (JObj l) req).
Proof.
  unfold run_code, message_id, get, members. cbn. unfold obj_has.
  change [105; 100]%N with k_id. destruct (obj_get k_id l); reflexivity.
Qed.

(* the 2.0 function tests the value itself: any JSON value *)
Theorem generated_message_id_v2 pr m req : pr = V2 \/ pr = Loose ->
  run_code (code_of_message_id pr) m req = id_result (message_id pr m req).
Proof.
  intros [-> | ->]; unfold run_code, message_id, get, members, code_of_message_id; cbn.
  all: destruct m as [|b|z|t|s|a|l]; cbn; try reflexivity.
  all: unfold obj_has; change [105; 100]%N with k_id; destruct (obj_get k_id l) as [i|]; cbn.
  all: try (destruct i; reflexivity).
  all: destruct req; reflexivity.
Qed.

(* ---------- _validate_message ---------- *)
Theorem generated_validate pr l :
  run_code (code_of_validate pr) (JObj l) false = match validate pr (JObj l) with Some c => VRaised c | None => VRetNone end.
Proof.
  destruct pr; unfold run_code, validate, get, members, code_of_validate; cbn; try reflexivity.
  change [106; 115; 111; 110; 114; 112; 99]%N with k_jsonrpc. change [50; 46; 48]%N with s_2_0.
  destruct (obj_get k_jsonrpc l) as [[| | | |s| |]|]; cbn; try reflexivity. destruct (text_eqb s s_2_0); reflexivity.
Qed.

(* ---------- _request_args ---------- *)
Theorem generated_request_args pr l :
  run_code (code_of_request_args pr) (JObj l) false = id_result (request_args pr (JObj l)).
Proof.
  destruct pr; unfold run_code, request_args, getn, get, members, code_of_request_args; cbn;
    change [112; 97; 114; 97; 109; 115]%N with k_params; destruct (obj_get k_params l) as [a|]; cbn; try reflexivity;
    destruct a; reflexivity.
Qed.

(* ---------- _best_effort_error ---------- *)
Theorem generated_best_effort e : best_effort_generated e = Some (best_effort_error e).
Proof.
  unfold best_effort_generated, run_code, best_effort_error, get, members. cbn.
  change [109; 101; 115; 115; 97; 103; 101]%N with k_message. change [99; 111; 100; 101]%N with k_code.
  destruct e as [|b|z|t|s|a|l]; cbn; try reflexivity.
  destruct (obj_get k_message l) as [[| | | |ms| |]|]; cbn;
    destruct (obj_get k_code l) as [[| | | | | |]|]; cbn; reflexivity.
Qed.

(* ---------- response_value ---------- *)
Theorem generated_response_value pr l :
  response_value_generated pr (JObj l) = Some (response_value pr (JObj l)).
Proof.
  destruct pr; unfold response_value_generated, run_code, response_value, getn, get, has, members, code_of_response_value; cbn;
    unfold obj_has; change [114; 101; 115; 117; 108; 116]%N with k_result; change [101; 114; 114; 111; 114]%N with k_error.
  - (* 1.0 *)
    destruct (obj_get k_result l) as [r|]; cbn; [|reflexivity].
    destruct (obj_get k_error l) as [e|]; cbn; [|reflexivity].
    destruct e; cbn; try reflexivity; destruct r; cbn; try reflexivity; rewrite generated_best_effort; reflexivity.
  - (* 2.0 *)
    destruct (obj_get k_result l) as [r|]; cbn.
    + destruct (obj_get k_error l); reflexivity.
    + destruct (obj_get k_error l) as [e|]; cbn; [|reflexivity].
      unfold get, members. change [99; 111; 100; 101]%N with k_code. change [109; 101; 115; 115; 97; 103; 101]%N with k_message.
      destruct e as [|b|z|t|s|a|le]; cbn; try reflexivity.
      destruct (obj_get k_code le) as [c|]; cbn.
      * destruct (obj_get k_message le) as [[| | | |ms| |]|]; destruct c; cbn; reflexivity.
      * destruct (obj_get k_message le) as [[| | | |ms| |]|]; reflexivity.
  - (* loose *)
    destruct (obj_get k_error l) as [e|]; cbn.
    + destruct e; cbn.
      1: destruct (obj_get k_result l); reflexivity.
      all: destruct (obj_get k_result l) as [r|]; cbn; [destruct r; cbn|]; rewrite ?generated_best_effort; reflexivity.
    + destruct (obj_get k_result l); reflexivity.
Qed.

(* ================= _process_request / _process_response / message_to_item ================= *)
Lemma process_code_known : pknown 6 process_request_code && pknown 6 process_response_code && pknown 6 message_to_item_code = true.
Proof. reflexivity. Qed.

Lemma generated_message_id_dict pr l req :
  run_code (code_of_message_id pr) (JObj l) req = id_result (message_id pr (JObj l) req).
Proof.
  destruct pr; [apply generated_message_id_v1 | apply (generated_message_id_v2 V2); auto | apply (generated_message_id_v2 Loose); auto].
Qed.

Lemma request_args_shape pr m a : request_args pr m = inl a -> is_list a || is_dict a = true.
Proof.
  unfold request_args. destruct pr.
  - destruct (is_list (getn k_params m)) eqn:E; [|discriminate]. intros H. injection H as <-. now rewrite E.
  - destruct (get k_params m) as [x|]; [|intros H; injection H as <-; reflexivity].
    destruct (is_dict x || is_list x) eqn:E; [|discriminate]. intros H. injection H as <-. now rewrite Bool.orb_comm.
  - destruct (get k_params m) as [x|]; [|intros H; injection H as <-; reflexivity].
    destruct (is_dict x || is_list x) eqn:E; [|discriminate]. intros H. injection H as <-. now rewrite Bool.orb_comm.
Qed.

Local Opaque run_code response_value_generated.

Theorem generated_process_request_dict pr l : process_request_generated pr (JObj l) = Some (process_request pr (JObj l)).
Proof.
  unfold process_request_generated, process_request. cbn -[message_id validate request_args].
  rewrite generated_message_id_dict. destruct (message_id pr (JObj l) false) as [rid|c]; cbn -[validate request_args]; [|reflexivity].
  rewrite generated_validate. destruct (validate pr (JObj l)) as [c|]; cbn -[request_args]; [reflexivity|].
  unfold getn, get, members.
  destruct (is_null rid) eqn:En; cbn -[request_args]; unfold make_single; rewrite generated_request_args;
    destruct (request_args pr (JObj l)) as [a|c] eqn:Ea; cbn -[request_args]; try reflexivity;
    destruct (obj_get k_method l) as [[| | | |meth| |]|]; cbn; try reflexivity;
    rewrite (request_args_shape _ _ _ Ea); cbn; rewrite ?En; reflexivity.
Qed.

Theorem generated_process_response_dict pr l : process_response_generated pr (JObj l) = Some (process_response pr (JObj l)).
Proof.
  unfold process_response_generated, process_response. cbn -[message_id validate response_value].
  rewrite generated_message_id_dict. destruct (message_id pr (JObj l) true) as [rid|c]; cbn -[validate response_value]; [|reflexivity].
  rewrite generated_validate. destruct (validate pr (JObj l)) as [c|]; cbn -[response_value]; [reflexivity|].
  rewrite generated_response_value. destruct (response_value pr (JObj l)); reflexivity.
Qed.

(* members of an array reach _process_request on their own (batch-capable classes only): any JSON value *)
Theorem generated_process_request_any pr m : pr <> V1 -> process_request_generated pr m = Some (process_request pr m).
Proof.
  intros Hp. destruct m as [|b|z|t|s|a|l]; try apply generated_process_request_dict;
    unfold process_request_generated, process_request; cbn -[message_id];
    (rewrite (generated_message_id_v2 pr); [|destruct pr; auto; congruence]); destruct pr; try congruence; reflexivity.
Qed.

Theorem generated_process_response_any pr m : pr <> V1 -> process_response_generated pr m = Some (process_response pr m).
Proof.
  intros Hp. destruct m as [|b|z|t|s|a|l]; try apply generated_process_response_dict;
    unfold process_response_generated, process_response; cbn -[message_id];
    (rewrite (generated_message_id_v2 pr); [|destruct pr; auto; congruence]); destruct pr; try congruence; reflexivity.
Qed.

(* message_to_item, once the text is decoded: for every protocol class and every JSON value *)
Theorem generated_payload_to_item pr m : payload_to_item_generated pr m = Some (payload_to_item pr m).
Proof.
  unfold payload_to_item_generated, payload_to_item.
  destruct m as [|b|z|t|s|a|l]; cbn; try reflexivity.
  - destruct (allow_batches pr); cbn; [|reflexivity]. destruct a; reflexivity.
  - unfold has, members. destruct (obj_has k_method l); cbn.
    + now rewrite generated_process_request_dict.
    + now rewrite generated_process_response_dict.
Qed.

(* ================= JSONRPCAutoDetect.detect_protocol ================= *)
Lemma detect_code_known : dknown 4 detect_protocol_code = true.
Proof. reflexivity. Qed.

Local Transparent run_code.

Theorem generated_protocol_for_payload m : protocol_for_payload_generated m = Some (protocol_for_payload m).
Proof.
  unfold protocol_for_payload_generated, run_code, protocol_for_payload, get, has, members. cbn.
  destruct m as [|b|z|t|s|a|l]; cbn; try reflexivity.
  change [106; 115; 111; 110; 114; 112; 99]%N with k_jsonrpc. change [50; 46; 48]%N with s_2_0. change [49; 46; 48]%N with s_1_0.
  change [114; 101; 115; 117; 108; 116]%N with k_result. change [101; 114; 114; 111; 114]%N with k_error.
  destruct (obj_get k_jsonrpc l) as [[| | | |s| |]|]; cbn;
    try (destruct (obj_has k_result l); cbn; [destruct (obj_has k_error l)|]; reflexivity).
  destruct (text_eqb s s_2_0); cbn; [reflexivity|]. destruct (text_eqb s s_1_0); cbn; [reflexivity|].
  destruct (obj_has k_result l); cbn; [destruct (obj_has k_error l)|]; reflexivity.
Qed.

Lemma all_protos_map l : all_protos l = Some (map protocol_for_payload l).
Proof.
  induction l as [|x r IH]; cbn [all_protos map]; [reflexivity|]. now rewrite generated_protocol_for_payload, IH.
Qed.

Local Opaque protocol_for_payload_generated.

Theorem generated_detect_protocol m : detect_protocol_generated m = Some (detect_protocol m).
Proof.
  unfold detect_protocol_generated, detect_protocol. destruct m as [|b|z|t|s|a|l]; cbn;
    try (rewrite generated_protocol_for_payload; reflexivity).
  rewrite all_protos_map. destruct (map protocol_for_payload a) as [|q r] eqn:E; cbn; [reflexivity|].
  destruct (forallb (proto_eqb q) r); [reflexivity|].
  destruct q; cbn; try reflexivity; destruct (existsb (proto_eqb V2) r); cbn; try reflexivity;
    destruct (existsb (proto_eqb V1) r); reflexivity.
Qed.

(* ================= the payload builders ================= *)
Lemma builder_code_known :
  forallb bst_known [v1_request_payload_code; v1_response_payload_code; v1_error_payload_code; v2_request_payload_code;
                     v2_response_payload_code; v2_error_payload_code; loose_request_payload_code; loose_response_payload_code;
                     loose_error_payload_code] = true.
Proof. reflexivity. Qed.

Local Transparent text_eqb.

(* request.args is a list or a dict (the constructor of Request / Notification sees to that) *)
Theorem generated_request_payload pr meth args rid res c m : is_list args || is_dict args = true ->
  bsexec {| b_meth := meth; b_args := args; b_rid := rid; b_result := res; b_ecode := c; b_emsg := m |} None (code_of_request_payload pr)
  = Some (request_payload pr meth args rid).
Proof.
  intros Ha. destruct pr; unfold request_payload, out_proto, code_of_request_payload; cbn.
  - destruct args; try discriminate; reflexivity.
  - destruct (is_null rid); cbn; destruct args as [| | | | |[|x a]|o]; try discriminate; reflexivity.
  - destruct (is_null rid); cbn; destruct args as [| | | | |[|x a]|o]; try discriminate; reflexivity.
Qed.

Theorem generated_response_payload pr meth args rid res c m :
  bsexec {| b_meth := meth; b_args := args; b_rid := rid; b_result := res; b_ecode := c; b_emsg := m |} None (code_of_response_payload pr)
  = Some (Some (response_payload pr res rid)).
Proof. destruct pr; reflexivity. Qed.

Theorem generated_error_payload pr meth args rid res c m :
  bsexec {| b_meth := meth; b_args := args; b_rid := rid; b_result := res; b_ecode := c; b_emsg := m |} None (code_of_error_payload pr)
  = Some (Some (error_payload pr c m rid)).
Proof. destruct pr; reflexivity. Qed.
