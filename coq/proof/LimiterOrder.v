(* C13: permits are granted first come, first served - globally.
   For every label sequence in which every worker enters at most once: whenever a worker x is still
   queued (Pending), every worker that holds a permit, has ever been admitted, or has been handed a
   permit (Woken) asked BEFORE x.  Nobody overtakes a waiting worker - whatever the cancellations, the
   limit changes and the order in which resumed tasks run. *)
From AV Require Import Base Limiter LimiterProofs.
Local Open Scope Z_scope.
Local Arguments Z.add : simpl never.
Local Arguments Z.sub : simpl never.
Local Arguments Z.leb : simpl never.
Local Arguments Z.ltb : simpl never.
Local Arguments Z.to_nat : simpl never.

(* ---------- subsequences ---------- *)
Inductive sublist : list N -> list N -> Prop :=
| sl_nil l : sublist [] l
| sl_skip x a l : sublist a l -> sublist a (x :: l)
| sl_take x a l : sublist a l -> sublist (x :: a) (x :: l).

Lemma sublist_refl l : sublist l l.
Proof. induction l as [|x l IH]; [apply sl_nil|now apply sl_take]. Qed.
Lemma sublist_In a l : sublist a l -> forall x, In x a -> In x l.
Proof.
  induction 1 as [l|y a l H IH|y a l H IH]; intros x Hx; [contradiction|right; auto|].
  destruct Hx as [->|Hx]; [now left|right; auto].
Qed.
Lemma sublist_app_r a l r : sublist a l -> sublist a (l ++ r).
Proof. induction 1 as [l|y a l H IH|y a l H IH]; cbn; [apply sl_nil|now apply sl_skip|now apply sl_take]. Qed.
Lemma sublist_snoc a l x : sublist a l -> sublist (a ++ [x]) (l ++ [x]).
Proof.
  induction 1 as [l|y a l H IH|y a l H IH]; cbn.
  - induction l as [|z l IHl]; cbn; [apply sl_take, sl_nil|apply sl_skip, IHl].
  - now apply sl_skip.
  - now apply sl_take.
Qed.
Lemma sublist_cons_inv x a l : sublist (x :: a) l -> sublist a l.
Proof.
  remember (x :: a) as xa eqn:E. intros H. revert x a E.
  induction H as [l|y b l H IH|y b l H IH]; intros x a E; [discriminate|apply sl_skip; eauto|].
  injection E as -> ->. now apply sl_skip.
Qed.
Lemma sublist_drop a1 x a2 l : sublist (a1 ++ x :: a2) l -> sublist (a1 ++ a2) l.
Proof.
  remember (a1 ++ x :: a2) as b eqn:E. intros H. revert a1 E.
  induction H as [l|y b l H IH|y b l H IH]; intros a1 E.
  - destruct a1; discriminate.
  - apply sl_skip. now apply IH.
  - destruct a1 as [|z a1]; cbn in E.
    + injection E as -> ->. now apply sl_skip.
    + injection E as -> ->. cbn. apply sl_take. now apply IH.
Qed.
(* the head of a subsequence of a duplicate-free list splits that list *)
Lemma sublist_head_split z ps l : NoDup l -> sublist (z :: ps) l ->
  exists A B, l = A ++ z :: B /\ sublist ps B /\ ~ In z A.
Proof.
  intros Hn H. remember (z :: ps) as zp eqn:E. revert z ps E Hn.
  induction H as [l|y b l H IH|y b l H IH]; intros z ps E Hn; [discriminate| |].
  - inversion Hn as [|? ? Hy Hn']; subst.
    destruct (IH z ps eq_refl Hn') as (A & B & -> & HB & HA). exists (y :: A), B. split; [reflexivity|]. split; [exact HB|].
    intros [->|Hin]; [|contradiction]. apply Hy. apply in_or_app. right. now left.
  - injection E as -> ->. exists [], l. split; [reflexivity|]. split; [exact H|intros []].
Qed.

(* ---------- who is queued, who has been handed a permit ---------- *)
Definition pend (l : list (N * wst)) : list N := map fst (filter (fun x => is_pending (snd x)) l).
Definition wok (l : list (N * wst)) : list N := map fst (filter (fun x => is_woken (snd x)) l).
Definition granted (st : lstate) (y : N) : Prop := In y (admitted st) \/ In y (wok (waiters st)).

Lemma pend_app a b : pend (a ++ b) = pend a ++ pend b.
Proof. unfold pend. now rewrite filter_app, map_app. Qed.
Lemma wok_app a b : wok (a ++ b) = wok a ++ wok b.
Proof. unfold wok. now rewrite filter_app, map_app. Qed.
Lemma pend_none a : forallb (fun x => negb (is_pending (snd x))) a = true -> pend a = [].
Proof.
  unfold pend. induction a as [|x a IH]; cbn; [reflexivity|]. intros H. apply andb_true_iff in H as [H1 H2].
  apply negb_true_iff in H1. rewrite H1. auto.
Qed.
Lemma pend_ids l x : In x (pend l) -> In x (ids l).
Proof. unfold pend, ids. intros H. apply in_map_iff in H as (y & <- & Hy). apply filter_In in Hy as [Hy _]. now apply in_map. Qed.
Lemma wok_ids l x : In x (wok l) -> In x (ids l).
Proof. unfold wok, ids. intros H. apply in_map_iff in H as (y & <- & Hy). apply filter_In in Hy as [Hy _]. now apply in_map. Qed.
Lemma find_waiter_pend w l : find_waiter w l = Some Pending -> In w (pend l).
Proof.
  induction l as [|[x s] l IH]; cbn; [discriminate|]. destruct (N.eqb_spec x w) as [->|Hne].
  - intros H. injection H as ->. unfold pend. cbn. now left.
  - intros H. unfold pend in *. cbn. destruct (is_pending s); cbn; auto.
Qed.
Lemma find_waiter_wok w l : find_waiter w l = Some Woken -> In w (wok l).
Proof.
  induction l as [|[x s] l IH]; cbn; [discriminate|]. destruct (N.eqb_spec x w) as [->|Hne].
  - intros H. injection H as ->. unfold wok. cbn. now left.
  - intros H. unfold wok in *. cbn. destruct (is_woken s); cbn; auto.
Qed.

(* removing a waiter *)
Lemma pend_remove w l : sublist (pend (remove_waiter w l)) (pend l).
Proof.
  unfold pend, remove_waiter. induction l as [|[x s] l IH]; cbn; [constructor|].
  destruct (N.eqb x w); cbn; destruct (is_pending s); cbn; try (now apply sl_take); try (now apply sl_skip); exact IH.
Qed.
Lemma pend_remove_notpending w l s : NoDup (ids l) -> find_waiter w l = Some s -> is_pending s = false ->
  pend (remove_waiter w l) = pend l.
Proof.
  unfold pend, remove_waiter, ids. induction l as [|[x s0] l IH]; cbn; [discriminate|]. intros Hn.
  inversion Hn as [|? ? Hx Hn']; subst. destruct (N.eqb_spec x w) as [->|Hne]; cbn.
  - intros H Hs. injection H as ->. rewrite Hs.
    assert (E : filter (fun x0 => negb (N.eqb (fst x0) w)) l = l).
    { clear - Hx. induction l as [|y l IH]; cbn; auto. cbn in Hx. destruct (N.eqb_spec (fst y) w) as [E|E]; cbn.
      - exfalso. apply Hx. now left.
      - f_equal. apply IH. intros H. apply Hx. now right. }
    now rewrite E.
  - intros H Hs. destruct (is_pending s0); cbn; rewrite (IH Hn' H Hs); reflexivity.
Qed.
Lemma wok_remove w l x : In x (wok (remove_waiter w l)) -> In x (wok l).
Proof.
  unfold wok, remove_waiter. intros H. apply in_map_iff in H as (y & <- & Hy). apply filter_In in Hy as [Hy Hw].
  apply filter_In in Hy as [Hy _]. apply in_map_iff. exists y. split; auto. apply filter_In. auto.
Qed.

(* cancelling a queued waiter *)
Lemma pend_cancel w l : sublist (pend (set_waiter w WCancelled l)) (pend l).
Proof.
  unfold pend. induction l as [|[x s] l IH]; cbn; [constructor|]. destruct (N.eqb x w); cbn.
  - destruct (is_pending s); cbn; [apply sl_skip|]; apply sublist_refl.
  - destruct (is_pending s); cbn; [now apply sl_take|exact IH].
Qed.
Lemma wok_cancel w l x : In x (wok (set_waiter w WCancelled l)) -> In x (wok l).
Proof.
  unfold wok. induction l as [|[y s] l IH]; cbn; [auto|]. destruct (N.eqb y w); cbn.
  - destruct (is_woken s); cbn; auto.
  - destruct (is_woken s); cbn; [intros [H|H]; auto|auto].
Qed.

Lemma sublist_trans a b c : sublist a b -> sublist b c -> sublist a c.
Proof.
  intros H1 H2. revert a H1. induction H2 as [l|y b l H IH|y b l H IH]; intros a H1.
  - inversion H1; subst. apply sl_nil.
  - apply sl_skip. now apply IH.
  - inversion H1 as [|? ? ? H1'|? ? ? H1']; subst.
    + apply sl_nil.
    + apply sl_skip. now apply IH.
    + apply sl_take. now apply IH.
Qed.

(* ---------- the wake-up operations hand permits to a PREFIX of the queued workers ---------- *)
(* [moves st st' k]: the first k queued workers have been handed a permit, nobody else has *)
Definition moves (st st' : lstate) (k : nat) : Prop :=
  pend (waiters st') = skipn k (pend (waiters st)) /\
  (forall y, In y (wok (waiters st')) -> In y (wok (waiters st)) \/ In y (firstn k (pend (waiters st)))) /\
  admitted st' = admitted st.

Lemma moves_refl st : moves st st 0.
Proof. unfold moves. cbn. auto. Qed.
Lemma moves_eq st st' : waiters st' = waiters st -> admitted st' = admitted st -> moves st st' 0.
Proof. intros E1 E2. unfold moves. rewrite E1, E2. cbn. auto. Qed.

Lemma skipn_skipn {A} a b (l : list A) : skipn a (skipn b l) = skipn (a + b) l.
Proof. revert l. induction b as [|b IH]; intros l; [now rewrite Nat.add_0_r|]. rewrite Nat.add_succ_r. destruct l; cbn; [now destruct a|apply IH]. Qed.
Lemma firstn_add {A} a b (l : list A) : firstn (a + b) l = firstn b l ++ firstn a (skipn b l).
Proof.
  revert l. induction b as [|b IH]; intros l; [now rewrite Nat.add_0_r|]. rewrite Nat.add_succ_r.
  destruct l; cbn; [now destruct a|]. now rewrite IH.
Qed.

Lemma moves_trans a b c k1 k2 : moves a b k1 -> moves b c k2 -> moves a c (k2 + k1).
Proof.
  intros (P1 & W1 & A1) (P2 & W2 & A2). unfold moves. rewrite P2, P1, skipn_skipn.
  split; [reflexivity|]. split; [|congruence].
  intros y Hy. destruct (W2 y Hy) as [H|H].
  - destruct (W1 y H) as [H'|H']; [now left|right]. rewrite firstn_add. apply in_or_app. now left.
  - right. rewrite firstn_add. apply in_or_app. right. now rewrite <- P1.
Qed.

Lemma wake_next_moves st : exists k, moves st (wake_next st) k.
Proof.
  unfold wake_next. destruct (wake_first (waiters st)) as [ws|] eqn:E; [|exists O; apply moves_refl].
  destruct (wake_first_spec _ _ E) as (a & w & b & Hl & -> & Ha). exists 1%nat. unfold moves. cbn [waiters upd_sem admitted].
  rewrite Hl, !pend_app, (pend_none a Ha). cbn.
  split; [reflexivity|]. split; [|reflexivity].
  intros y. rewrite !wok_app. cbn. intros H. apply in_app_or in H as [H|[<-|H]].
  - left. apply in_or_app. now left.
  - right. now left.
  - left. apply in_or_app. now right.
Qed.

Lemma release_moves st : exists k, moves st (release st) k.
Proof.
  unfold release. destruct (wake_next_moves (upd_sem st (value st + 1) (waiters st))) as (k & H). exists k. exact H.
Qed.

Lemma release_n_moves n : forall st, exists k, moves st (release_n n st) k.
Proof.
  induction n as [|n IH]; intros st; cbn [release_n]; [exists O; apply moves_refl|].
  destruct (release_moves (set_semv st (semv st + 1))) as (k1 & H1).
  destruct (IH (release (set_semv st (semv st + 1)))) as (k2 & H2).
  exists (k2 + k1)%nat. eapply moves_trans; [|exact H2]. exact H1.
Qed.

(* removing a waiter that is not queued any more *)
Lemma remove_moves st w s : NoDup (ids (waiters st)) -> find_waiter w (waiters st) = Some s -> is_pending s = false ->
  moves st (upd_sem st (value st) (remove_waiter w (waiters st))) 0.
Proof.
  intros Hn Hf Hs. unfold moves. cbn [waiters upd_sem admitted skipn firstn].
  split; [now apply (pend_remove_notpending w _ s)|]. split; [|reflexivity].
  intros y Hy. left. eapply wok_remove; eauto.
Qed.

(* ---------- the invariant ---------- *)
(* S: the workers that have entered so far, in the order in which they did.  S2: a suffix of S holding
   every queued worker (in queue order) and nobody who has been granted a permit *)
Definition Split (st : lstate) (S S2 : list N) : Prop :=
  exists S1, S = S1 ++ S2 /\ sublist (pend (waiters st)) S2 /\ forall y, In y S2 -> ~ granted st y.

Record OInv (st : lstate) (S : list N) : Prop := {
  o_nodup : NoDup S;
  o_known : forall y, In y (ids (waiters st)) \/ In y (admitted st) \/ In y (holders st) \/ In y (refused st) -> In y S;
  o_hold : forall y, In y (holders st) -> In y (admitted st);
  o_split : exists S2, Split st S S2 }.

Lemma nodup_app_r {A} (a b : list A) : NoDup (a ++ b) -> NoDup b.
Proof. induction a as [|y a IH]; cbn; intros Hn; [exact Hn|]. inversion Hn; subst. auto. Qed.

Lemma skipn_sublist_split : forall k ps S2, NoDup S2 -> sublist ps S2 ->
  exists A B, S2 = A ++ B /\ sublist (skipn k ps) B /\ forall y, In y (firstn k ps) -> ~ In y B.
Proof.
  induction k as [|k IH]; intros ps S2 Hn Hs.
  - exists [], S2. cbn. auto.
  - destruct ps as [|z ps]; [exists [], S2; cbn; auto|].
    destruct (sublist_head_split z ps S2 Hn Hs) as (A & B & -> & HB & HA).
    assert (HnB : NoDup B) by (apply nodup_app_r in Hn; now inversion Hn).
    assert (HzB : ~ In z B) by (apply nodup_app_r in Hn; now inversion Hn).
    destruct (IH ps B HnB HB) as (A' & B' & -> & HB' & Hf).
    exists (A ++ z :: A'), B'. split; [now rewrite <- app_assoc|]. split; [exact HB'|].
    intros y [<-|Hy]; [intros H; apply HzB; apply in_or_app; now right|auto].
Qed.

(* a step that only hands permits to a prefix of the queue keeps a split (a smaller suffix) *)
Lemma split_moves st st' S S2 k : NoDup S -> moves st st' k -> Split st S S2 ->
  exists S2', Split st' S S2' /\ incl S2' S2.
Proof.
  intros Hn (P & W & Ad) (S1 & -> & Hs & Hg).
  destruct (skipn_sublist_split k _ S2 (nodup_app_r _ _ Hn) Hs) as (A & B & -> & HB & Hf).
  exists B. split; [|intros y Hy; apply in_or_app; now right].
  exists (S1 ++ A). split; [now rewrite <- app_assoc|]. split; [now rewrite P|].
  intros y Hy [Hg1|Hg1].
  - apply (Hg y); [apply in_or_app; now right|]. left. now rewrite <- Ad.
  - destruct (W y Hg1) as [H|H].
    + apply (Hg y); [apply in_or_app; now right|now right].
    + now apply (Hf y).
Qed.

(* fewer queued workers (a cancellation), nobody new granted *)
Lemma split_sub st st' S S2 : Split st S S2 ->
  sublist (pend (waiters st')) (pend (waiters st)) ->
  (forall y, In y (wok (waiters st')) -> In y (wok (waiters st))) -> admitted st' = admitted st ->
  Split st' S S2.
Proof.
  intros (S1 & -> & Hs & Hg) Hsub Hw Ad. exists S1. split; [reflexivity|]. split; [eapply sublist_trans; eauto|].
  intros y Hy [H|H]; apply (Hg y Hy); [left; now rewrite <- Ad|right; auto].
Qed.

(* worker w is admitted; w is not in the suffix, or nobody is queued *)
Lemma split_admit st st' S S2 w : NoDup S -> Split st S S2 ->
  pend (waiters st') = pend (waiters st) -> (forall y, In y (wok (waiters st')) -> In y (wok (waiters st))) ->
  admitted st' = admitted st ++ [w] -> (~ In w S2 \/ pend (waiters st) = []) ->
  exists S2', Split st' S S2'.
Proof.
  intros Hn (S1 & -> & Hs & Hg) P W Ad [Hw|Hnone].
  - exists S2, S1. split; [reflexivity|]. split; [now rewrite P|].
    intros y Hy [H|H].
    + rewrite Ad in H. apply in_app_or in H as [H|[<-|[]]]; [apply (Hg y Hy); now left|contradiction].
    + apply (Hg y Hy). right. auto.
  - exists [], (S1 ++ S2). split; [now rewrite app_nil_r|]. split; [rewrite P, Hnone; apply sl_nil|intros y []].
Qed.

Lemma locked_false_pend st : locked st = false -> pend (waiters st) = [].
Proof.
  unfold locked. intros H. apply orb_false_iff in H as [_ H]. unfold pend.
  induction (waiters st) as [|[x s] l IH]; cbn in *; [reflexivity|]. apply orb_false_iff in H as [H1 H2].
  destruct s; cbn in *; try discriminate; auto.
Qed.

Definition enters (l : label) (S : list N) : list N := match l with Start w => S ++ [w] | _ => S end.
Definition fresh_enter (l : label) (S : list N) : Prop := match l with Start w => ~ In w S | _ => True end.

Lemma memN_In x l : memN x l = true <-> In x l.
Proof.
  unfold memN. rewrite existsb_exists. split.
  - intros (y & Hy & E). apply N.eqb_eq in E. now subst.
  - intros H. exists x. split; [exact H|apply N.eqb_refl].
Qed.
Lemma In_removeN x y l : In x (removeN y l) -> In x l.
Proof. unfold removeN. intros H. now apply filter_In in H as [H _]. Qed.
Lemma ids_remove w l x : In x (ids (remove_waiter w l)) -> In x (ids l).
Proof.
  unfold ids, remove_waiter. intros H. apply in_map_iff in H as (y & <- & Hy). apply filter_In in Hy as [Hy _]. now apply in_map.
Qed.

Lemma known_spec st w : known st w = true ->
  In w (ids (waiters st)) \/ In w (admitted st) \/ In w (holders st) \/ In w (refused st).
Proof.
  unfold known. intros H. repeat (apply orb_true_iff in H as [H|H]).
  - right. right. left. now apply memN_In.
  - right. right. right. now apply memN_In.
  - right. left. now apply memN_In.
  - left. apply existsb_exists in H as (x & Hx & E). apply N.eqb_eq in E. subst. now apply in_map.
Qed.

(* retarget with a positive target: queued workers at the head may be handed permits, then w is inside *)
Lemma retarget_admits st w : 1 <= target st ->
  exists stm k, moves st stm k /\ ids (waiters stm) = ids (waiters st) /\
    waiters (retarget st w) = waiters stm /\ admitted (retarget st w) = admitted stm ++ [w] /\
    holders (retarget st w) = w :: holders st /\ refused (retarget st w) = refused st.
Proof.
  intros Ht. unfold retarget. assert (E : (target st <=? 0) = false) by (apply Z.leb_gt; lia). rewrite E.
  set (n := Z.to_nat (target st - semv st)).
  destruct (release_n_moves n st) as (k & Hm). exists (release_n n st), k.
  destruct (release_n_spec n st) as (_ & _ & Hh & _ & _ & Hr & _).
  split; [exact Hm|]. split; [apply release_n_ids|]. cbn. rewrite Hh, Hr. auto.
Qed.

Lemma step_oinv st l S : InvN st -> OInv st S -> fresh_enter l S -> OInv (step st l) (enters l S).
Proof.
  intros [(_ & _ & _ & _ & Ht & _) Oi] [On Ok Oh (S2 & Os)] Hf. destruct l as [w|w|w|w|n]; cbn [step enters].
  - (* Start *)
    cbn in Hf. assert (HnS : NoDup (S ++ [w])) by (apply NoDup_app_snoc; auto).
    assert (Ek : known st w = false).
    { destruct (known st w) eqn:E; [|reflexivity]. exfalso. apply Hf. apply Ok. now apply known_spec. }
    rewrite Ek.
    assert (Hnew : ~ granted st w).
    { intros [H|H]; apply Hf; apply Ok; [right; now left|left; now apply wok_ids]. }
    assert (Et : (target st <=? 0) = false) by (apply Z.leb_gt; lia). rewrite Et.
    assert (Os' : Split st (S ++ [w]) (S2 ++ [w])).
    { destruct Os as (S1 & -> & Hs & Hg). exists S1. split; [now rewrite app_assoc|]. split; [now apply sublist_app_r|].
      intros y Hy. apply in_app_or in Hy as [Hy|[<-|[]]]; [now apply Hg|exact Hnew]. }
    destruct (locked st) eqn:El.
    + (* queued *)
      split; cbn [waiters upd_sem admitted holders refused set_holders set_cpend set_semv set_target set_refused]; auto.
      * intros y [H|[H|[H|H]]]; apply in_or_app; try (left; apply Ok; tauto).
        unfold ids in H. rewrite map_app in H. apply in_app_or in H as [H|[<-|[]]]; [left; apply Ok; now left|right; now left].
      * destruct Os as (S1 & -> & Hs & Hg). exists (S2 ++ [w]). exists S1. split; [now rewrite app_assoc|].
        cbn [waiters upd_sem]. rewrite pend_app. cbn.
        split; [now apply sublist_snoc|].
        intros y Hy [Hg1|Hg1].
        -- cbn [admitted upd_sem] in Hg1. apply in_app_or in Hy as [Hy|[<-|[]]]; [apply (Hg y Hy); now left|apply Hnew; now left].
        -- cbn [waiters upd_sem] in Hg1. rewrite wok_app in Hg1. cbn in Hg1. rewrite app_nil_r in Hg1.
           apply in_app_or in Hy as [Hy|[<-|[]]]; [apply (Hg y Hy); now right|apply Hnew; now right].
    + (* admitted at once: nobody was queued *)
      set (st0 := upd_sem st (value st - 1) (waiters st)).
      assert (Hp0 : pend (waiters st0) = []) by (change (waiters st0) with (waiters st); now apply locked_false_pend).
      destruct (retarget_admits st0 w Ht) as (stm & k & Hm & I & Hw & Ad & Hh & Hr).
      assert (Os0 : Split st0 (S ++ [w]) (S2 ++ [w])) by exact Os'.
      destruct (split_moves st0 stm _ _ k HnS Hm Os0) as (S2m & Osm & _).
      destruct Hm as (Pm & Wm & Adm).
      split; auto.
      * intros y H. rewrite Hw, I, Ad, Adm, Hh, Hr in H. apply in_or_app.
        destruct H as [H|[H|[H|H]]].
        -- left. apply Ok. now left.
        -- apply in_app_or in H as [H|[<-|[]]]; [left; apply Ok; right; now left|right; now left].
        -- destruct H as [<-|H]; [right; now left|left; apply Ok; right; right; now left].
        -- left. apply Ok. right. right. now right.
      * intros y Hy. rewrite Hh in Hy. rewrite Ad, Adm. apply in_or_app. destruct Hy as [<-|Hy]; [right; now left|left; now apply Oh].
      * apply (split_admit stm _ (S ++ [w]) S2m w); auto.
        -- now rewrite Hw.
        -- intros y. now rewrite Hw.
        -- right. rewrite Pm, Hp0. now destruct k.
  - (* Wake *)
    destruct (find_waiter w (waiters st)) as [[| |]|] eqn:Ef; try (split; eauto; fail).
    + (* Woken: the permit handed over earlier is taken (or given back) *)
      assert (Hgw : granted st w) by (right; now apply find_waiter_wok).
      assert (HwS2 : ~ In w S2) by (intros H; destruct Os as (S1 & _ & _ & Hg); now apply (Hg w H)).
      pose proof (remove_moves st w Woken Oi Ef eq_refl) as Hm1.
      set (st1 := upd_sem st (value st) (remove_waiter w (waiters st))) in *.
      destruct (memN w (cpend st)).
      * destruct (release_moves st1) as (k & Hm2).
        pose proof (moves_trans _ _ _ _ _ Hm1 Hm2) as Hm.
        destruct (split_moves st _ S S2 _ On Hm Os) as (S2' & Os' & _).
        split; auto.
        -- intros y H. apply Ok. cbn [waiters admitted holders refused set_cpend] in H.
           destruct (release_spec st1) as ((_ & _ & Fh & _ & _ & Fr & Fa & _) & _).
           rewrite release_ids, <- Fh, <- Fr, <- Fa in H. cbn [waiters upd_sem admitted holders refused set_holders set_cpend set_semv set_target set_refused] in H.
           destruct H as [H|H]; [left; apply (ids_remove w); exact H|right; exact H].
        -- intros y H. cbn [holders admitted set_cpend] in *.
           destruct (release_spec st1) as ((_ & _ & Fh & _ & _ & _ & Fa & _) & _). rewrite <- Fh in H. rewrite <- Fa. cbn [waiters upd_sem admitted holders refused set_holders set_cpend set_semv set_target set_refused] in *. auto.
        -- exists S2'. destruct Os' as (S1' & E & Hs & Hg). exists S1'. split; [exact E|]. split; [exact Hs|].
           intros y Hy Hgr. apply (Hg y Hy). exact Hgr.
      * set (st2 := if 0 <? value st1 then wake_next st1 else st1).
        assert (Hm2 : exists k, moves st1 st2 k /\ ids (waiters st2) = ids (waiters st1) /\ holders st2 = holders st1 /\
                                 refused st2 = refused st1 /\ target st2 = target st1).
        { subst st2. destruct (0 <? value st1).
          - destruct (wake_next_moves st1) as (k & H). exists k. split; [exact H|]. split; [apply wake_next_ids|].
            destruct (wake_next_spec st1) as ((F1 & _ & Fh & _ & _ & Fr & _) & _). auto.
          - exists O. split; [apply moves_refl|auto]. }
        destruct Hm2 as (k2 & Hm2 & I2 & Hh2 & Hr2 & Ht2).
        assert (Ht2' : 1 <= target st2) by (rewrite Ht2; exact Ht).
        destruct (retarget_admits st2 w Ht2') as (stm & k3 & Hm3 & I3 & Hw & Ad & Hh & Hr).
        pose proof (moves_trans _ _ _ _ _ (moves_trans _ _ _ _ _ Hm1 Hm2) Hm3) as Hm.
        destruct (split_moves st stm S S2 _ On Hm Os) as (S2m & Osm & Hincl).
        destruct Hm as (Pm & Wm & Adm).
        split; auto.
        -- intros y H. rewrite Hw, I3, I2, Ad, Adm, Hh, Hh2, Hr, Hr2 in H. cbn [waiters admitted holders refused upd_sem st1] in H.
           destruct H as [H|[H|[H|H]]].
           ++ apply Ok. left. apply (ids_remove w); exact H.
           ++ apply in_app_or in H as [H|[<-|[]]]; [apply Ok; right; now left|apply Ok; left; now apply wok_ids, find_waiter_wok].
           ++ destruct H as [<-|H]; [apply Ok; left; now apply wok_ids, find_waiter_wok|apply Ok; right; right; now left].
           ++ apply Ok. right. right. now right.
        -- intros y Hy. rewrite Hh, Hh2 in Hy. rewrite Ad, Adm. apply in_or_app. cbn [waiters upd_sem admitted holders refused set_holders set_cpend set_semv set_target set_refused] in Hy.
           destruct Hy as [<-|Hy]; [right; now left|left; now apply Oh].
        -- apply (split_admit stm _ S S2m w); auto.
           ++ now rewrite Hw.
           ++ intros y. now rewrite Hw.
    + (* WCancelled: the cancelled waiter's task ends *)
      pose proof (remove_moves st w WCancelled Oi Ef eq_refl) as Hm.
      destruct (split_moves st _ S S2 _ On Hm Os) as (S2' & Os' & _).
      split; eauto. intros y H. apply Ok. cbn [waiters upd_sem admitted holders refused set_holders set_cpend set_semv set_target set_refused] in H. destruct H as [H|H]; [left; apply (ids_remove w); exact H|now right].
  - (* Exit *)
    destruct (memN w (holders st)) eqn:Em; [|split; eauto].
    set (st1 := set_holders st (removeN w (holders st)) (nhold st - 1) (admitted st)).
    assert (Hm1 : moves st st1 0) by (apply moves_eq; reflexivity).
    destruct (target st1 <? semv st1).
    + destruct (split_moves st _ S S2 _ On Hm1 Os) as (S2' & Os' & _).
      split; [exact On| | |exists S2'; exact Os'].
      * intros y H. apply Ok. change (In y (ids (waiters st)) \/ In y (admitted st) \/ In y (removeN w (holders st)) \/ In y (refused st)) in H.
        destruct H as [H|[H|[H|H]]]; auto. right. right. left. apply (In_removeN y w). exact H.
      * intros y H. change (In y (removeN w (holders st))) in H. change (In y (admitted st)). apply Oh. apply (In_removeN y w). exact H.
    + destruct (release_moves st1) as (k & Hm2).
      pose proof (moves_trans _ _ _ _ _ Hm1 Hm2) as Hm.
      destruct (split_moves st _ S S2 _ On Hm Os) as (S2' & Os' & _).
      destruct (release_spec st1) as ((_ & _ & Fh & _ & _ & Fr & Fa & _) & _).
      split; [exact On| | |exists S2'; exact Os'].
      * intros y H. apply Ok. rewrite release_ids, <- Fh, <- Fr, <- Fa in H.
        change (In y (ids (waiters st)) \/ In y (admitted st) \/ In y (removeN w (holders st)) \/ In y (refused st)) in H.
        destruct H as [H|[H|[H|H]]]; auto. right. right. left. apply (In_removeN y w). exact H.
      * intros y H. rewrite <- Fh in H. rewrite <- Fa. change (In y (removeN w (holders st))) in H. change (In y (admitted st)).
        apply Oh. apply (In_removeN y w). exact H.
  - (* Cancel *)
    destruct (find_waiter w (waiters st)) as [[| |]|] eqn:Ef; try (split; eauto; fail).
    + destruct (set_waiter_cancel w (waiters st) Ef) as [_ I].
      split; auto.
      * intros y H. apply Ok. cbn [waiters upd_sem admitted holders refused set_holders set_cpend set_semv set_target set_refused] in H. rewrite I in H. exact H.
      * exists S2. apply (split_sub st); auto; cbn [waiters upd_sem admitted holders refused set_holders set_cpend set_semv set_target set_refused].
        -- apply pend_cancel.
        -- intros y. apply wok_cancel.
    + destruct (memN w (cpend st)); split; eauto.
  - (* SetTarget *)
    split; auto. exists S2. destruct Os as (S1 & E & Hs & Hg). exists S1. auto.
Qed.

(* ---------- every reachable state ---------- *)
Fixpoint starts (ls : list label) : list N :=
  match ls with [] => [] | Start w :: r => w :: starts r | _ :: r => starts r end.

Lemma run_oinv : forall ls st S, InvN st -> OInv st S -> Forall ok_label ls -> NoDup (S ++ starts ls) ->
  exists S', OInv (fold_left step ls st) S' /\ S' = S ++ starts ls.
Proof.
  induction ls as [|l ls IH]; intros st S Hi Ho Hl Hn; cbn [fold_left starts].
  - exists S. split; [exact Ho|now rewrite app_nil_r].
  - inversion Hl as [|? ? Hl1 Hl2]; subst.
    assert (Hf : fresh_enter l S).
    { destruct l; cbn; auto. cbn in Hn. intros H. apply NoDup_remove_2 in Hn. apply Hn. apply in_or_app. now left. }
    destruct (IH (step st l) (enters l S)) as (S' & Ho' & E); auto.
    + now apply step_inv.
    + now apply step_oinv.
    + destruct l; cbn [enters starts] in *; auto. now rewrite <- app_assoc.
    + exists S'. split; [exact Ho'|]. rewrite E. destruct l; cbn [enters starts]; auto. now rewrite <- app_assoc.
Qed.

(* nobody overtakes a worker that is still queued: whoever holds a permit, was ever admitted or has been
   handed a permit entered before every worker that is still waiting *)
Theorem no_overtaking t ls : 1 <= t -> Forall ok_label ls -> NoDup (starts ls) ->
  let st := run t ls in
  forall x y, find_waiter x (waiters st) = Some Pending ->
              (In y (holders st) \/ In y (admitted st) \/ find_waiter y (waiters st) = Some Woken) ->
              exists a b, starts ls = a ++ b /\ In y a /\ In x b.
Proof.
  intros Ht Hl Hn st x y Hx Hy.
  assert (H0 : OInv (init t) []).
  { split; cbn; [constructor|intros y0 [[]|[[]|[[]|[]]]]|intros y0 []|].
    exists [], []. split; [reflexivity|]. split; [apply sl_nil|intros y0 []]. }
  destruct (run_oinv ls (init t) [] (init_inv t Ht) H0 Hl Hn) as (S' & [On Ok Oh (S2 & Hsp)] & ES).
  destruct Hsp as (S1 & E & Hs & Hg). cbn in ES. subst S'. fold (run t ls) in *. fold st in Ok, Oh, Hs, Hg.
  exists S1, S2. split; [now symmetry|]. split.
  - assert (Hgy : granted st y).
    { destruct Hy as [Hy|[Hy|Hy]]; [left; now apply Oh|now left|right; now apply find_waiter_wok]. }
    assert (HyS : In y (S1 ++ S2)).
    { apply Ok. destruct Hgy as [H|H]; [right; now left|left; now apply wok_ids]. }
    apply in_app_or in HyS as [H|H]; [exact H|]. exfalso. now apply (Hg y H).
  - apply (sublist_In _ _ Hs). now apply find_waiter_pend.
Qed.
