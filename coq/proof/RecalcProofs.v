From Coq Require Import QArith Qround Qminmax Lqa.
From AV Require Import Base Gen_session Cost CostProofs Recalc.
Local Open Scope Q_scope.

Lemma qmin_l a b : qmin a b <= a.
Proof.
  unfold qmin. destruct (Qle_bool a b) eqn:E; [lra|].
  destruct (Qlt_le_dec b a) as [H|H]; [lra|]. apply Qle_bool_iff in H. congruence.
Qed.
Lemma qmin_r a b : qmin a b <= b.
Proof. unfold qmin. destruct (Qle_bool a b) eqn:E; [now apply Qle_bool_iff|lra]. Qed.
Lemma qmin_glb a b x : x <= a -> x <= b -> x <= qmin a b.
Proof. unfold qmin. destruct (Qle_bool a b); auto. Qed.
Lemma qmax_lub a b x : a <= x -> b <= x -> qmax a b <= x.
Proof. unfold qmax. destruct (Qle_bool a b); auto. Qed.

(* the clamped value lies between floor and cap whenever floor <= cap *)
Lemma clamp_between current trt avg :
  floor_of current <= cap_of current ->
  floor_of current <= clamp current trt avg /\ clamp current trt avg <= cap_of current.
Proof.
  intros H. unfold clamp. destruct (Qeq_bool avg 0); [split; [exact H|lra]|]. split.
  - apply qmax_l.
  - apply qmax_lub; [exact H|apply qmin_l].
Qed.

Lemma round_mono x y : x <= y -> (round_half_up x <= round_half_up y)%Z.
Proof. intros H. unfold round_half_up. apply Qfloor_resp_le. lra. Qed.

Theorem new_limit_between current trt avg :
  floor_of current <= cap_of current ->
  (lo_of current <= new_limit current trt avg <= hi_of current)%Z.
Proof.
  intros H. destruct (clamp_between current trt avg H) as [H1 H2].
  unfold new_limit, lo_of, hi_of. split; apply round_mono; assumption.
Qed.

(* ---------- the finite table: every current limit 1..250 ---------- *)
Definition Zceil (x : Q) : Z := Qceiling x.
Definition row_ok (c : Z) : bool :=
  Qle_bool (floor_of c) (cap_of c) &&
  (1 <=? lo_of c)%Z && (hi_of c <=? 250)%Z &&
  (hi_of c - c <=? Zceil (qmax 3 (inject_Z c * (1 # 10))))%Z &&
  (c - lo_of c <=? Zceil (qmax 1 (inject_Z c * (2 # 10))))%Z.

Definition all_rows : list Z := map Z.of_nat (seq 1 250).
Lemma table_ok : forallb row_ok all_rows = true.
Proof. vm_compute. reflexivity. Qed.

Lemma in_all_rows c : (1 <= c <= 250)%Z -> In c all_rows.
Proof.
  intros H. unfold all_rows. apply in_map_iff. exists (Z.to_nat c). split; [lia|].
  apply in_seq. lia.
Qed.

Theorem recalc_step c trt avg : (1 <= c <= 250)%Z ->
  let n := new_limit c trt avg in
  (1 <= n <= 250)%Z /\
  (n - c <= Zceil (qmax 3 (inject_Z c * (1 # 10))))%Z /\
  (c - n <= Zceil (qmax 1 (inject_Z c * (2 # 10))))%Z.
Proof.
  intros Hc n. pose proof table_ok as T. rewrite forallb_forall in T.
  specialize (T c (in_all_rows c Hc)). unfold row_ok in T.
  repeat (apply andb_true_iff in T as [T ?]).
  apply Qle_bool_iff in T. apply Z.leb_le in H, H0, H1, H2.
  destruct (new_limit_between c trt avg T) as [L U]. fold n in L, U. lia.
Qed.

(* every limit in a recalibration history starting from a limit in range stays in range *)
Theorem limits_in_range : forall h start, (1 <= start <= 250)%Z ->
  Forall (fun l => (1 <= l <= 250)%Z) (limits start h).
Proof.
  intros h start Hs. unfold limits.
  assert (G : forall h cur acc, (1 <= cur <= 250)%Z -> Forall (fun l => (1 <= l <= 250)%Z) acc ->
              Forall (fun l => (1 <= l <= 250)%Z)
                (snd (fold_left (fun acc x => let l := new_limit (fst acc) (fst x) (snd x) in (l, snd acc ++ [l]))
                                h (cur, acc)))).
  { induction h0 as [|x h0 IH]; intros cur acc Hc Ha; cbn; auto.
    apply IH.
    - apply (recalc_step cur (fst x) (snd x) Hc).
    - apply Forall_app. split; auto. constructor; auto. apply (recalc_step cur (fst x) (snd x) Hc). }
  apply G; auto.
Qed.

(* ---------- the arithmetic regenerated from the source is the arithmetic of the model ---------- *)
Lemma rc_generated_known :
  forallb aknown [gen_rc_cap; gen_rc_floor; gen_rc_target_nonzero; gen_rc_target_zero; gen_rc_round] = true.
Proof. reflexivity. Qed.

Lemma qmin_comp a a' b b' : a == a' -> b == b' -> qmin a b == qmin a' b'.
Proof.
  intros Ha Hb. unfold qmin. destruct (Qle_bool a b) eqn:E, (Qle_bool a' b') eqn:E'; auto.
  - apply Qle_bool_iff in E. assert (H : ~ a' <= b') by (intros H; apply Qle_bool_iff in H; congruence). rewrite <- Ha, <- Hb in H. contradiction.
  - apply Qle_bool_iff in E'. assert (H : ~ a <= b) by (intros H; apply Qle_bool_iff in H; congruence). rewrite Ha, Hb in H. contradiction.
Qed.
Lemma qmax_comp a a' b b' : a == a' -> b == b' -> qmax a b == qmax a' b'.
Proof.
  intros Ha Hb. unfold qmax. destruct (Qle_bool a b) eqn:E, (Qle_bool a' b') eqn:E'; auto.
  - apply Qle_bool_iff in E. assert (H : ~ a' <= b') by (intros H; apply Qle_bool_iff in H; congruence). rewrite <- Ha, <- Hb in H. contradiction.
  - apply Qle_bool_iff in E'. assert (H : ~ a <= b) by (intros H; apply Qle_bool_iff in H; congruence). rewrite Ha, Hb in H. contradiction.
Qed.

Theorem rc_generated_arithmetic current trt avg :
  let cap := aeval (renv current trt avg 0 0 0) gen_rc_cap in
  let floor := aeval (renv current trt avg 0 0 0) gen_rc_floor in
  cap == cap_of current /\ floor == floor_of current /\
  aeval (renv current trt avg cap floor 0) gen_rc_target_zero == cap_of current /\
  aeval (renv current trt avg cap floor 0) gen_rc_target_nonzero ==
    qmax (floor_of current) (qmin (cap_of current) (inject_Z current * trt / avg)) /\
  (forall target, aeval (renv current trt avg cap floor target) gen_rc_round = inject_Z (round_half_up target)).
Proof.
  cbv zeta.
  assert (Hc : aeval (renv current trt avg 0 0 0) gen_rc_cap == cap_of current).
  { cbn. unfold cap_of, rc_min_step_up, rc_rel_up, rc_cap. apply qmin_comp; [|reflexivity].
    apply Qplus_comp; [reflexivity|]. apply qmax_comp; reflexivity. }
  assert (Hf : aeval (renv current trt avg 0 0 0) gen_rc_floor == floor_of current).
  { cbn. unfold floor_of, rc_floor, rc_rel_down. apply qmax_comp; [reflexivity|]. apply qmin_comp; [|reflexivity].
    apply Qmult_comp; reflexivity. }
  split; [exact Hc|]. split; [exact Hf|]. split; [exact Hc|]. split.
  - cbn [aeval gen_rc_target_nonzero renv]. apply qmax_comp; [exact Hf|]. apply qmin_comp; [exact Hc|reflexivity].
  - intros target. reflexivity.
Qed.

(* hence the model's new limit is what the generated expressions compute *)
Theorem new_limit_uses_generated current trt avg :
  let cap := aeval (renv current trt avg 0 0 0) gen_rc_cap in
  let floor := aeval (renv current trt avg 0 0 0) gen_rc_floor in
  let target := if Qeq_bool avg 0 then aeval (renv current trt avg cap floor 0) gen_rc_target_zero
                else aeval (renv current trt avg cap floor 0) gen_rc_target_nonzero in
  inject_Z (new_limit current trt avg) = aeval (renv current trt avg cap floor (clamp current trt avg)) gen_rc_round /\
  target == clamp current trt avg.
Proof.
  cbv zeta. destruct (rc_generated_arithmetic current trt avg) as (Hc & Hf & Hz & Hn & Hr). cbv zeta in *.
  split; [symmetry; apply Hr|]. unfold clamp. destruct (Qeq_bool avg 0); [exact Hz|exact Hn].
Qed.
