(* Proofs about the send gate LTS (model/WriteGate.v). *)
From AV Require Import Base Gen_transport WriteGate.

(* the behavioural probe of the running code: a woken writer re-checks the gate *)
Lemma rechecks : write_rechecks_gate = true.
Proof. reflexivity. Qed.

(* ---------- nothing is written while the transport reports its buffer full ---------- *)
Lemma do_write_blind g w : can_send g = true -> blind (do_write g w) = blind g.
Proof. intros H. unfold do_write. cbn. rewrite H. now rewrite orb_true_r. Qed.

Lemma wstep_blind g l : blind (wstep g l) = blind g.
Proof.
  destruct l as [w| | |w| |w]; cbn [wstep].
  - destruct (known g w); auto. destruct (can_send g) eqn:E; [now apply do_write_blind|reflexivity].
  - destruct (closing g); reflexivity.
  - destruct (can_send g); reflexivity.
  - destruct (memN w (released g)); auto. rewrite rechecks. cbn [andb].
    destruct (can_send g) eqn:E; cbn [negb]; [|reflexivity]. rewrite do_write_blind; [reflexivity|cbn; auto].
  - reflexivity.
  - destruct (_ || _); reflexivity.
Qed.

Theorem silent_while_full ls : blind (wrun ls) = [].
Proof.
  unfold wrun. assert (H : blind ginit = []) by reflexivity. revert H. generalize ginit.
  induction ls as [|l ls IH]; intros g H; cbn; auto. apply IH. now rewrite wstep_blind.
Qed.

(* ---------- reading is paused exactly while the gate is closed ---------- *)
Definition GateInv (g : gate) : Prop :=
  (closing g = false -> reading g = can_send g) /\
  (can_send g = true -> waiting g = []) /\ (closing g = true -> can_send g = true).

Lemma do_write_frame g w :
  can_send (do_write g w) = can_send g /\ closing (do_write g w) = closing g /\
  reading (do_write g w) = reading g /\ waiting (do_write g w) = waiting g /\
  released (do_write g w) = released g.
Proof. repeat split. Qed.

Lemma wstep_inv g l : GateInv g -> GateInv (wstep g l).
Proof.
  intros (H1 & H2 & H3). destruct l as [w| | |w| |w]; cbn [wstep]; rewrite ?rechecks; cbn [andb];
    repeat (match goal with |- context [if ?b then _ else _] => destruct b eqn:? end);
    unfold GateInv, do_write in *; cbn in *; repeat split; intros; try congruence; auto;
    try (rewrite H1; congruence); try (now rewrite H3 in *);
    try (match goal with Hn : negb (can_send _) = true, Hc : can_send _ = true |- _ => rewrite Hc in Hn; discriminate end).
Qed.

Theorem reading_follows_gate ls :
  let g := wrun ls in closing g = false -> reading g = can_send g.
Proof.
  unfold wrun. assert (H : GateInv ginit) by (repeat split; auto; discriminate). revert H. generalize ginit.
  induction ls as [|l ls IH]; intros g H; cbn [fold_left]; [apply H|]. apply IH. now apply wstep_inv.
Qed.

(* ---------- every message is written whole at most once ---------- *)
Lemma memN_In x l : memN x l = true <-> In x l.
Proof.
  unfold memN. rewrite existsb_exists. split.
  - intros (y & Hy & E). apply N.eqb_eq in E. now subst.
  - intros H. exists x. split; auto. apply N.eqb_refl.
Qed.

Definition cnt (x : N) (l : list N) : nat := length (filter (N.eqb x) l).

Lemma cnt_app x a b : cnt x (a ++ b) = cnt x a + cnt x b.
Proof. unfold cnt. now rewrite filter_app, app_length. Qed.
Lemma cnt_single x w : cnt x [w] = if N.eqb x w then 1 else 0.
Proof. unfold cnt. cbn. destruct (N.eqb x w); reflexivity. Qed.
Lemma cnt_nil x : cnt x [] = 0.
Proof. reflexivity. Qed.
Lemma cnt_cons x y l : cnt x (y :: l) = (if N.eqb x y then 1 else 0) + cnt x l.
Proof. unfold cnt. cbn. destruct (N.eqb x y); reflexivity. Qed.
Lemma cnt_removeN x w l : cnt x (removeN w l) = if N.eqb x w then 0 else cnt x l.
Proof.
  induction l as [|y l IH].
  - cbn. destruct (N.eqb x w); reflexivity.
  - unfold removeN in *. cbn [filter]. destruct (N.eqb_spec w y) as [<-|Hwy]; cbn [negb].
    + rewrite IH, cnt_cons. destruct (N.eqb_spec x w) as [->|Hxw]; [reflexivity|]. reflexivity.
    + rewrite !cnt_cons, IH. destruct (N.eqb_spec x w) as [->|Hxw]; [|reflexivity].
      destruct (N.eqb_spec w y); [contradiction|reflexivity].
Qed.
Lemma memN_cnt x l : memN x l = false -> cnt x l = 0.
Proof.
  unfold memN, cnt. induction l as [|y l IH]; cbn; auto. intros H. apply orb_false_iff in H as [H1 H2].
  rewrite H1. auto.
Qed.
Lemma memN_cnt_pos x l : memN x l = true -> 1 <= cnt x l.
Proof.
  unfold memN, cnt. induction l as [|y l IH]; cbn; [discriminate|]. intros H.
  destruct (N.eqb x y); cbn; [lia|]. apply IH. exact H.
Qed.
Lemma cnt_le1_NoDup l : (forall x, cnt x l <= 1) -> NoDup l.
Proof.
  induction l as [|y l IH]; intros H; constructor.
  - intros Hin. specialize (H y). unfold cnt in H. cbn in H. rewrite N.eqb_refl in H. cbn in H.
    assert (1 <= length (filter (N.eqb y) l)).
    { clear - Hin. induction l as [|z l IHl]; [contradiction|]. cbn. destruct (N.eqb_spec y z); cbn; [lia|].
      destruct Hin as [->|Hin]; [contradiction|]. now apply IHl. }
    lia.
  - apply IH. intros x. specialize (H x). unfold cnt in *. cbn in H. destruct (N.eqb x y); cbn in H; lia.
Qed.

Definition WInv (g : gate) : Prop :=
  forall x, cnt x (waiting g) + cnt x (released g) + cnt x (done g) + cnt x (timed_out g) <= 1 /\
            cnt x (wire g) <= cnt x (done g).

Lemma wstep_winv g l : WInv g -> WInv (wstep g l).
Proof.
  intros H. destruct l as [w| | |w| |w]; cbn [wstep]; rewrite ?rechecks; cbn [andb].
  - destruct (known g w) eqn:Ek; auto. unfold known in Ek.
    repeat (apply orb_false_iff in Ek as [Ek ?]).
    pose proof (memN_cnt w _ Ek) as K1. pose proof (memN_cnt w _ H0) as K2.
    pose proof (memN_cnt w _ H1) as K3. pose proof (memN_cnt w _ H2) as K4.
    destruct (can_send g); intros x; destruct (H x) as [A B]; unfold do_write; cbn [can_send closing reading waiting released wire blind done timed_out];
      try destruct (closing g); rewrite ?cnt_app, ?cnt_single, ?cnt_nil; destruct (N.eqb_spec x w) as [->|]; lia.
  - destruct (closing g); auto.
  - destruct (can_send g); auto. intros x. destruct (H x) as [A B]. cbn [can_send closing reading waiting released wire blind done timed_out]. rewrite ?cnt_app, ?cnt_nil. lia.
  - destruct (memN w (released g)) eqn:Em; auto. pose proof (memN_cnt_pos w _ Em) as Kp.
    destruct (negb (can_send g)); intros x; destruct (H x) as [A B]; destruct (H w) as [Aw Bw]; unfold do_write; cbn [can_send closing reading waiting released wire blind done timed_out];
      try destruct (closing g); rewrite ?cnt_app, ?cnt_single, ?cnt_removeN, ?cnt_nil; destruct (N.eqb_spec x w) as [->|]; lia.
  - intros x. destruct (H x) as [A B]. cbn [can_send closing reading waiting released wire blind done timed_out]. rewrite ?cnt_app, ?cnt_nil. lia.
  - destruct (memN w (waiting g) || memN w (released g)) eqn:Em; auto.
    assert (Kp : 1 <= cnt w (waiting g) + cnt w (released g)).
    { apply orb_true_iff in Em as [Em|Em]; apply memN_cnt_pos in Em; lia. }
    intros x. destruct (H x) as [A B]. destruct (H w) as [Aw Bw]. cbn [can_send closing reading waiting released wire blind done timed_out].
    rewrite ?cnt_app, ?cnt_single, ?cnt_removeN, ?cnt_nil. destruct (N.eqb_spec x w) as [->|]; lia.
Qed.

Theorem whole_at_most_once ls : NoDup (wire (wrun ls)) /\ incl (wire (wrun ls)) (done (wrun ls)).
Proof.
  assert (H : WInv (wrun ls)).
  { unfold wrun. assert (H0 : WInv ginit) by (intros x; cbn; lia). revert H0. generalize ginit.
    induction ls as [|l ls IH]; intros g H0; cbn [fold_left]; auto. apply IH. now apply wstep_winv. }
  split.
  - apply cnt_le1_NoDup. intros x. destruct (H x). lia.
  - intros x Hx. destruct (H x) as [_ B].
    assert (1 <= cnt x (wire (wrun ls))) by (apply memN_cnt_pos, memN_In; exact Hx).
    assert (Hc : 1 <= cnt x (done (wrun ls))) by lia.
    unfold cnt in Hc. destruct (filter (N.eqb x) (done (wrun ls))) as [|y r] eqn:E; [cbn in Hc; lia|].
    assert (Hy : In y (filter (N.eqb x) (done (wrun ls)))) by (rewrite E; now left).
    apply filter_In in Hy as [Hy1 Hy2]. apply N.eqb_eq in Hy2. now subst.
Qed.

(* ---------- losing the connection releases every blocked writer; they write nothing ---------- *)
Theorem lost_releases_writers g :
  waiting (wstep g Lost) = [] /\ incl (waiting g) (released (wstep g Lost)) /\
  closing (wstep g Lost) = true /\
  (forall w, wire (do_write (wstep g Lost) w) = wire (wstep g Lost)).
Proof. cbn. repeat split; auto. intros x Hx. apply in_or_app. now right. Qed.

(* ---------- a writer blocked for max_send_delay aborts the connection ---------- *)
Theorem stall_aborts g w : memN w (waiting g) || memN w (released g) = true ->
  closing (wstep g (Deadline w)) = true /\ In w (timed_out (wstep g (Deadline w))) /\
  waiting (wstep g (Deadline w)) = [].
Proof.
  intros H. cbn [wstep]. rewrite H. cbn. repeat split; auto. apply in_or_app. right. now left.
Qed.

(* ---------- a writer blocked when room is reported is released by it ---------- *)
Theorem resume_releases g : can_send g = false ->
  waiting (wstep g Resume) = [] /\ incl (waiting g) (released (wstep g Resume)) /\
  can_send (wstep g Resume) = true /\ reading (wstep g Resume) = true.
Proof. intros H. cbn [wstep]. rewrite H. cbn. repeat split; auto. intros x Hx. apply in_or_app. now right. Qed.
