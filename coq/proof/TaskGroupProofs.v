(* Proofs about the TaskGroup LTS (model/TaskGroup.v): C09 and C10. *)
From AV Require Import Base TaskGroup.

(* ---------- association list ---------- *)
Lemma get_set_same t m l : get t (set t m l) = Some m.
Proof.
  induction l as [|[x m0] l IH]; cbn; [now rewrite N.eqb_refl|].
  destruct (N.eqb x t) eqn:E; cbn; rewrite E; auto.
Qed.
Lemma get_set_other t t' m l : t <> t' -> get t' (set t m l) = get t' l.
Proof.
  intros Hne. induction l as [|[x m0] l IH]; cbn.
  - destruct (N.eqb_spec t t'); [contradiction|reflexivity].
  - destruct (N.eqb_spec x t) as [->|Hx]; cbn.
    + destruct (N.eqb_spec t t'); [contradiction|reflexivity].
    + destruct (N.eqb x t'); auto.
Qed.
Lemma memN_In x l : memN x l = true <-> In x l.
Proof.
  unfold memN. rewrite existsb_exists. split.
  - intros (y & Hy & E). apply N.eqb_eq in E. now subst.
  - intros H. exists x. split; [auto|apply N.eqb_refl].
Qed.
Lemma removeN_In x y l : In y (removeN x l) <-> In y l /\ y <> x.
Proof.
  unfold removeN. rewrite filter_In. split; intros [H1 H2]; split; auto.
  - intros ->. rewrite N.eqb_refl in H2. discriminate.
  - destruct (N.eqb_spec x y) as [E|E]; [congruence|reflexivity].
Qed.

(* ---------- the invariants ---------- *)
Definition is_fin (m : member) : bool := match m_status m with Fin _ => true | _ => false end.
Definition AllFin (g : tg) : Prop := forall t m, get t (members g) = Some m -> is_fin m = true.

(* every unfinished member is tracked by the group *)
Definition Tracked (g : tg) : Prop :=
  forall t m, get t (members g) = Some m -> is_fin m = false -> In t (pending g) \/ In t (daemons g).
(* a callback in the ready queue belongs to a finished task *)
Definition QueueFin (g : tg) : Prop :=
  forall c, In (HCb c) (queue g) -> finished g (match c with OnDone t | Pop t => t end) = true.
(* once join has set `joined`, every member has finished *)
Definition Closed (g : tg) : Prop := joined g = true -> AllFin g.
Definition EndedJoined (g : tg) : Prop := forall c e, pc g = JEnded c e true -> joined g = true.

Definition Inv (g : tg) : Prop := Tracked g /\ QueueFin g /\ Closed g /\ EndedJoined g.

Lemma finished_get g t : finished g t = true <-> exists m, get t (members g) = Some m /\ is_fin m = true.
Proof.
  unfold finished, status, is_fin. destruct (get t (members g)) as [m|]; cbn.
  - split; [intros H; exists m; split; auto; destruct (m_status m); auto; discriminate
           |intros (m' & E & H); injection E as <-; destruct (m_status m); auto; discriminate].
  - split; [discriminate|intros (m' & E & _); discriminate].
Qed.

(* only the joiner-related fields change: the core invariants are untouched *)
Definition same_core (g g' : tg) : Prop :=
  members g' = members g /\ pending g' = pending g /\ daemons g' = daemons g /\ queue g' = queue g.

Lemma upd_joiner_core g p en gr wk mc je unf jd cm cs : same_core g (upd_joiner g p en gr wk mc je unf jd cm cs).
Proof. repeat split. Qed.

Lemma tracked_core g g' : members g' = members g -> pending g' = pending g -> daemons g' = daemons g ->
  Tracked g -> Tracked g'.
Proof. intros Hm Hp Hd H t m. rewrite Hm, Hp, Hd. apply H. Qed.
Lemma queuefin_core g g' : members g' = members g -> queue g' = queue g -> QueueFin g -> QueueFin g'.
Proof. intros Hm Hq H c. unfold finished, status. rewrite Hm, Hq. apply H. Qed.

(* ---------- primitive operations ---------- *)
Lemma sem_release_core g :
  members (sem_release g) = members g /\ pending (sem_release g) = pending g /\
  daemons (sem_release g) = daemons g /\ joined (sem_release g) = joined g /\ pc (sem_release g) = pc g /\
  (forall h, In h (queue (sem_release g)) -> In h (queue g) \/ h = HJoiner).
Proof.
  unfold sem_release. cbn. destruct (pc g) eqn:Ep, (wake g); cbn; repeat split; auto.
  all: try (intros h Hh; apply in_app_or in Hh as [Hh|[<-|[]]]; auto).
Qed.

Lemma on_done_inv g t : finished g t = true -> Tracked g -> QueueFin g ->
  Tracked (on_done g t) /\ QueueFin (on_done g t) /\ members (on_done g t) = members g /\
  joined (on_done g t) = joined g /\ pc (on_done g t) = pc g.
Proof.
  intros Hf Ht Hq. unfold on_done. destruct (get t (members g)) as [m|] eqn:Em; [|repeat split; auto].
  apply finished_get in Hf as (m' & Em' & Hfin). rewrite Em in Em'. injection Em' as <-.
  destruct (m_daemon m).
  - cbn. repeat split; auto.
    + intros t' m' Hg Hn. cbn in Hg |- *. destruct (Ht t' m' Hg Hn) as [H|H]; [now left|right].
      apply removeN_In. split; auto. intros ->. rewrite Em in Hg. injection Hg as <-. congruence.
  - set (g1 := upd_group g (removeN t (pending g)) (daemons g) (doneq g ++ [t]) (semv g)).
    destruct (sem_release_core g1) as (S1 & S2 & S3 & S4 & S5 & S6). repeat split.
    + intros t' m' Hg Hn. rewrite S1 in Hg. rewrite S2, S3. cbn in *. destruct (Ht t' m' Hg Hn) as [H|H]; [left|now right].
      apply removeN_In. split; auto. intros ->. rewrite Em in Hg. injection Hg as <-. congruence.
    + intros c Hc. apply S6 in Hc as [Hc|Hc]; [|discriminate]. unfold finished, status. rewrite S1. apply (Hq c Hc).
    + now rewrite S1.
    + now rewrite S4.
    + now rewrite S5.
Qed.

Lemma cancel_member_frame g t :
  pending (cancel_member g t) = pending g /\ daemons (cancel_member g t) = daemons g /\
  queue (cancel_member g t) = queue g /\ joined (cancel_member g t) = joined g /\ pc (cancel_member g t) = pc g /\
  (forall t', finished (cancel_member g t) t' = finished g t') /\
  (forall t' m', get t' (members (cancel_member g t)) = Some m' ->
                 exists m, get t' (members g) = Some m /\ is_fin m' = is_fin m).
Proof.
  unfold cancel_member. destruct (get t (members g)) as [m|] eqn:Em; [|repeat split; auto; eauto].
  destruct (m_status m) eqn:Es; try (repeat split; auto; eauto; fail). cbn. repeat split; auto.
  - intros t'. unfold finished, status. cbn. destruct (N.eqb_spec t t') as [<-|Hne].
    + rewrite get_set_same, Em. cbn. now rewrite Es.
    + now rewrite get_set_other.
  - intros t' m' Hg. destruct (N.eqb_spec t t') as [<-|Hne].
    + rewrite get_set_same in Hg. injection Hg as <-. exists m. split; auto. unfold is_fin. cbn. now rewrite Es.
    + rewrite get_set_other in Hg by auto. eauto.
Qed.

Lemma register_pop_frame g t :
  pending (register_pop g t) = pending g /\ daemons (register_pop g t) = daemons g /\
  joined (register_pop g t) = joined g /\ pc (register_pop g t) = pc g /\
  (forall t', finished (register_pop g t) t' = finished g t') /\
  (forall t' m', get t' (members (register_pop g t)) = Some m' ->
                 exists m, get t' (members g) = Some m /\ is_fin m' = is_fin m) /\
  (forall h, In h (queue (register_pop g t)) -> In h (queue g) \/ (h = HCb (Pop t) /\ finished g t = true)).
Proof.
  unfold register_pop. destruct (get t (members g)) as [m|] eqn:Em; [|repeat split; auto; eauto].
  destruct (m_status m) eqn:Es.
  1,2: cbn; repeat split; auto;
    [ intros t'; unfold finished, status; cbn; destruct (N.eqb_spec t t') as [<-|Hne];
      [rewrite get_set_same, Em; cbn; now rewrite Es | now rewrite get_set_other]
    | intros t' m' Hg; destruct (N.eqb_spec t t') as [<-|Hne];
      [rewrite get_set_same in Hg; injection Hg as <-; exists m; split; auto; unfold is_fin; cbn; now rewrite Es
      | rewrite get_set_other in Hg by auto; eauto] ].
  cbn. repeat split; auto; eauto. intros h Hh. apply in_app_or in Hh as [Hh|[<-|[]]]; auto.
  right. split; auto. unfold finished, status. rewrite Em. cbn. now rewrite Es.
Qed.

(* a fold of operations that keep the frame keeps the invariants *)
Definition Frame (g g' : tg) : Prop :=
  pending g' = pending g /\ daemons g' = daemons g /\ joined g' = joined g /\ pc g' = pc g /\
  (forall t', finished g' t' = finished g t') /\
  (forall t' m', get t' (members g') = Some m' -> exists m, get t' (members g) = Some m /\ is_fin m' = is_fin m) /\
  (forall h, In h (queue g') -> In h (queue g) \/ exists t, h = HCb (Pop t) /\ finished g t = true).

Lemma frame_refl g : Frame g g.
Proof. repeat split; auto; eauto. Qed.
Lemma frame_trans a b c : Frame a b -> Frame b c -> Frame a c.
Proof.
  intros (A1 & A2 & A3 & A4 & A5 & A6 & A7) (B1 & B2 & B3 & B4 & B5 & B6 & B7).
  split; [congruence|]. split; [congruence|]. split; [congruence|]. split; [congruence|].
  split; [|split].
  - intros t'. now rewrite B5, A5.
  - intros t' m' Hg. destruct (B6 _ _ Hg) as (m1 & Hg1 & E1). destruct (A6 _ _ Hg1) as (m2 & Hg2 & E2).
    exists m2. split; auto. congruence.
  - intros h Hh. destruct (B7 _ Hh) as [Hh'|(t & -> & Hf)]; [now apply A7|]. right. exists t. split; auto. now rewrite <- A5.
Qed.

Lemma cancel_tasks_frame g ord : Frame g (cancel_tasks g ord).
Proof.
  unfold cancel_tasks.
  assert (F1 : forall l g0, Frame g0 (fold_left cancel_member l g0)).
  { induction l as [|t l IH]; intros g0; cbn; [apply frame_refl|].
    eapply frame_trans; [|apply IH]. destruct (cancel_member_frame g0 t) as (A1 & A2 & A3 & A4 & A5 & A6 & A7).
    repeat split; auto. intros h Hh. rewrite A3 in Hh. now left. }
  assert (F2 : forall l g0, Frame g0 (fold_left register_pop l g0)).
  { induction l as [|t l IH]; intros g0; cbn; [apply frame_refl|].
    eapply frame_trans; [|apply IH]. destruct (register_pop_frame g0 t) as (A1 & A2 & A3 & A4 & A5 & A6 & A7).
    repeat split; auto. intros h Hh. destruct (A7 _ Hh) as [H|[-> H]]; [now left|right; eauto]. }
  eapply frame_trans; [apply F1|apply F2].
Qed.

Lemma frame_inv g g' : Frame g g' -> Tracked g -> QueueFin g -> Tracked g' /\ QueueFin g'.
Proof.
  intros (A1 & A2 & A3 & A4 & A5 & A6 & A7) Ht Hq. split.
  - intros t m' Hg Hn. rewrite A1, A2. destruct (A6 _ _ Hg) as (m & Hg0 & E). apply (Ht t m Hg0). congruence.
  - intros c Hc. rewrite A5. destruct (A7 _ Hc) as [H|(t & E & Hf)]; [now apply Hq|]. injection E as ->. exact Hf.
Qed.

Lemma frame_allfin g g' : Frame g g' -> AllFin g -> AllFin g'.
Proof. intros (_ & _ & _ & _ & _ & A6 & _) H t m' Hg. destruct (A6 _ _ Hg) as (m & Hg0 & E). rewrite E. eapply H; eauto. Qed.

(* ---------- when nothing tracked is unfinished, everything has finished ---------- *)
Lemma tracked_empty_allfin g : Tracked g ->
  filter (fun t => negb (finished g t)) (pending g ++ daemons g) = [] -> AllFin g.
Proof.
  intros Ht He t m Hg. destruct (is_fin m) eqn:Ef; auto. exfalso.
  assert (Hin : In t (pending g ++ daemons g)) by (apply in_or_app; eapply Ht; eauto).
  assert (Hf : In t (filter (fun t => negb (finished g t)) (pending g ++ daemons g))).
  { apply filter_In. split; auto. apply negb_true_iff. destruct (finished g t) eqn:E; auto.
    apply finished_get in E as (m' & Hg' & Hf'). rewrite Hg in Hg'. injection Hg' as <-. congruence. }
  rewrite He in Hf. destruct Hf.
Qed.

Lemma ord_nil (set_ order : list N) :
  filter (fun t => memN t set_) order ++ filter (fun t => negb (memN t order)) set_ = [] -> set_ = [].
Proof.
  intros H. apply app_eq_nil in H as [H1 H2]. destruct set_ as [|x r]; auto. exfalso.
  destruct (memN x order) eqn:E.
  - apply memN_In in E. assert (In x (filter (fun t => memN t (x :: r)) order)).
    { apply filter_In. split; auto. cbn. now rewrite N.eqb_refl. }
    rewrite H1 in H. destruct H.
  - cbn in H2. rewrite E in H2. discriminate.
Qed.
